#!/bin/bash
# usage: run.sh <ID> [quick|thorough]   |   run.sh replay <file>
# Rebuilds the harness (and, through path dependencies, whatever changed in
# /repo's working tree) with hooks enabled, then runs the check.
set -u
export CARGO_NET_OFFLINE=true
cd /verif/harness || exit 2
if ! cargo build --quiet 2>/verif/target/last-build.log; then
  # retry once non-quiet for the log
  cargo build 2>&1 | tail -40 >&2
  echo "INCONCLUSIVE build failed" >&2
  exit 2
fi
BIN=/verif/target/debug/sv
if [ "${1:-}" = "replay" ]; then
  exec "$BIN" replay "$2"
fi
ID="$1"; TIER="${2:-${VERIF_TIER:-quick}}"
exec "$BIN" check "$ID" "$TIER"
