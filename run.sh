#!/bin/bash
# usage: run.sh <ID> [quick|thorough]   |   run.sh replay <file>
# Rebuilds the harness (and, through path dependencies, whatever changed in
# /repo's working tree) with hooks enabled, then runs the check.
set -u
ROOT="$(dirname "$(realpath "$0")")"
export VERIF_DIR="${VERIF_DIR:-$ROOT}"
export CARGO_NET_OFFLINE=true
TARGET="${CARGO_TARGET_DIR:-$ROOT/target}"
cd "$ROOT/harness" || exit 2
mkdir -p "$TARGET"
if ! cargo build --quiet 2>"$TARGET/last-build.log"; then
  tail -40 "$TARGET/last-build.log" >&2
  echo "INCONCLUSIVE build failed" >&2
  exit 2
fi
BIN="$TARGET/debug/sv"
if [ "${1:-}" = "replay" ]; then
  exec "$BIN" replay "$2"
fi
ID="$1"; TIER="${2:-${VERIF_TIER:-quick}}"
exec "$BIN" check "$ID" "$TIER"
