//! C14: `input[0]` selects a registry type, `input[1] & 1` the hash-collection mode, the rest is
//! the entropy of the value generator; oracle = prop_c14::check (see sos_verif::fuzz).
#![no_main]
use libfuzzer_sys::{fuzz_target, Corpus};

#[global_allocator]
static GLOBAL: sos_verif::alloc_count::Counting = sos_verif::alloc_count::Counting;

fuzz_target!(init: sos_verif::fuzz::init(), |data: &[u8]| -> Corpus {
    if sos_verif::fuzz::roundtrip_one(data) {
        Corpus::Keep
    } else {
        Corpus::Reject
    }
});
