//! C15: `input[0]` selects a decoder entry point, the rest is handed to it (see sos_verif::fuzz).
#![no_main]
use libfuzzer_sys::fuzz_target;

#[global_allocator]
static GLOBAL: sos_verif::alloc_count::Counting = sos_verif::alloc_count::Counting;

fuzz_target!(init: sos_verif::fuzz::init(), |data: &[u8]| {
    sos_verif::fuzz::decode_one(data);
});
