#!/bin/bash
# Runs the repository's pinned baseline test suite with the verification guard
# OFF (no --cfg sos_verif) and compares with /root/.vp/BASELINE.json stable_pass.
# usage: baseline.sh [repo-dir]
REPO="${1:-/repo}"
export CARGO_NET_OFFLINE=true
[ -f /w/out/rust_env.sh ] && . /w/out/rust_env.sh
cd "$REPO" || exit 2
unset RUSTFLAGS
rm -f target/nextest/pb/junit.xml
cargo nextest run --workspace --no-fail-fast --tool-config-file pb:/w/lib/nextest.toml --profile pb --test-threads 8 --offline >/tmp/baseline-nextest.log 2>&1
python3 - "$REPO" <<'PY'
import json,sys,xml.etree.ElementTree as ET
repo=sys.argv[1]
base=json.load(open('/root/.vp/BASELINE.json'))
stable=set(base['stable_pass'])
root=ET.parse(repo+'/target/nextest/pb/junit.xml').getroot()
passed=set();failed=set()
for tc in root.iter('testcase'):
    tid=(tc.get('classname') or '')+'::'+(tc.get('name') or '')
    if tc.find('failure') is not None or tc.find('error') is not None or tc.find('flakyFailure') is not None or tc.find('rerunFailure') is not None: failed.add(tid)
    elif tc.find('skipped') is None: passed.add(tid)
missing=sorted(stable-passed)
# the baseline's stable_pass set is "passes in each of 3 runs on an idle machine"; under load the
# network tests time out now and then, so a stable test that did not pass is re-run alone (up to
# twice) before it counts as not passing
import subprocess
names={}
for tc in root.iter('testcase'):
    names[(tc.get('classname') or '')+'::'+(tc.get('name') or '')]=(tc.get('classname') or '', tc.get('name') or '')
still=[]
for m in missing[:12]:
    cls,name=names.get(m,(None,None))
    if not name:
        still.append(m); continue
    pkg=cls.split('::')[0]
    ok=False
    for attempt in (1,2):
        r=subprocess.run(['cargo','nextest','run','-p',pkg,'--offline','--no-fail-fast','-E','test(=%s)'%name],cwd=repo,stdout=subprocess.PIPE,stderr=subprocess.STDOUT,text=True)
        if r.returncode==0 and ' 1 passed' in r.stdout.replace('1 test run: 1 passed','x 1 passed'):
            ok=True; break
    if ok:
        print("  passed when re-run alone (attempt %d): %s"%(attempt,m)); passed.add(m)
    else:
        still.append(m)
still+=missing[12:]
print("baseline: stable=%d passed_now=%d failed_now=%d stable_not_passing=%d"%(len(stable),len(passed),len(failed),len(still)))
for m in still: print("  NOT PASSING:",m)
sys.exit(1 if still else 0)
PY
