//! C02 — a folder always equals the replay of its own event log.
use crate::engine_acct::*;
use crate::framework::*;
use serde_json::{json, Value};
use sos_account::Account;
use sos_core::{commit::CommitHash, events::EventLog, VaultId};
use sos_reducers::FolderReducer;
use std::collections::{BTreeMap, HashMap};

pub const META: PropertyMeta = PropertyMeta {
    id: "C02",
    level: "exploration",
    rule: "local: proptest-generated histories (C01 operation set incl. folder-level caller-chosen ids, plus compact_folder) on a backend x cipher x KDF cell; after every step and for every folder three views are decrypted with the folder key and compared with each other and with the model: R = FolderReducer::reduce(log).build, M = the vault behind the account's access point, P = the persisted mirror re-read independently (decoded .vault file / sqlite rows). Time travel: the model snapshot is recorded under the log head after each step; at the end, for every recorded commit still in the log, FolderReducer::new_until_commit(c) must equal a snapshot recorded for hash c. sync: the same R==M==P oracle after merges, auto-merges and force merges received from a second device (sub-check `sync`, engine B). The sync sub-check's offline edits also contain compact_folder, moves between folders, change_folder_password and meta-only updates (favourite flag, tags); shapes of the known C04 findings (concurrent rewrite + password change of a folder; any history in which one log holds the same event hash twice; the step after a FAILED sync while a password change is in flight) are excluded by construction and counted. Non-trivial = the history contains a compaction after a delete, or a merge that replayed >= 2 events, or a force merge. Distinct = distinct history.",
    assumptions: &[
        "ciphertexts are not compared (merge re-encrypts); only decrypted name, flags, description, id set and per-id meta/value",
        "FolderReducer::new_until_commit stops at the first occurrence of a commit hash; only recorded log positions that are the first occurrence of their hash are compared (byte-identical events make later positions unreachable by hash)",
    ],
};

pub fn def() -> PropertyDef {
    PropertyDef {
        meta: META,
        shards: |_| 16,
        run,
        replay,
        timeout_s: |t| t.pick(1800, 5 * 3600),
    }
}

fn model_folder_snapshot(f: &MFolder) -> Value {
    let mut secrets = BTreeMap::new();
    for s in &f.secrets {
        secrets.insert(s.id.to_string(), json!([s.meta, s.secret]));
    }
    json!({"name": f.name, "flags": f.flags, "description": f.description, "secrets": secrets})
}

/// (position of the head, head commit)
async fn head_commit(w: &AcctWorld, fid: &VaultId) -> Result<Option<(usize, CommitHash)>, Failure> {
    let folder = w.account.folder(fid).await.map_err(hf("c02/folder-lookup-error", "Account::folder"))?;
    let log = folder.event_log();
    let log = log.read().await;
    let len = log.tree().len();
    Ok(log.tree().last_commit().map(|c| (len - 1, c)))
}

pub fn check_history(h: &History, avoid: &[&str]) -> (CaseInfo, CheckResult) {
    let mut info = CaseInfo::default();
    let r = block_on(async {
        sos_core::verif::set_clock(Some((1_700_000_000i128 * 1_000_000_000, 1_000_003)));
        let mut w = AcctWorld::new(&h.cfg).await?;
        for a in avoid {
            w.avoid.insert(a.to_string());
        }
        let mut recorded: HashMap<VaultId, Vec<(usize, CommitHash, Value)>> = HashMap::new();
        let mut res = Ok(());
        for (i, op) in h.ops.iter().enumerate() {
            let label = format!("op #{i} {}", crate::prop_c01::op_label(op));
            if let Err(f) = w.apply(op).await {
                res = Err(Failure::new(f.signature, format!("{label}: {}", f.message)));
                break;
            }
            if let Err(f) = check_replay(&w, &label, true).await {
                res = Err(f);
                break;
            }
            // a rewrite invalidates earlier commits of that folder
            if matches!(op, Op::CompactFolder { .. } | Op::CompactAccount | Op::ChangeFolderPassword { .. } | Op::ChangeAccountPassword { .. } | Op::ChangeCipher { .. }) {
                recorded.clear();
            }
            for f in &w.model.folders {
                if let Some((pos, c)) = head_commit(&w, &f.id).await? {
                    let e = recorded.entry(f.id).or_default();
                    // positions are only meaningful while the log is append-only
                    e.retain(|(p, _, _)| *p < pos);
                    e.push((pos, c, model_folder_snapshot(f)));
                }
            }
        }
        // time travel
        let mut travelled = 0u64;
        if res.is_ok() {
            'outer: for f in &w.model.folders {
                let Some(list) = recorded.get(&f.id) else { continue };
                let key = w.folder_key(&f.id).await?;
                let folder = w.account.folder(&f.id).await.map_err(hf("c02/folder-lookup-error", "Account::folder"))?;
                let log = folder.event_log();
                let log = log.read().await;
                let leaves = log.tree().leaves().unwrap_or_default();
                for (pos, c, _) in list {
                    // new_until_commit stops at the first occurrence of the hash:
                    // only positions that are the first occurrence can be compared
                    if leaves.iter().position(|l| l == c.as_ref()) != Some(*pos) {
                        continue;
                    }
                    let v = FolderReducer::new_until_commit(*c)
                        .reduce(&*log)
                        .await
                        .map_err(hf("c02/time-travel-reduce-error", "new_until_commit reduce"))?
                        .build(true)
                        .await
                        .map_err(hf("c02/time-travel-build-error", "build"))?;
                    let d = decrypt_vault(&v, &key).await.map_err(|e| Failure::new("c02/time-travel-undecryptable", e))?;
                    travelled += 1;
                    let ok = list.iter().any(|(p2, c2, snap)| p2 == pos && c2 == c && snap == &d);
                    if !ok {
                        res = Err(Failure::new(
                            "c02/time-travel-mismatch",
                            format!("replaying the log of '{}' up to commit {} (log positions {:?} of {}) does not give the folder as it was at that commit: replay has name={} flags={} description={} ids={:?}; recorded snapshots for that hash: {:?}", f.name, c,
                                leaves.iter().enumerate().filter(|(_, l)| *l == c.as_ref()).map(|(i, _)| i).collect::<Vec<_>>(), leaves.len(),
                                d["name"], d["flags"], d["description"], d["secrets"].as_object().map(|o| o.keys().cloned().collect::<Vec<_>>()),
                                list.iter().filter(|(_, c2, _)| c2 == c).map(|(_, _, s)| format!("name={} flags={} description={} ids={:?}", s["name"], s["flags"], s["description"], s["secrets"].as_object().map(|o| o.keys().cloned().collect::<Vec<_>>()))).collect::<Vec<_>>()),
                        ));
                        break 'outer;
                    }
                }
            }
        }
        let st = &w.stats;
        info.inner_evals = st.steps as u64 + travelled;
        info.nontrivial = st.compaction_after_delete;
        info.class(h.cfg.label());
        if travelled > 0 {
            info.class("time-travel");
        }
        if st.reused_id {
            info.class("reused-id");
        }
        for c in &st.classes {
            if let Some(x) = c.strip_prefix("excluded:") {
                info.excluded.push(x.to_string());
            } else {
                info.class(c.clone());
            }
        }
        sos_core::verif::set_clock(None);
        res
    });
    (info, r)
}

fn avoid_list(shard: &Shard, case_hash: u64) -> Vec<&'static str> {
    let mut v = vec![];
    if shard.has_known("c01/sqlite/create-steals-id-from-other-folder") || shard.has_known("c02/sqlite/create-steals-id-from-other-folder") {
        if case_hash % 10 != 0 {
            v.push("sqlite-id-live-in-two-folders");
        }
    }
    v
}

fn run(shard: &Shard, rep: &mut Report) {
    let t = shard.tier;
    drive(
        shard,
        rep,
        "local",
        shard.share(t.pick(250, 4_000)),
        history_strategy(Mix::Replay, t.pick(30, 80)),
        |h| {
            let avoid = avoid_list(shard, hash_of(h));
            check_history(h, &avoid)
        },
    );
    crate::engine_sync::run_c02_sync(shard, rep);
}

fn replay(shard: &Shard, sub: &str, case: &Value) -> CheckResult {
    match sub {
        "local" => {
            let h: History = from_case(case).map_err(|e| Failure::new("harness", e))?;
            check_history(&h, &[]).1
        }
        "sync" => crate::engine_sync::replay_c02_sync(shard, case),
        _ => Err(Failure::new("harness", format!("unknown sub-check {sub}"))),
    }
}
