//! Engine C: operation scripts against `BackendEventLog<T>` for all log
//! types, several co-resident logs per store, both backends in lock-step,
//! against a `Vec<(time, commit, bytes)>` model.  Serves C06 and C07.
use crate::framework::*;
use futures::StreamExt;
use proptest::prelude::*;
use serde::{Deserialize, Serialize};
use sos_backend::{
    AccountEventLog, BackendTarget, DeviceEventLog, FileEventLog,
    FolderEventLog,
};
use sos_core::{
    commit::{CommitHash, CommitProof, CommitTree},
    device::{DevicePublicKey, TrustedDevice},
    encode,
    events::{
        patch::{CheckedPatch, Diff, Patch},
        AccountEvent, DeviceEvent, EventLog, EventRecord, FileEvent,
        WriteEvent,
    },
    AccountId, ExternalFileName, Paths, SecretPath, UtcDateTime, VaultCommit,
    VaultEntry, VaultId,
};
use sos_database::{
    async_sqlite::Client,
    entity::{AccountEntity, AccountRow, FolderEntity, FolderRow},
};
use sos_vault::Vault;
use std::sync::Arc;
use time::OffsetDateTime;
use uuid::Uuid;

// ---------------------------------------------------------------------------
// Case data
// ---------------------------------------------------------------------------

pub const NUM_SLOTS: usize = 8;

#[derive(Clone, Debug, Serialize, Deserialize, PartialEq, Eq, Hash)]
pub struct RecSpec {
    /// index into the per-type event pool
    pub ev: u8,
    /// unix seconds
    pub secs: i64,
    pub nanos: u32,
}

#[derive(Clone, Debug, Serialize, Deserialize, PartialEq, Eq, Hash)]
pub enum View {
    /// head of the log itself
    Matching,
    /// head of a proper prefix (fraction of the length)
    Prefix(u16),
    /// prefix plus a different tail
    DifferentTail(u16, Vec<u8>),
    /// head of another co-resident log
    Foreign(u8),
    /// matching proof with a flipped root
    ForgedRoot(u8),
    /// matching root but edited length / index (still names the same head)
    EditedLength(i8),
}

#[derive(Clone, Debug, Serialize, Deserialize, PartialEq, Eq, Hash)]
pub enum RewindTarget {
    Index(u16),
    Absent,
}

#[derive(Clone, Debug, Serialize, Deserialize, PartialEq, Eq, Hash)]
pub enum Checkpoint {
    Correct,
    /// root bit flipped
    WrongRoot(u8),
    /// head proof of the log as it was before the request
    OldHead,
    /// head proof of the patch plus one more event
    Longer(u8),
}

#[derive(Clone, Debug, Serialize, Deserialize, PartialEq, Eq, Hash)]
pub enum LogOp {
    Apply { slot: u8, evs: Vec<u8> },
    ApplyRecords { slot: u8, recs: Vec<RecSpec> },
    PatchChecked { slot: u8, view: View, recs: Vec<RecSpec> },
    PatchUnchecked { slot: u8, recs: Vec<RecSpec> },
    Rewind { slot: u8, target: RewindTarget },
    Clear { slot: u8 },
    ReplaceAll { slot: u8, recs: Vec<RecSpec>, checkpoint: Checkpoint },
    Reopen { slot: u8 },
    DiffRecords { slot: u8, target: RewindTarget },
}

#[derive(Clone, Debug, Serialize, Deserialize, PartialEq, Eq, Hash)]
pub struct Script {
    pub ops: Vec<LogOp>,
}

// ---------------------------------------------------------------------------
// Logs
// ---------------------------------------------------------------------------

pub enum AnyLog {
    Account(AccountEventLog),
    Device(DeviceEventLog),
    Files(FileEventLog),
    Folder(FolderEventLog),
}

macro_rules! with_log {
    ($l:expr, $log:ident => $body:expr) => {
        match $l {
            AnyLog::Account($log) => $body,
            AnyLog::Device($log) => $body,
            AnyLog::Files($log) => $body,
            AnyLog::Folder($log) => $body,
        }
    };
}

#[derive(Clone, Copy, Debug, PartialEq, Eq)]
pub enum Kind {
    Account,
    Device,
    Files,
    Folder,
}

#[derive(Clone, Debug)]
pub struct SlotDef {
    pub kind: Kind,
    pub account: usize,
    pub folder: Option<VaultId>,
    pub identity: bool,
    pub name: &'static str,
}

#[derive(Clone, Debug, PartialEq, Eq)]
pub struct MRec {
    pub secs: i64,
    pub nanos: u32,
    pub commit: [u8; 32],
    pub bytes: Vec<u8>,
}

pub struct World {
    pub backend: &'static str,
    _temp: tempfile::TempDir,
    pub accounts: [AccountId; 2],
    pub targets: [BackendTarget; 2],
    pub slots: Vec<SlotDef>,
    pub logs: Vec<AnyLog>,
    pub model: Vec<Vec<MRec>>,
    pub pools: [Vec<Vec<u8>>; 4],
}

fn fixed_uuid(n: u8) -> Uuid {
    Uuid::from_bytes([n; 16])
}

fn fixed_account(n: u8) -> AccountId {
    let b = [n; 20];
    AccountId::from(b)
}

async fn build_pools() -> [Vec<Vec<u8>>; 4] {
    // deliberately small pools so byte-identical events recur
    let mut vault: Vault = Default::default();
    vault.set_name("pool-vault".to_string());
    *vault.header_mut().id_mut() = fixed_uuid(9);
    let vault_bytes = encode(&vault).await.unwrap();
    let entry = VaultCommit(
        CommitHash([7u8; 32]),
        VaultEntry(Default::default(), Default::default()),
    );
    let folder: Vec<WriteEvent> = vec![
        WriteEvent::CreateVault(vault_bytes.clone()),
        WriteEvent::SetVaultName("a".into()),
        WriteEvent::SetVaultName("b".into()),
        WriteEvent::DeleteSecret(fixed_uuid(1)),
        WriteEvent::DeleteSecret(fixed_uuid(2)),
        WriteEvent::CreateSecret(fixed_uuid(1), entry.clone()),
        WriteEvent::UpdateSecret(fixed_uuid(1), entry.clone()),
        WriteEvent::SetVaultFlags(sos_core::VaultFlags::ARCHIVE),
    ];
    let account: Vec<AccountEvent> = vec![
        AccountEvent::RenameAccount("x".into()),
        AccountEvent::RenameAccount("y".into()),
        AccountEvent::DeleteFolder(fixed_uuid(3)),
        AccountEvent::RenameFolder(fixed_uuid(3), "n".into()),
        AccountEvent::CreateFolder(fixed_uuid(3), vault_bytes.clone()),
        AccountEvent::UpdateFolder(fixed_uuid(3), vault_bytes.clone()),
        AccountEvent::CompactFolder(fixed_uuid(3), vault_bytes.clone()),
        AccountEvent::ChangeFolderPassword(fixed_uuid(3), vault_bytes.clone()),
    ];
    let k1: DevicePublicKey = [1u8; 32].into();
    let k2: DevicePublicKey = [2u8; 32].into();
    let when = OffsetDateTime::from_unix_timestamp(1_700_000_000).unwrap();
    let device: Vec<DeviceEvent> = vec![
        DeviceEvent::Revoke(k1.clone()),
        DeviceEvent::Revoke(k2.clone()),
        DeviceEvent::Trust(TrustedDevice::new(
            k1,
            Some(Default::default()),
            Some(when),
        )),
        DeviceEvent::Trust(TrustedDevice::new(
            k2,
            Some(Default::default()),
            Some(when),
        )),
    ];
    let name: ExternalFileName = [5u8; 32].into();
    let name2: ExternalFileName = [6u8; 32].into();
    let p1 = SecretPath(fixed_uuid(4), fixed_uuid(5));
    let p2 = SecretPath(fixed_uuid(4), fixed_uuid(6));
    let files: Vec<FileEvent> = vec![
        FileEvent::CreateFile(p1, name),
        FileEvent::DeleteFile(p1, name),
        FileEvent::CreateFile(p2, name2),
        FileEvent::MoveFile {
            name,
            from: p1,
            dest: p2,
        },
    ];
    let mut out: [Vec<Vec<u8>>; 4] = Default::default();
    for e in &account {
        out[0].push(encode(e).await.unwrap());
    }
    for e in &device {
        out[1].push(encode(e).await.unwrap());
    }
    for e in &files {
        out[2].push(encode(e).await.unwrap());
    }
    for e in &folder {
        out[3].push(encode(e).await.unwrap());
    }
    out
}

fn pool_ix(kind: Kind) -> usize {
    match kind {
        Kind::Account => 0,
        Kind::Device => 1,
        Kind::Files => 2,
        Kind::Folder => 3,
    }
}

fn slot_defs() -> Vec<SlotDef> {
    vec![
        SlotDef { kind: Kind::Account, account: 0, folder: None, identity: false, name: "A.account" },
        SlotDef { kind: Kind::Device, account: 0, folder: None, identity: false, name: "A.device" },
        SlotDef { kind: Kind::Files, account: 0, folder: None, identity: false, name: "A.files" },
        SlotDef { kind: Kind::Folder, account: 0, folder: Some(fixed_uuid(0x11)), identity: false, name: "A.folder1" },
        SlotDef { kind: Kind::Folder, account: 0, folder: Some(fixed_uuid(0x12)), identity: false, name: "A.folder2" },
        SlotDef { kind: Kind::Folder, account: 1, folder: Some(fixed_uuid(0x13)), identity: false, name: "B.folder3" },
        SlotDef { kind: Kind::Account, account: 1, folder: None, identity: false, name: "B.account" },
        SlotDef { kind: Kind::Folder, account: 0, folder: Some(fixed_uuid(0x14)), identity: true, name: "A.identity" },
    ]
}

type R<T> = Result<T, String>;

fn es<E: std::fmt::Display>(e: E) -> String {
    e.to_string()
}

impl World {
    pub async fn new(db: bool) -> R<World> {
        let temp = tempfile::Builder::new()
            .prefix("sv-evlog-")
            .tempdir()
            .map_err(es)?;
        let accounts = [fixed_account(0xA1), fixed_account(0xB2)];
        let slots = slot_defs();
        let base = Paths::new_client(temp.path());
        let mut targets: Vec<BackendTarget> = vec![];
        if db {
            let db_path = temp.path().join("accounts.db");
            let mut client: Client =
                sos_database::open_file(&db_path).await.map_err(es)?;
            sos_database::migrations::migrate_client(&mut client)
                .await
                .map_err(es)?;
            for (ai, id) in accounts.iter().enumerate() {
                let row = AccountRow::new_insert(id, format!("acct{ai}")).map_err(es)?;
                let mut folder_rows = vec![];
                for s in slots.iter().filter(|s| s.account == ai && s.folder.is_some()) {
                    let mut v: Vault = Default::default();
                    *v.header_mut().id_mut() = s.folder.unwrap();
                    v.set_name(s.name.to_string());
                    if s.identity {
                        v.flags_mut().set(sos_core::VaultFlags::IDENTITY, true);
                    }
                    folder_rows.push((FolderRow::new_insert(&v).await.map_err(es)?, s.identity));
                }
                client
                    .conn_mut(move |conn| {
                        let account = AccountEntity::new(&conn);
                        let account_row_id = account.insert(&row)?;
                        let folder = FolderEntity::new(&conn);
                        for (fr, identity) in &folder_rows {
                            let fid = folder.insert_folder(account_row_id, fr)?;
                            if *identity {
                                account.insert_login_folder(account_row_id, fid)?;
                            }
                        }
                        Ok(())
                    })
                    .await
                    .map_err(es)?;
            }
            for id in &accounts {
                targets.push(BackendTarget::Database(
                    base.with_account_id(id),
                    client.clone(),
                ));
            }
        } else {
            for id in &accounts {
                let p = base.with_account_id(id);
                p.ensure().await.map_err(es)?;
                std::fs::create_dir_all(p.identity_dir()).map_err(es)?;
                targets.push(BackendTarget::FileSystem(p));
            }
        }
        let targets: [BackendTarget; 2] = [targets[0].clone(), targets[1].clone()];
        let mut w = World {
            backend: if db { "sqlite" } else { "fs" },
            _temp: temp,
            accounts,
            targets,
            slots,
            logs: vec![],
            model: vec![vec![]; NUM_SLOTS],
            pools: build_pools().await,
        };
        for i in 0..NUM_SLOTS {
            let l = w.open(i).await?;
            w.logs.push(l);
        }
        Ok(w)
    }

    /// Fresh instance of the log in slot `i` (tree not loaded).
    pub async fn open(&self, i: usize) -> R<AnyLog> {
        let s = &self.slots[i];
        let target = self.targets[s.account].clone();
        let id = &self.accounts[s.account];
        Ok(match s.kind {
            Kind::Account => AnyLog::Account(
                AccountEventLog::new_account(target, id).await.map_err(es)?,
            ),
            Kind::Device => AnyLog::Device(
                DeviceEventLog::new_device(target, id).await.map_err(es)?,
            ),
            Kind::Files => AnyLog::Files(
                FileEventLog::new_file(target, id).await.map_err(es)?,
            ),
            Kind::Folder => {
                if s.identity {
                    AnyLog::Folder(
                        FolderEventLog::new_login_folder(target, id)
                            .await
                            .map_err(es)?,
                    )
                } else {
                    AnyLog::Folder(
                        FolderEventLog::new_folder(
                            target,
                            id,
                            s.folder.as_ref().unwrap(),
                        )
                        .await
                        .map_err(es)?,
                    )
                }
            }
        })
    }

    fn pool(&self, slot: usize) -> &Vec<Vec<u8>> {
        &self.pools[pool_ix(self.slots[slot].kind)]
    }

    fn ev_bytes(&self, slot: usize, ev: u8) -> Vec<u8> {
        let p = self.pool(slot);
        p[ev as usize % p.len()].clone()
    }

    fn mrec(&self, slot: usize, r: &RecSpec) -> MRec {
        let bytes = self.ev_bytes(slot, r.ev);
        MRec {
            secs: r.secs,
            nanos: r.nanos,
            commit: CommitTree::hash(&bytes),
            bytes,
        }
    }
}

pub fn to_record(m: &MRec) -> EventRecord {
    let t = OffsetDateTime::from_unix_timestamp(m.secs).unwrap()
        + time::Duration::nanoseconds(m.nanos as i64);
    EventRecord::new(
        UtcDateTime::from(t),
        Default::default(),
        CommitHash(m.commit),
        m.bytes.clone(),
    )
}

pub fn from_record(r: &EventRecord) -> MRec {
    let t: OffsetDateTime = r.time().clone().into();
    MRec {
        secs: t.unix_timestamp(),
        nanos: t.nanosecond(),
        commit: *r.commit().as_ref(),
        bytes: r.event_bytes().to_vec(),
    }
}

pub fn tree_of(commits: &[[u8; 32]]) -> CommitTree {
    let mut t = CommitTree::new();
    let mut l = commits.to_vec();
    t.append(&mut l);
    t.commit();
    t
}

fn commits(m: &[MRec]) -> Vec<[u8; 32]> {
    m.iter().map(|r| r.commit).collect()
}

fn head_of(m: &[MRec]) -> Option<CommitProof> {
    if m.is_empty() {
        None
    } else {
        tree_of(&commits(m)).head().ok()
    }
}

async fn stream_all(log: &AnyLog, reverse: bool) -> Result<Vec<MRec>, String> {
    let mut out = vec![];
    with_log!(log, l => {
        let mut s = l.record_stream(reverse).await;
        while let Some(r) = s.next().await {
            let r = r.map_err(es)?;
            out.push(from_record(&r));
        }
    });
    Ok(out)
}

fn short(c: &[u8; 32]) -> String {
    hex::encode(&c[..4])
}

fn fmt_log(m: &[MRec]) -> String {
    m.iter()
        .map(|r| format!("{}@{}.{}", short(&r.commit), r.secs, r.nanos))
        .collect::<Vec<_>>()
        .join(",")
}

/// Verify one slot against its model: in-memory tree, fresh instance,
/// forward and reverse streams, hashes.
pub async fn verify_slot(w: &World, i: usize, after: &str) -> CheckResult {
    let name = w.slots[i].name;
    let be = w.backend;
    let m = &w.model[i];
    let expect = commits(m);
    let log = &w.logs[i];
    let (leaves, root, len) = with_log!(log, l => (
        l.tree().leaves().unwrap_or_default(),
        l.tree().root(),
        l.tree().len()
    ));
    if leaves != expect {
        return Err(Failure::new(
            format!("{be}/tree-leaves-differ-from-model"),
            format!("[{be}] after {after}: in-memory tree of {name} has leaves [{}] but the model expects [{}]",
                leaves.iter().map(short).collect::<Vec<_>>().join(","),
                expect.iter().map(short).collect::<Vec<_>>().join(",")),
        ));
    }
    let mt = tree_of(&expect);
    if root != mt.root() || len != expect.len() {
        return Err(Failure::new(
            format!("{be}/tree-root-or-length"),
            format!("[{be}] after {after}: tree root/len of {name} differ from a tree rebuilt from the model"),
        ));
    }
    // fresh instance
    let mut fresh = w.open(i).await.map_err(|e| {
        Failure::new(format!("{be}/reopen-failed"), format!("[{be}] after {after}: cannot re-open {name}: {e}"))
    })?;
    let r = with_log!(&mut fresh, l => l.load_tree().await.map_err(es));
    if let Err(e) = r {
        return Err(Failure::new(
            format!("{be}/load-tree-failed"),
            format!("[{be}] after {after}: load_tree on a fresh instance of {name} failed: {e}"),
        ));
    }
    let fresh_leaves = with_log!(&fresh, l => l.tree().leaves().unwrap_or_default());
    if fresh_leaves != expect {
        return Err(Failure::new(
            format!("{be}/storage-differs-from-model"),
            format!("[{be}] after {after}: {name} re-opened from storage has leaves [{}] but the model (and memory) have [{}]",
                fresh_leaves.iter().map(short).collect::<Vec<_>>().join(","),
                expect.iter().map(short).collect::<Vec<_>>().join(",")),
        ));
    }
    // streams
    let fwd = stream_all(log, false).await.map_err(|e| {
        Failure::new(format!("{be}/stream-error"), format!("[{be}] after {after}: record_stream(false) of {name}: {e}"))
    })?;
    if &fwd != m {
        let sig = if commits(&fwd) == expect {
            // same commits, so time or bytes differ
            if fwd.iter().zip(m.iter()).any(|(a, b)| a.bytes != b.bytes) {
                "stream-bytes-differ"
            } else {
                "stream-time-differs"
            }
        } else {
            "stream-differs-from-model"
        };
        return Err(Failure::new(
            format!("{be}/{sig}"),
            format!("[{be}] after {after}: record_stream(false) of {name} = [{}] but model = [{}]", fmt_log(&fwd), fmt_log(m)),
        ));
    }
    let mut rev = stream_all(log, true).await.map_err(|e| {
        Failure::new(format!("{be}/stream-error"), format!("[{be}] after {after}: record_stream(true) of {name}: {e}"))
    })?;
    rev.reverse();
    if &rev != m {
        return Err(Failure::new(
            format!("{be}/reverse-stream-not-mirror"),
            format!("[{be}] after {after}: reversed record_stream(true) of {name} = [{}] but forward = [{}]", fmt_log(&rev), fmt_log(m)),
        ));
    }
    for r in &fwd {
        if CommitTree::hash(&r.bytes) != r.commit {
            return Err(Failure::new(
                format!("{be}/commit-not-sha256-of-bytes"),
                format!("[{be}] after {after}: a record of {name} has commit {} but SHA-256(bytes) = {}", short(&r.commit), short(&CommitTree::hash(&r.bytes))),
            ));
        }
    }
    Ok(())
}

pub async fn verify_all(w: &World, after: &str) -> CheckResult {
    for i in 0..NUM_SLOTS {
        verify_slot(w, i, after).await?;
    }
    Ok(())
}

#[derive(Default, Debug, Clone)]
pub struct ScriptStats {
    pub rewind_depth_max: usize,
    pub rewind_shared_hash: bool,
    pub clear_shared_hash: bool,
    pub refused_patch: usize,
    pub refused_replace_nonempty: usize,
    pub applied_patch: usize,
    pub reopen: usize,
    pub ops: usize,
    pub classes: Vec<String>,
}

fn hash_shared_elsewhere(w: &World, slot: usize, removed: &[MRec], kept: &[MRec]) -> bool {
    // does a removed record share its hash with a kept record of this log or any record of another log
    for r in removed {
        if kept.iter().any(|k| k.commit == r.commit) {
            return true;
        }
        for (j, m) in w.model.iter().enumerate() {
            if j != slot && m.iter().any(|k| k.commit == r.commit) {
                return true;
            }
        }
    }
    false
}

/// Apply one op to the world; returns a short result summary used for the
/// differential comparison between backends.
pub async fn apply_op(w: &mut World, op: &LogOp, stats: &mut ScriptStats) -> Result<String, Failure> {
    let be = w.backend;
    stats.ops += 1;
    match op {
        LogOp::Apply { slot, evs } => {
            let s = *slot as usize % NUM_SLOTS;
            let bytes: Vec<Vec<u8>> = evs.iter().map(|e| w.ev_bytes(s, *e)).collect();
            let before = sos_core::verif::get_clock();
            let res: Result<(), String> = with_log!(&mut w.logs[s], l => {
                async {
                    let mut typed = vec![];
                    for b in &bytes {
                        typed.push(sos_core::decode(b).await.map_err(es)?);
                    }
                    l.apply(&typed).await.map_err(es)
                }.await
            });
            if let Err(e) = res {
                return Err(Failure::new(format!("{be}/apply-error"), format!("[{be}] apply on {} failed: {e}", w.slots[s].name)));
            }
            let after = sos_core::verif::get_clock();
            // adopt the stamped times from the implementation, checking the clock window
            let got = stream_all(&w.logs[s], false).await.map_err(|e| Failure::new(format!("{be}/stream-error"), e))?;
            let n0 = w.model[s].len();
            if got.len() != n0 + bytes.len() {
                return Err(Failure::new(
                    format!("{be}/apply-length"),
                    format!("[{be}] apply of {} events on {} changed the log from {} to {} records", bytes.len(), w.slots[s].name, n0, got.len()),
                ));
            }
            for (k, b) in bytes.iter().enumerate() {
                let r = &got[n0 + k];
                if &r.bytes != b {
                    return Err(Failure::new(format!("{be}/apply-bytes"), format!("[{be}] apply stored different bytes on {}", w.slots[s].name)));
                }
                if let (Some((b0, _)), Some((b1, _))) = (before, after) {
                    let t = r.secs as i128 * 1_000_000_000 + r.nanos as i128;
                    if t < b0 || t > b1 {
                        return Err(Failure::new(
                            format!("{be}/apply-time-outside-clock-window"),
                            format!("[{be}] apply stamped {} outside the clock window [{},{}]", t, b0, b1),
                        ));
                    }
                }
                w.model[s].push(r.clone());
            }
            Ok("ok".into())
        }
        LogOp::ApplyRecords { slot, recs } | LogOp::PatchUnchecked { slot, recs } => {
            let s = *slot as usize % NUM_SLOTS;
            let m: Vec<MRec> = recs.iter().map(|r| w.mrec(s, r)).collect();
            let records: Vec<EventRecord> = m.iter().map(to_record).collect();
            let unchecked = matches!(op, LogOp::PatchUnchecked { .. });
            let res: Result<(), String> = with_log!(&mut w.logs[s], l => {
                if unchecked {
                    l.patch_unchecked(&Patch::new(records)).await.map_err(es)
                } else {
                    l.apply_records(records).await.map_err(es)
                }
            });
            if let Err(e) = res {
                return Err(Failure::new(format!("{be}/append-error"), format!("[{be}] append on {} failed: {e}", w.slots[s].name)));
            }
            w.model[s].extend(m);
            Ok("ok".into())
        }
        LogOp::PatchChecked { slot, view, recs } => {
            let s = *slot as usize % NUM_SLOTS;
            let cur = w.model[s].clone();
            let m: Vec<MRec> = recs.iter().map(|r| w.mrec(s, r)).collect();
            // the sender's view as a sequence and its proof
            let (view_seq, proof, label): (Vec<[u8; 32]>, Option<CommitProof>, &str) = match view {
                View::Matching => (commits(&cur), head_of(&cur), "matching"),
                View::Prefix(f) => {
                    if cur.len() < 2 {
                        (commits(&cur), head_of(&cur), "matching")
                    } else {
                        let k = 1 + pick(*f, cur.len() - 1);
                        (commits(&cur[..k]), head_of(&cur[..k]), "stale-prefix")
                    }
                }
                View::DifferentTail(f, tail) => {
                    let k = pick(*f, cur.len() + 1);
                    let mut v: Vec<MRec> = cur[..k].to_vec();
                    for e in tail {
                        v.push(w.mrec(s, &RecSpec { ev: *e, secs: 0, nanos: 0 }));
                    }
                    (commits(&v), head_of(&v), "diverged")
                }
                View::Foreign(o) => {
                    let o = *o as usize % NUM_SLOTS;
                    (commits(&w.model[o]), head_of(&w.model[o]), "foreign")
                }
                View::ForgedRoot(bit) => {
                    let mut p = head_of(&cur);
                    if let Some(p) = p.as_mut() {
                        p.root.0[(*bit as usize / 8) % 32] ^= 1 << (bit % 8);
                    }
                    // a forged root names no real sequence
                    (vec![[0xEEu8; 32]], p, "forged-root")
                }
                View::EditedLength(d) => {
                    let mut p = head_of(&cur);
                    if let Some(p) = p.as_mut() {
                        p.length = (p.length as i64 + *d as i64).max(0) as usize;
                    }
                    (commits(&cur), p, "edited-length")
                }
            };
            let Some(proof) = proof else {
                // no head exists for an empty view: nothing to send
                return Ok("skipped-empty-view".into());
            };
            let expect_applied = !cur.is_empty() && view_seq == commits(&cur);
            let records: Vec<EventRecord> = m.iter().map(to_record).collect();
            let res: Result<CheckedPatch, String> = with_log!(&mut w.logs[s], l => {
                l.patch_checked(&proof, &Patch::new(records)).await.map_err(es)
            });
            stats.classes.push(format!("patch-checked/{label}"));
            match res {
                Ok(CheckedPatch::Success(head)) => {
                    if !expect_applied {
                        return Err(Failure::new(
                            format!("{be}/patch-applied-on-wrong-base/{label}"),
                            format!("[{be}] patch_checked on {} applied a patch although the sender's view [{}] differs from the log [{}]",
                                w.slots[s].name,
                                view_seq.iter().map(short).collect::<Vec<_>>().join(","),
                                cur.iter().map(|r| short(&r.commit)).collect::<Vec<_>>().join(",")),
                        ));
                    }
                    w.model[s].extend(m);
                    let want = head_of(&w.model[s]);
                    if Some(&head) != want.as_ref() {
                        return Err(Failure::new(
                            format!("{be}/patch-success-wrong-head"),
                            format!("[{be}] patch_checked Success returned a head proof that is not the head of log ++ patch"),
                        ));
                    }
                    stats.applied_patch += 1;
                    Ok("success".into())
                }
                Ok(CheckedPatch::Conflict { head, contains }) => {
                    if expect_applied {
                        return Err(Failure::new(
                            format!("{be}/patch-refused-on-matching-base/{label}"),
                            format!("[{be}] patch_checked on {} answered Conflict although the proof names the current head", w.slots[s].name),
                        ));
                    }
                    if Some(&head) != head_of(&cur).as_ref() {
                        return Err(Failure::new(
                            format!("{be}/conflict-wrong-head"),
                            format!("[{be}] Conflict carries a head proof that is not the current head"),
                        ));
                    }
                    let is_prefix = view_seq.len() < cur.len() && commits(&cur[..view_seq.len()]) == view_seq && !view_seq.is_empty();
                    if contains.is_some() != is_prefix && label != "forged-root" {
                        return Err(Failure::new(
                            format!("{be}/conflict-contains-flag"),
                            format!("[{be}] Conflict.contains is_some={} but sender view is_prefix={} ({label})", contains.is_some(), is_prefix),
                        ));
                    }
                    stats.refused_patch += 1;
                    Ok(format!("conflict({})", contains.is_some()))
                }
                Err(e) => {
                    if expect_applied {
                        return Err(Failure::new(
                            format!("{be}/patch-error-on-matching-base"),
                            format!("[{be}] patch_checked failed on a matching base: {e}"),
                        ));
                    }
                    stats.refused_patch += 1;
                    Ok("err".into())
                }
            }
        }
        LogOp::Rewind { slot, target } => {
            let s = *slot as usize % NUM_SLOTS;
            let cur = w.model[s].clone();
            let (commit, expect): ([u8; 32], Option<usize>) = match target {
                RewindTarget::Absent => ([0xABu8; 32], None),
                RewindTarget::Index(f) => {
                    if cur.is_empty() {
                        ([0xABu8; 32], None)
                    } else {
                        let i = pick(*f, cur.len());
                        let c = cur[i].commit;
                        let last = cur.iter().rposition(|r| r.commit == c).unwrap();
                        (c, Some(last))
                    }
                }
            };
            let res: Result<Vec<EventRecord>, String> = with_log!(&mut w.logs[s], l => {
                l.rewind(&CommitHash(commit)).await.map_err(es)
            });
            match (res, expect) {
                (Ok(removed), Some(last)) => {
                    let want: Vec<MRec> = cur[last + 1..].to_vec();
                    let got: Vec<MRec> = removed.iter().map(from_record).collect();
                    let mut got_rev = got.clone();
                    got_rev.reverse();
                    if got == want && want.len() > 1 {
                        stats.classes.push("rewind-returned-oldest-first".into());
                    } else if got_rev == want && want.len() > 1 {
                        stats.classes.push("rewind-returned-newest-first".into());
                    }
                    if got != want && got_rev != want {
                        return Err(Failure::new(
                            format!("{be}/rewind-returned-records"),
                            format!("[{be}] rewind of {} to {} returned [{}] but the removed tail is [{}]", w.slots[s].name, short(&commit), fmt_log(&got), fmt_log(&want)),
                        ));
                    }
                    stats.rewind_depth_max = stats.rewind_depth_max.max(want.len());
                    if hash_shared_elsewhere(w, s, &want, &cur[..last + 1]) {
                        stats.rewind_shared_hash = true;
                    }
                    w.model[s].truncate(last + 1);
                    Ok(format!("rewound({})", want.len()))
                }
                (Ok(removed), None) => Err(Failure::new(
                    format!("{be}/rewind-absent-commit-succeeded"),
                    format!("[{be}] rewind of {} to a commit that is not in the log returned Ok with {} records", w.slots[s].name, removed.len()),
                )),
                (Err(e), Some(_)) => Err(Failure::new(
                    format!("{be}/rewind-error"),
                    format!("[{be}] rewind of {} to existing commit {} failed: {e}", w.slots[s].name, short(&commit)),
                )),
                (Err(_), None) => Ok("err".into()),
            }
        }
        LogOp::Clear { slot } => {
            let s = *slot as usize % NUM_SLOTS;
            let cur = w.model[s].clone();
            let res: Result<(), String> = with_log!(&mut w.logs[s], l => l.clear().await.map_err(es));
            if let Err(e) = res {
                return Err(Failure::new(format!("{be}/clear-error"), format!("[{be}] clear failed: {e}")));
            }
            if hash_shared_elsewhere(w, s, &cur, &[]) {
                stats.clear_shared_hash = true;
            }
            w.model[s].clear();
            Ok("ok".into())
        }
        LogOp::ReplaceAll { slot, recs, checkpoint } => {
            let s = *slot as usize % NUM_SLOTS;
            let cur = w.model[s].clone();
            let m: Vec<MRec> = recs.iter().map(|r| w.mrec(s, r)).collect();
            // an empty patch has no head: no checkpoint can be correct for it, every such
            // request must be refused and leave the log alone
            let correct = head_of(&m);
            let (ck, label) = match checkpoint {
                Checkpoint::Correct => match &correct {
                    Some(c) => (c.clone(), "correct"),
                    None => (CommitProof::default(), "empty-patch/default-proof"),
                },
                Checkpoint::WrongRoot(bit) => {
                    let mut p = correct.clone().unwrap_or_default();
                    p.root.0[(*bit as usize / 8) % 32] ^= 1 << (bit % 8);
                    (p, if correct.is_some() { "wrong-root" } else { "empty-patch/wrong-root" })
                }
                Checkpoint::OldHead => match head_of(&cur) {
                    Some(p) => (p, if correct.is_some() { "old-head" } else { "empty-patch/old-head" }),
                    None => (CommitProof::default(), "default-proof"),
                },
                Checkpoint::Longer(e) => {
                    let mut v = m.clone();
                    v.push(w.mrec(s, &RecSpec { ev: *e, secs: 0, nanos: 0 }));
                    (head_of(&v).unwrap(), "longer")
                }
            };
            let expect_ok = correct.as_ref() == Some(&ck);
            let records: Vec<EventRecord> = m.iter().map(to_record).collect();
            let res: Result<(), String> = with_log!(&mut w.logs[s], l => {
                let diff = Diff::new(Patch::new(records), ck, None);
                l.replace_all_events(&diff).await.map_err(es)
            });
            stats.classes.push(format!("replace-all/{label}"));
            match res {
                Ok(()) => {
                    if !expect_ok {
                        return Err(Failure::new(
                            format!("{be}/replace-all-accepted-wrong-checkpoint/{label}"),
                            format!("[{be}] replace_all_events on {} accepted a diff whose checkpoint is not the head of its patch", w.slots[s].name),
                        ));
                    }
                    w.model[s] = m;
                    Ok("ok".into())
                }
                Err(e) => {
                    if expect_ok {
                        return Err(Failure::new(
                            format!("{be}/replace-all-error"),
                            format!("[{be}] replace_all_events with a correct checkpoint failed: {e}"),
                        ));
                    }
                    if !cur.is_empty() {
                        stats.refused_replace_nonempty += 1;
                    }
                    // refused: model unchanged; verify_all decides
                    Ok("err".into())
                }
            }
        }
        LogOp::Reopen { slot } => {
            let s = *slot as usize % NUM_SLOTS;
            let mut fresh = w.open(s).await.map_err(|e| Failure::new(format!("{be}/reopen-failed"), e))?;
            let r = with_log!(&mut fresh, l => l.load_tree().await.map_err(es));
            if let Err(e) = r {
                return Err(Failure::new(format!("{be}/load-tree-failed"), format!("[{be}] load_tree on re-open of {} failed: {e}", w.slots[s].name)));
            }
            w.logs[s] = fresh;
            stats.reopen += 1;
            Ok("ok".into())
        }
        LogOp::DiffRecords { slot, target } => {
            let s = *slot as usize % NUM_SLOTS;
            let cur = w.model[s].clone();
            let (commit, expect): (Option<[u8; 32]>, Option<usize>) = match target {
                RewindTarget::Absent => (Some([0xABu8; 32]), None),
                RewindTarget::Index(f) => {
                    if cur.is_empty() || *f == 0 {
                        (None, Some(0))
                    } else {
                        let i = pick(*f, cur.len());
                        let c = cur[i].commit;
                        let last = cur.iter().rposition(|r| r.commit == c).unwrap();
                        (Some(c), Some(last + 1))
                    }
                }
            };
            let ch = commit.map(CommitHash);
            let res: Result<Vec<EventRecord>, String> = with_log!(&w.logs[s], l => {
                l.diff_records(ch.as_ref()).await.map_err(es)
            });
            match (res, expect) {
                (Ok(got), Some(from)) => {
                    let got: Vec<MRec> = got.iter().map(from_record).collect();
                    if got != cur[from..] {
                        return Err(Failure::new(
                            format!("{be}/diff-records-wrong"),
                            format!("[{be}] diff_records of {} after {:?} returned [{}], expected [{}]", w.slots[s].name, commit.map(|c| short(&c)), fmt_log(&got), fmt_log(&cur[from..])),
                        ));
                    }
                    Ok(format!("diff({})", got.len()))
                }
                (Ok(_), None) => Err(Failure::new(format!("{be}/diff-absent-commit-succeeded"), format!("[{be}] diff_records for an absent commit returned Ok"))),
                (Err(e), Some(_)) => Err(Failure::new(format!("{be}/diff-records-error"), format!("[{be}] diff_records failed: {e}"))),
                (Err(_), None) => Ok("err".into()),
            }
        }
    }
}

/// Run a script on one backend.
pub async fn run_script_on(db: bool, script: &Script) -> Result<(Vec<String>, ScriptStats), Failure> {
    let mut w = World::new(db)
        .await
        .map_err(|e| Failure::new("harness/world", e))?;
    let mut stats = ScriptStats::default();
    let mut results = vec![];
    // deterministic clock for `apply`
    sos_core::verif::set_clock(Some((1_700_000_000i128 * 1_000_000_000, 1_000_001)));
    for (i, op) in script.ops.iter().enumerate() {
        let r = apply_op(&mut w, op, &mut stats).await;
        let r = match r {
            Ok(r) => r,
            Err(f) => {
                sos_core::verif::set_clock(None);
                return Err(Failure::new(f.signature, format!("op #{i} {:?}: {}", op, f.message)));
            }
        };
        results.push(r);
        if let Err(f) = verify_all(&w, &format!("op #{i} {:?}", op)).await {
            sos_core::verif::set_clock(None);
            return Err(f);
        }
    }
    sos_core::verif::set_clock(None);
    Ok((results, stats))
}

/// Run a script on both backends in lock-step and compare answers.
pub fn check_script(script: &Script, c07_rule: bool) -> (CaseInfo, CheckResult) {
    let mut info = CaseInfo::default();
    let r = block_on(async {
        let (r_fs, s_fs) = run_script_on(false, script).await?;
        let (r_db, _s_db) = run_script_on(true, script).await?;
        for (i, (a, b)) in r_fs.iter().zip(r_db.iter()).enumerate() {
            if a != b {
                return Err(Failure::new(
                    "differential/backends-disagree",
                    format!("op #{i} {:?}: file system answered {a}, sqlite answered {b}", script.ops[i]),
                ));
            }
        }
        info.inner_evals = (s_fs.ops * 2 * NUM_SLOTS) as u64;
        if c07_rule {
            info.nontrivial = s_fs.refused_patch > 0 && (s_fs.rewind_depth_max >= 2 || s_fs.refused_replace_nonempty > 0)
                || s_fs.refused_replace_nonempty > 0;
        } else {
            info.nontrivial = s_fs.rewind_depth_max >= 2 || s_fs.rewind_shared_hash || s_fs.clear_shared_hash;
        }
        if s_fs.rewind_shared_hash {
            info.class("rewind-with-shared-hash");
        }
        if s_fs.clear_shared_hash {
            info.class("clear-with-shared-hash");
        }
        if s_fs.rewind_depth_max >= 2 {
            info.class("rewind-depth>=2");
        }
        if s_fs.reopen > 0 {
            info.class("reopen");
        }
        if s_fs.refused_patch > 0 {
            info.class("refused-patch");
        }
        if s_fs.applied_patch > 0 {
            info.class("applied-checked-patch");
        }
        if s_fs.refused_replace_nonempty > 0 {
            info.class("refused-replace-all-nonempty");
        }
        let mut cl = s_fs.classes.clone();
        cl.sort();
        cl.dedup();
        for c in cl {
            info.class(c);
        }
        Ok(())
    });
    (info, r)
}

// ---------------------------------------------------------------------------
// Generators
// ---------------------------------------------------------------------------

fn rec_strategy() -> impl Strategy<Value = RecSpec> {
    (
        0u8..8,
        prop_oneof![
            6 => 1_000_000_000i64..2_000_000_000i64,
            2 => Just(1_700_000_000i64),
            1 => 31_536_000i64..7_258_118_400i64, // 1971 .. 2200
        ],
        prop_oneof![Just(0u32), Just(1u32), Just(999_999_999u32), 0u32..1_000_000_000u32],
    )
        .prop_map(|(ev, secs, nanos)| RecSpec { ev, secs, nanos })
}

fn recs(max: usize) -> impl Strategy<Value = Vec<RecSpec>> {
    proptest::collection::vec(rec_strategy(), 0..max)
}

fn slot_strategy() -> impl Strategy<Value = u8> {
    // bias towards the folder logs which share a table / directory
    prop_oneof![
        3 => Just(3u8), 3 => Just(4u8), 2 => Just(5u8), 1 => Just(7u8),
        1 => Just(0u8), 1 => Just(1u8), 1 => Just(2u8), 1 => Just(6u8),
    ]
}

fn view_strategy() -> impl Strategy<Value = View> {
    prop_oneof![
        4 => Just(View::Matching),
        3 => any::<u16>().prop_map(View::Prefix),
        3 => (any::<u16>(), proptest::collection::vec(0u8..8, 1..3)).prop_map(|(f, t)| View::DifferentTail(f, t)),
        2 => (0u8..8).prop_map(View::Foreign),
        1 => any::<u8>().prop_map(View::ForgedRoot),
        1 => (-2i8..3).prop_map(View::EditedLength),
    ]
}

fn target_strategy() -> impl Strategy<Value = RewindTarget> {
    prop_oneof![
        8 => any::<u16>().prop_map(RewindTarget::Index),
        1 => Just(RewindTarget::Absent),
    ]
}

fn checkpoint_strategy() -> impl Strategy<Value = Checkpoint> {
    prop_oneof![
        3 => Just(Checkpoint::Correct),
        2 => any::<u8>().prop_map(Checkpoint::WrongRoot),
        2 => Just(Checkpoint::OldHead),
        1 => (0u8..8).prop_map(Checkpoint::Longer),
    ]
}

pub fn op_strategy(c07: bool) -> impl Strategy<Value = LogOp> {
    let (w_append, w_patch, w_rewind, w_replace) = if c07 { (6, 8, 2, 5) } else { (8, 3, 5, 2) };
    prop_oneof![
        w_append => (slot_strategy(), proptest::collection::vec(0u8..8, 1..4)).prop_map(|(slot, evs)| LogOp::Apply { slot, evs }),
        w_append => (slot_strategy(), recs(5)).prop_map(|(slot, recs)| LogOp::ApplyRecords { slot, recs }),
        w_patch => (slot_strategy(), view_strategy(), recs(5)).prop_map(|(slot, view, recs)| LogOp::PatchChecked { slot, view, recs }),
        2 => (slot_strategy(), recs(4)).prop_map(|(slot, recs)| LogOp::PatchUnchecked { slot, recs }),
        w_rewind => (slot_strategy(), target_strategy()).prop_map(|(slot, target)| LogOp::Rewind { slot, target }),
        1 => slot_strategy().prop_map(|slot| LogOp::Clear { slot }),
        w_replace => (slot_strategy(), recs(6), checkpoint_strategy()).prop_map(|(slot, recs, checkpoint)| LogOp::ReplaceAll { slot, recs, checkpoint }),
        2 => slot_strategy().prop_map(|slot| LogOp::Reopen { slot }),
        2 => (slot_strategy(), target_strategy()).prop_map(|(slot, target)| LogOp::DiffRecords { slot, target }),
    ]
}

pub fn script_strategy(c07: bool, max_ops: usize) -> impl Strategy<Value = Script> {
    proptest::collection::vec(op_strategy(c07), 1..max_ops).prop_map(|ops| Script { ops })
}

#[allow(dead_code)]
fn _arc_unused(_: Arc<()>) {}
