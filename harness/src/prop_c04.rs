//! C04 — devices and server converge once edits stop and everyone syncs.
//! C05 — merging never loses, duplicates or resurrects committed edits
//! (shares the case runner; see `prop_c05.rs`).
use crate::engine_acct::AcctCfg;
use crate::engine_sync::*;
use crate::engine_sync::Rec;
use crate::framework::*;
use proptest::prelude::*;
use serde::{Deserialize, Serialize};
use serde_json::Value;
use sos_protocol::AsConflict;
use std::collections::{BTreeMap, BTreeSet};

pub const META: PropertyMeta = PropertyMeta {
    id: "C04",
    level: "exploration",
    rule: "proptest-generated cases: a pre-history (0..4 edits) on device 0 synced to an in-process server storage through the wire-encoding direct client, 2..3 devices cloned from it with per-device virtual clock skew in {0, +-1 ms, +-1 h} (event timestamps come from the clock hook, so ties and skew are exact), per-device offline edit lists of length 0..6 (secret create/update/delete on shared slots, folder rename to names from a 2-word pool / description / flags / create / delete, account rename, device trust/revoke, synthetic file events: byte-identical events on several devices are frequent), a generated initial sync order and then round-robin passes until a full pass changes no status (fixpoint) or 6 passes. The real sos_remote_sync AutoMerge::execute_sync runs on every device. Oracle: (a) every sync that returns Ok leaves that device's sync_status equal to the server's at that instant, log by log (root and length); (b) a fixpoint is reached within 6 passes and at the fixpoint all devices and the server have equal statuses and all devices serve equal decrypted folders, unless a device's sync keeps reporting an explicit conflict (classified, not a violation). Sub-check convergence-rewrites: the same cases with moves of a secret between folders, compact_folder and change_folder_password in the edit mix (pre-history and offline edits); every device snapshot also reads every secret through the account API (the key held by the folder's access point), not only by decrypting the vault with the folder password from the identity folder. Sub-check convergence-long-suffix: two devices, one of them 34..43 folder edits ahead of the other (which has 1..2 edits of its own), so that the common ancestor lies beyond the first 32-proof page of the ancestor scan. Non-trivial = at least two devices edited the same log offline (the request trace shows a scan). Distinct = distinct case.",
    assumptions: &[
        "interleaving is sequential here (one sync call at a time); concurrent syncs are C09",
        "history rewrites (compaction, password change) are excluded from the offline edits, as in the statement of C05; C12 covers them",
        "devices are clones of one data directory (same device signing key); device identity plays no role in the direct client",
        "a sync that keeps failing with an explicit conflict error is counted as 'reported conflict', not as a convergence violation; any other persistent error is a violation",
    ],
};

pub fn def() -> PropertyDef {
    PropertyDef {
        meta: META,
        shards: |_| 16,
        run,
        replay,
        timeout_s: |t| t.pick(2400, 6 * 3600),
    }
}

#[derive(Clone, Debug, Serialize, Deserialize, PartialEq, Eq, Hash)]
pub struct ConvCase {
    pub cfg: AcctCfg,
    pub server_db: bool,
    pub pre: Vec<Edit>,
    /// clock skew choice per extra device
    pub skews: Vec<u8>,
    /// offline edits per device (device 0 first)
    pub offline: Vec<Vec<Edit>>,
    pub order: Vec<u8>,
}

pub const SKEWS: [i128; 5] = [0, 1_000_000, -1_000_000, 3_600_000_000_000, -3_600_000_000_000];

#[derive(Default, Debug)]
pub struct ConvOutcome {
    pub scans: usize,
    pub passes: usize,
    pub converged: bool,
    pub reported_conflict: bool,
    pub classes: BTreeSet<String>,
    /// per log: ancestor length
    pub ancestor_len: BTreeMap<String, usize>,
    /// per device: logs after the offline phase
    pub offline_logs: Vec<BTreeMap<String, Vec<Rec>>>,
    /// converged logs (device 0) when converged
    pub final_logs: BTreeMap<String, Vec<Rec>>,
    pub edits_applied: usize,
    /// a tolerated known-finding failure, reported when nothing else fails
    pub deferred: Option<Failure>,
    pub excluded: Vec<String>,
    /// some device log of the case holds one commit hash at two positions
    pub has_repeats: bool,
}

/// Which known findings are listed (tolerate) and whether to avoid their shapes.
#[derive(Clone, Copy, Debug, Default)]
pub struct Tolerate {
    pub device_log: bool,
    pub repeated_head: bool,
    pub new_folder: bool,
    pub avoid: bool,
}

pub const K_DEVICE: &str = "c04/sync-ok-but-differs/device-log-diverged";
pub const K_REPEAT: &str = "c04/diverged/event-hash-repeats-within-a-log";
pub const K_NEWFOLDER: &str = "c04/sync-ok-but-differs/resolved-by-later-sync";
pub const K_REKEY: &str = "c04/folder-undecryptable/concurrent-rewrite-and-password-change";

pub const K_DELREWRITE: &str = "c04/folder-set-differs/concurrent-delete-and-rewrite";

/// One device deleted a folder offline while another device rewrote a folder (password change
/// or compaction) offline.
pub fn concurrent_delete_and_rewrite(c: &ConvCase) -> bool {
    let del = |o: &Vec<Edit>| o.iter().any(|e| matches!(e, Edit::DeleteFolder { .. }));
    let rewrite = |o: &Vec<Edit>| o.iter().any(|e| matches!(e, Edit::ChangeFolderPassword { .. } | Edit::CompactFolder { .. }));
    (0..c.offline.len()).any(|i| del(&c.offline[i]) && (0..c.offline.len()).any(|j| j != i && rewrite(&c.offline[j])))
}

/// One device changed a folder password offline while another device rewrote a folder log
/// (compaction or another password change) offline.
pub fn concurrent_rekey(c: &ConvCase) -> bool {
    let rekey = |o: &Vec<Edit>| o.iter().any(|e| matches!(e, Edit::ChangeFolderPassword { .. }));
    let rewrite = |o: &Vec<Edit>| o.iter().any(|e| matches!(e, Edit::ChangeFolderPassword { .. } | Edit::CompactFolder { .. }));
    (0..c.offline.len()).any(|i| rekey(&c.offline[i]) && (0..c.offline.len()).any(|j| j != i && rewrite(&c.offline[j])))
}

pub fn tolerate_for(shard: &Shard, case_hash: u64) -> Tolerate {
    if shard.strict {
        return Tolerate::default();
    }
    Tolerate {
        device_log: shard.has_known(K_DEVICE),
        repeated_head: shard.has_known(K_REPEAT),
        new_folder: shard.has_known(K_NEWFOLDER),
        avoid: case_hash % 10 != 0,
    }
}

fn errkind(e: &sos_net::Error) -> String {
    let s = e.to_string();
    // drop quoted values (commit hashes, ids) so that the class is stable
    let mut t = String::new();
    let mut in_quote = false;
    for ch in s.chars() {
        if ch == '\'' || ch == '"' {
            in_quote = !in_quote;
            continue;
        }
        if !in_quote && !ch.is_ascii_digit() {
            t.push(ch);
        }
    }
    let s = t;
    s.split_whitespace().take(6).collect::<Vec<_>>().join("-").chars().take(60).collect()
}

/// Runs a convergence case; `Err` is a C04 violation, the outcome carries what C05 needs.
pub async fn run_conv_case(c: &ConvCase, tol: Tolerate) -> (ConvOutcome, CheckResult) {
    let mut out = ConvOutcome::default();
    let mut r = run_conv_inner(c, &mut out, tol).await;
    sos_core::verif::set_clock(None);
    // hash-addressed logs misbehave in many ways once a hash repeats within a log:
    // attribute convergence failures of such cases to that root cause
    if out.has_repeats {
        if let Err(f) = &r {
            if f.signature.starts_with("c04/") && f.signature != K_DEVICE && f.signature != K_NEWFOLDER && f.signature != K_REPEAT {
                let f2 = Failure::new(K_REPEAT, format!("[{}] {}", f.signature, f.message));
                r = if tol.repeated_head { out.deferred = Some(f2); Ok(()) } else { Err(f2) };
            }
        }
    }
    // the folder key lives in the identity log, the folder content in the folder log; the two
    // are merged independently, so concurrent rewrites of one folder can pair the key of one
    // device with the log of the other
    if let Err(f) = &r {
        if f.signature == "sync/served-folder-undecryptable" && concurrent_rekey(c) {
            r = Err(Failure::new(K_REKEY, f.message.clone()));
        }
    }
    // a folder deleted on one device while another device rewrites it (password change or
    // compaction travel as account events that carry the whole folder and re-create it): the
    // replicas apply delete and re-creation in different orders
    if let Err(f) = &r {
        let diverged = f.signature.starts_with("c04/fixpoint-success-but-diverged") || f.signature.starts_with("c04/stuck-with-error") || f.signature.starts_with("c04/no-fixpoint");
        if diverged && concurrent_delete_and_rewrite(c) {
            r = Err(Failure::new(K_DELREWRITE, format!("[{}] {}", f.signature, f.message)));
        }
    }
    if r.is_ok() {
        if let Some(f) = out.deferred.take() {
            r = Err(f);
        }
    }
    (out, r)
}

struct Stop;

pub fn has_repeated_hash(l: &[Rec]) -> bool {
    let mut seen = BTreeSet::new();
    l.iter().any(|r| !seen.insert(r.commit))
}

async fn run_conv_inner(c: &ConvCase, out: &mut ConvOutcome, tol: Tolerate) -> CheckResult {
    let mut w = SyncWorld::new(&c.cfg, c.server_db).await?;
    // pre-history: always two secrets so that shared slots exist
    let mut pre = vec![
        Edit::CreateSecret { folder: 0, label: "one".into(), text: "1".into() },
        Edit::CreateSecret { folder: 0, label: "two".into(), text: "2".into() },
    ];
    pre.extend(c.pre.iter().cloned());
    for e in &pre {
        apply_edit(&mut w, 0, e).await?;
    }
    // create the account on the server and make sure device 0 is in sync
    for _ in 0..2 {
        w.sync(0).await.map_err(|e| Failure::new("harness/initial-sync", format!("initial sync failed: {e}")))?;
    }
    let s0 = w.device_status(0).await?;
    let ss = w.server_status().await?.ok_or_else(|| Failure::new("harness/no-server-account", "server has no account after create"))?;
    let d = status_diff(&s0, &ss);
    if !d.is_empty() {
        return Err(Failure::new("c04/initial-sync-differs", format!("after creating the account on the server the statuses differ: {:?}", d)));
    }
    let ndev = c.offline.len().clamp(2, 3);
    for i in 1..ndev {
        let skew = SKEWS[(c.skews.get(i - 1).copied().unwrap_or(0) % 5) as usize];
        w.clone_device(skew).await?;
        if skew != 0 {
            out.classes.insert(if skew.abs() > 1_000_000_000 { "skew-1h".into() } else { "skew-1ms".into() });
        }
    }
    if ndev == 3 {
        out.classes.insert("3-devices".into());
    }
    // ancestor
    {
        let a = w.devices[0].account.lock().await;
        let logs = all_logs(&*a).await?;
        for (k, v) in &logs {
            out.ancestor_len.insert(k.clone(), v.len());
        }
    }
    // offline edits
    let mut edited_logs: Vec<BTreeSet<&'static str>> = vec![BTreeSet::new(); ndev];
    for d in 0..ndev {
        for e in c.offline.get(d).cloned().unwrap_or_default() {
            if tol.device_log && tol.avoid && d > 0 && e.log_class() == "device" {
                out.excluded.push("device-log-edited-on-two-devices".into());
                continue;
            }
            if apply_edit(&mut w, d, &e).await? {
                out.edits_applied += 1;
                edited_logs[d].insert(e.log_class());
            }
        }
    }
    let lens: BTreeSet<usize> = (0..ndev).map(|d| c.offline.get(d).map(|v| v.len()).unwrap_or(0)).collect();
    if lens.len() > 1 {
        out.classes.insert("unequal-lengths".into());
    }
    for d in 0..ndev {
        for e in &edited_logs[d] {
            if (0..ndev).any(|o| o != d && edited_logs[o].contains(e)) {
                out.classes.insert(format!("both-edited/{e}"));
            }
        }
    }
    for d in 0..ndev {
        let a = w.devices[d].account.lock().await;
        out.offline_logs.push(all_logs(&*a).await?);
    }
    out.has_repeats = out.offline_logs.iter().any(|m| m.values().any(|l| has_repeated_hash(l)));
    if tol.repeated_head && tol.avoid {
        for d in 0..ndev {
            for (name, l) in &out.offline_logs[d] {
                let anc = out.ancestor_len.get(name).copied().unwrap_or(0);
                for (i, r) in l.iter().enumerate().skip(anc) {
                    if l[..i].iter().any(|p| p.commit == r.commit) {
                        out.excluded.push("event-repeated-within-one-device-log".into());
                        return Ok(());
                    }
                }
            }
        }
    }
    if tol.repeated_head && tol.avoid {
        // the same byte-identical event made independently on two devices
        for name in out.ancestor_len.keys() {
            let anc = out.ancestor_len[name];
            let mut seen: BTreeSet<[u8; 32]> = BTreeSet::new();
            for d in 0..ndev {
                if let Some(l) = out.offline_logs[d].get(name) {
                    let own: BTreeSet<[u8; 32]> = l.iter().skip(anc).map(|r| r.commit).collect();
                    if own.iter().any(|c| seen.contains(c)) {
                        out.excluded.push("identical-event-on-two-devices".into());
                        return Ok(());
                    }
                    seen.extend(own);
                }
            }
        }
    }
    // identical tail events on two devices
    for (name, anc) in &out.ancestor_len {
        let mut seen: BTreeMap<[u8; 32], usize> = BTreeMap::new();
        for d in 0..ndev {
            if let Some(l) = out.offline_logs[d].get(name) {
                let own: BTreeSet<[u8; 32]> = l.iter().skip(*anc).map(|r| r.commit).collect();
                for c in own {
                    *seen.entry(c).or_default() += 1;
                }
            }
        }
        if seen.values().any(|n| *n > 1) {
            out.classes.insert("identical-events-on-two-devices".into());
        }
    }

    let order: Vec<usize> = c.order.iter().map(|x| (*x as usize) % ndev).collect();
    converge(&mut w, ndev, &order, out, tol).await
}

/// Sync in the given order, then round-robin to a fixpoint, and judge the fixpoint
/// (oracles (a) and (b) of C04). Also used by C09 after an interleaved round.
pub async fn converge(w: &mut SyncWorld, ndev: usize, order: &[usize], out: &mut ConvOutcome, tol: Tolerate) -> CheckResult {
    let mut last_err: Vec<Option<(bool, String)>> = vec![None; ndev];
    for d in order.iter().copied() {
        if do_sync(w, d, &mut last_err, out, tol).await?.is_some() {
            return Ok(());
        }
    }
    let mut converged = false;
    for pass in 0..6 {
        out.passes = pass + 1;
        let before = statuses(w, ndev).await?;
        for d in 0..ndev {
            if do_sync(w, d, &mut last_err, out, tol).await?.is_some() {
                return Ok(());
            }
        }
        let after = statuses(w, ndev).await?;
        if before == after {
            converged = true;
            break;
        }
    }
    out.scans = w.tap.trace.lock().unwrap().iter().filter(|t| t.request == "scan").count();
    if !converged {
        return Err(Failure::new(
            "c04/no-fixpoint-in-6-passes",
            format!("statuses still change after 6 round-robin passes of {} devices", ndev),
        ));
    }
    // at the fixpoint everything must be equal
    let server = w.server_status().await?.unwrap();
    let mut differing = vec![];
    for d in 0..ndev {
        let s = w.device_status(d).await?;
        let diff = status_diff(&s, &server);
        if !diff.is_empty() {
            differing.push((d, diff));
        }
    }
    if !differing.is_empty() {
        // is a conflict being reported by the devices that differ
        let mut kinds = vec![];
        let mut all_conflicts = true;
        for (d, _) in &differing {
            match &last_err[*d] {
                Some((true, k)) => kinds.push(format!("device {d}: conflict {k}")),
                Some((false, k)) => {
                    all_conflicts = false;
                    kinds.push(format!("device {d}: error {k}"));
                }
                None => {
                    all_conflicts = false;
                    kinds.push(format!("device {d}: last sync Ok"));
                }
            }
        }
        if all_conflicts {
            out.reported_conflict = true;
            out.classes.insert("unconverged-with-reported-conflict".into());
            return Ok(());
        }
        // root cause: a differing log with a repeated commit hash
        let mut repeated = false;
        {
            let remote = {
                let sv = w.server.read().await;
                all_logs(sv.storage.as_ref().unwrap()).await?
            };
            for (d, _) in &differing {
                let local = {
                    let a = w.devices[*d].account.lock().await;
                    all_logs(&*a).await?
                };
                for (k, l) in &local {
                    if remote.get(k).map(|r| r != l).unwrap_or(true) {
                        if has_repeated_hash(l) || remote.get(k).map(|r| has_repeated_hash(r)).unwrap_or(false) {
                            repeated = true;
                        }
                    }
                }
            }
        }
        if repeated {
            let f = Failure::new(K_REPEAT, format!("fixpoint reached after {} passes but replicas differ from the server: {:?}; {}", out.passes, differing, kinds.join("; ")));
            if tol.repeated_head {
                out.deferred = Some(f);
                return Ok(());
            }
            return Err(f);
        }
        let any_ok = differing.iter().any(|(d, _)| last_err[*d].is_none());
        let only_folder_set = differing.iter().all(|(_, diff)| diff.iter().all(|x| x.contains("only-right") || x.contains("only-left")));
        let sig = if any_ok && only_folder_set {
            // a folder exists on one side only although the account logs agree
            "c04/fixpoint-success-but-diverged/folder-set".to_string()
        } else if any_ok {
            "c04/fixpoint-success-but-diverged".to_string()
        } else {
            let k = differing.iter().filter_map(|(d, _)| last_err[*d].as_ref().map(|x| x.1.clone())).next().unwrap_or_default();
            format!("c04/stuck-with-error/{k}")
        };
        return Err(Failure::new(
            sig,
            format!("fixpoint reached after {} passes but replicas differ from the server: {:?}; {}", out.passes, differing, kinds.join("; ")),
        ));
    }
    // equal decrypted folders
    let mut snaps = vec![];
    for d in 0..ndev {
        let a = w.devices[d].account.lock().await;
        snaps.push(device_snapshot(&*a).await?);
    }
    for d in 1..ndev {
        if snaps[d] != snaps[0] {
            return Err(Failure::new(
                "c04/equal-status-but-folders-differ",
                format!("devices 0 and {d} report equal sync statuses but serve different decrypted folders"),
            ));
        }
    }
    out.converged = true;
    {
        let a = w.devices[0].account.lock().await;
        out.final_logs = all_logs(&*a).await?;
    }
    Ok(())
}

async fn statuses(w: &SyncWorld, ndev: usize) -> Result<Vec<String>, Failure> {
    let mut v = vec![];
    for d in 0..ndev {
        v.push(format!("{}", w.device_status(d).await?.root));
    }
    v.push(format!("{}", w.server_status().await?.map(|s| s.root.to_string()).unwrap_or_default()));
    Ok(v)
}

/// Returns Some(Stop) when a tolerated known finding makes further exploration pointless.
async fn do_sync(w: &mut SyncWorld, d: usize, last_err: &mut Vec<Option<(bool, String)>>, out: &mut ConvOutcome, tol: Tolerate) -> Result<Option<Stop>, Failure> {
    let server_folders_before: BTreeSet<String> = match w.server_status().await? {
        Some(s) => s.folders.keys().map(|k| k.to_string()).collect(),
        None => BTreeSet::new(),
    };
    let device_folders_before: BTreeSet<String> = w.device_status(d).await?.folders.keys().map(|k| k.to_string()).collect();
    match w.sync(d).await {
        Ok(_) => {
            last_err[d] = None;
            // safety: success means equal to the server right now
            let s = w.device_status(d).await?;
            let server = w.server_status().await?.unwrap();
            let diff = status_diff(&s, &server);
            if !diff.is_empty() {
                // classify the root cause
                let local = {
                    let a = w.devices[d].account.lock().await;
                    all_logs(&*a).await?
                };
                let remote = {
                    let sv = w.server.read().await;
                    all_logs(sv.storage.as_ref().unwrap()).await?
                };
                let mut differing: Vec<String> = vec![];
                for (k, l) in &local {
                    if remote.get(k).map(|r| r != l).unwrap_or(true) {
                        differing.push(k.clone());
                    }
                }
                let only_new_folders = !differing.is_empty()
                    && differing.iter().all(|k| k.strip_prefix("folder:").map(|id| !server_folders_before.contains(id) || !device_folders_before.contains(id)).unwrap_or(false));
                // a differing log holds the same commit hash at two positions (a byte-identical
                // event appended again): diff / rewind / scan address events by hash
                let repeated = differing.iter().any(|k| {
                    [local.get(k), remote.get(k)].into_iter().flatten().any(|l| has_repeated_hash(l))
                });
                let device_diverged = differing.iter().any(|k| k == "device") && {
                    let (l, r) = (&local["device"], &remote["device"]);
                    let n = l.len().min(r.len());
                    l[..n] != r[..n]
                };
                let _ = only_new_folders;
                let f = |sig: &str| Failure::new(
                    sig.to_string(),
                    format!("execute_sync of device {d} returned Ok but its status differs from the server's: {:?} (logs that differ: {:?})", diff, differing),
                );
                if repeated || device_diverged {
                    // permanent divergence with an identified root cause
                    let (sig, tolerated) = if repeated { (K_REPEAT, tol.repeated_head) } else { (K_DEVICE, tol.device_log) };
                    if tolerated {
                        out.deferred = Some(f(sig));
                        return Ok(Some(Stop));
                    }
                    return Err(f(sig));
                }
                // otherwise: report it if nothing worse happens; whether it is transient
                // is decided at the fixpoint (a permanent difference is a different violation)
                if out.deferred.is_none() {
                    out.deferred = Some(f(K_NEWFOLDER));
                }
            }
        }
        Err(e) => {
            let conflict = e.is_conflict();
            let k = errkind(&e);
            out.classes.insert(format!("sync-error/{}{}", if conflict { "conflict:" } else { "" }, k));
            last_err[d] = Some((conflict, k));
        }
    }
    Ok(None)
}

// ---------------------------------------------------------------------------
// Generators
// ---------------------------------------------------------------------------

fn word() -> impl Strategy<Value = String> {
    prop_oneof![Just("x".to_string()), Just("y".to_string())]
}

pub fn edit_strategy() -> impl Strategy<Value = Edit> {
    prop_oneof![
        6 => (any::<u16>(), word(), "[a-z]{1,6}").prop_map(|(folder, label, text)| Edit::CreateSecret { folder, label, text }),
        6 => (prop_oneof![Just(0u16), Just(40000u16), any::<u16>()], word(), "[a-z]{1,6}").prop_map(|(sec, label, text)| Edit::UpdateSecret { sec, label, text }),
        5 => prop_oneof![Just(0u16), Just(40000u16), any::<u16>()].prop_map(|sec| Edit::DeleteSecret { sec }),
        3 => (any::<u16>(), word()).prop_map(|(folder, name)| Edit::RenameFolder { folder, name }),
        2 => (any::<u16>(), word()).prop_map(|(folder, text)| Edit::SetDescription { folder, text }),
        1 => (any::<u16>(), 0u8..4).prop_map(|(folder, flags)| Edit::SetFlags { folder, flags }),
        1 => word().prop_map(|name| Edit::CreateFolder { name }),
        1 => any::<u16>().prop_map(|folder| Edit::DeleteFolder { folder }),
        2 => word().prop_map(|name| Edit::RenameAccount { name }),
        2 => (0u8..3).prop_map(|key| Edit::TrustDevice { key }),
        1 => (0u8..3).prop_map(|key| Edit::RevokeDevice { key }),
        2 => (0u8..2, 0u8..3).prop_map(|(kind, n)| Edit::FileEvent { kind, n }),
    ]
}

/// The plain edit mix plus moves between folders and the two log rewrites (compaction,
/// folder password change).
pub fn edit_strategy_rewrites() -> impl Strategy<Value = Edit> {
    prop_oneof![
        12 => edit_strategy(),
        2 => (prop_oneof![Just(0u16), any::<u16>()], any::<u16>()).prop_map(|(sec, folder)| Edit::MoveSecret { sec, folder }),
        1 => any::<u16>().prop_map(|folder| Edit::CompactFolder { folder }),
        1 => (any::<u16>(), word()).prop_map(|(folder, word)| Edit::ChangeFolderPassword { folder, word }),
    ]
}

pub fn case_strategy(max_offline: usize) -> impl Strategy<Value = ConvCase> {
    case_strategy_with(max_offline, edit_strategy().boxed())
}

pub fn case_strategy_with(max_offline: usize, edits: BoxedStrategy<Edit>) -> impl Strategy<Value = ConvCase> {
    (
        crate::engine_acct::cfg_strategy(),
        any::<bool>(),
        proptest::collection::vec(edits.clone(), 0..4),
        proptest::collection::vec(0u8..5, 2),
        prop_oneof![3 => Just(2usize), 1 => Just(3usize)],
        proptest::collection::vec(proptest::collection::vec(edits, 0..max_offline), 3),
        proptest::collection::vec(0u8..3, 0..4),
    )
        .prop_map(|(cfg, server_db, pre, skews, ndev, mut offline, order)| {
            offline.truncate(ndev);
            ConvCase { cfg, server_db, pre, skews, offline, order }
        })
}

pub fn check_c04(c: &ConvCase, tol: Tolerate) -> (CaseInfo, CheckResult) {
    let mut info = CaseInfo::default();
    let (out, r) = block_on(run_conv_case(c, tol));
    fill_info(&mut info, c, &out);
    (info, r)
}

pub fn fill_info(info: &mut CaseInfo, c: &ConvCase, out: &ConvOutcome) {
    info.nontrivial = out.scans > 0;
    info.inner_evals = out.passes as u64;
    info.class(format!("{}{}", c.cfg.label(), if c.server_db { "/server-sqlite" } else { "/server-fs" }));
    for cl in &out.classes {
        info.class(cl.clone());
    }
    info.excluded.extend(out.excluded.iter().cloned());
    if out.scans > 0 {
        info.class("soft-conflict-scan");
    }
    if out.converged {
        info.class("converged");
    }
}

fn run(shard: &Shard, rep: &mut Report) {
    let t = shard.tier;
    drive(shard, rep, "convergence", shard.share(t.pick(300, 5_000)), case_strategy(7), |c| check_c04(c, tolerate_for(shard, hash_of(c))));
    // one device far ahead: the common ancestor lies beyond the first page of the ancestor scan
    let long = (case_strategy(3), proptest::collection::vec(edit_strategy(), 33..44), any::<bool>()).prop_map(|(mut c, many, first)| {
        c.offline.truncate(2);
        while c.offline.len() < 2 {
            c.offline.push(vec![]);
        }
        let busy = if first { 0 } else { 1 };
        // the far-ahead device edits folders only (every log type pages the same way; folder logs are the common case)
        c.offline[busy] = many.into_iter().filter(|e| matches!(e.log_class(), "folder" | "folder+account")).collect();
        while c.offline[busy].len() < 34 {
            let n = c.offline[busy].len();
            c.offline[busy].push(Edit::CreateSecret { folder: 0, label: if n % 2 == 0 { "x".into() } else { "y".into() }, text: format!("t{n}") });
        }
        if !c.offline[1 - busy].iter().any(|e| e.log_class() == "folder") {
            c.offline[1 - busy].push(Edit::UpdateSecret { sec: 0, label: "x".into(), text: "other".into() });
        }
        c
    });
    drive(shard, rep, "convergence-long-suffix", shard.share(t.pick(32, 400)), long, |c| {
        let (mut info, r) = check_c04(c, tolerate_for(shard, hash_of(c)));
        info.class("one-device-33+-edits-ahead");
        (info, r)
    });
    drive(shard, rep, "convergence-rewrites", shard.share(t.pick(200, 4_000)), case_strategy_with(6, edit_strategy_rewrites().boxed()), |c| {
        let (mut info, r) = check_c04(c, tolerate_for(shard, hash_of(c)));
        for e in c.pre.iter().chain(c.offline.iter().flatten()) {
            match e {
                Edit::MoveSecret { .. } => info.class("edit/move-secret"),
                Edit::CompactFolder { .. } => info.class("edit/compact-folder"),
                Edit::ChangeFolderPassword { .. } => info.class("edit/change-folder-password"),
                _ => {}
            }
        }
        (info, r)
    });
}

fn replay(_shard: &Shard, _sub: &str, case: &Value) -> CheckResult {
    let c: ConvCase = from_case(case).map_err(|e| Failure::new("harness", e))?;
    check_c04(&c, Tolerate::default()).1
}
