//! Property-based verification harness for saveoursecrets/sdk.
pub mod framework;
pub mod secrets;
pub mod engine_acct;
pub mod engine_evlog;
pub mod engine_http;
pub mod engine_sync;
pub mod prop_c01;
pub mod prop_c02;
pub mod prop_c06;
pub mod prop_c07;
pub mod prop_c08;
pub mod prop_c08_scan;
pub mod prop_c10;
pub mod prop_c11;
pub mod prop_c12;
pub mod prop_c19;

use framework::PropertyDef;

pub fn registry() -> Vec<PropertyDef> {
    vec![
        prop_c01::def(),
        prop_c02::def(),
        prop_c06::def(),
        prop_c07::def(),
        prop_c08::def(),
        prop_c10::def(),
        prop_c11::def(),
        prop_c12::def(),
        prop_c19::def(),
    ]
}

/// Internal process sub-modes used by engines (crash children, decoder workers).
pub fn internal_mode(mode: &str, _args: &[String]) -> i32 {
    eprintln!("unknown mode {mode}");
    2
}
