//! Property-based verification harness for saveoursecrets/sdk.
pub mod framework;
pub mod secrets;
pub mod alloc_count;
pub mod engine_codec;
pub mod engine_acct;
pub mod engine_evlog;
pub mod engine_files;
pub mod engine_http;
pub mod engine_scan;
pub mod engine_sync;
pub mod prop_c01;
pub mod prop_c02;
pub mod prop_c03;
pub mod prop_c04;
pub mod prop_c05;
pub mod prop_c06;
pub mod prop_c07;
pub mod prop_c07_patch;
pub mod prop_c08;
pub mod prop_c08_scan;
pub mod prop_c09;
pub mod prop_c10;
pub mod prop_c10_hist;
pub mod prop_c11;
pub mod prop_c12;
pub mod prop_c13;
pub mod prop_c14;
pub mod prop_c15;
pub mod prop_c20;
pub mod prop_merge;
pub mod prop_c16;
pub mod prop_c18;
pub mod prop_c17;
pub mod prop_c19;

use framework::PropertyDef;

pub fn registry() -> Vec<PropertyDef> {
    vec![
        prop_c01::def(),
        prop_c02::def(),
        prop_c03::def(),
        prop_c04::def(),
        prop_c05::def(),
        prop_c06::def(),
        prop_c07::def(),
        prop_c08::def(),
        prop_c09::def(),
        prop_c10::def(),
        prop_c11::def(),
        prop_c12::def(),
        prop_c13::def(),
        prop_c14::def(),
        prop_c15::def(),
        prop_c20::def(),
        prop_c16::def(),
        prop_c18::def(),
        prop_c17::def(),
        prop_c19::def(),
    ]
}

/// Internal process sub-modes used by engines (crash children, decoder workers).
pub fn internal_mode(mode: &str, args: &[String]) -> i32 {
    match mode {
        // decoder worker of engine E (C15): requests on stdin, answers on stdout
        "codec-worker" => prop_c15::worker_main(),
        // crash engine (C13): re-executes a victim operation and is aborted at an armed probe
        "crash-child" => prop_c13::crash_child_main(args),
        // sensitivity self-test of the C14 oracles (mutant codecs, projection edits)
        "codec-selftest" => {
            framework::install_quiet_panic_hook();
            engine_codec::selftest() + prop_c15::selftest()
        }
        // C03 sensitivity: markers in folder names (stored in the clear) must be seen by the scanner
        "c03-sensitivity" => prop_c03::sensitivity_main(args),
        _ => {
            eprintln!("unknown mode {mode}");
            2
        }
    }
}
