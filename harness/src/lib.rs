//! Property-based verification harness for saveoursecrets/sdk.
//!
//! Feature `codec-only` (used by the cargo-fuzz crate `/verif/fuzz`) compiles only engine E
//! (C14 / C15) and the framework: the libFuzzer targets need nothing else and the rest of the
//! crate takes ten minutes to build under ASan + coverage instrumentation.
pub mod framework;
#[cfg(not(feature = "codec-only"))]
pub mod secrets;
pub mod alloc_count;
pub mod engine_codec;
pub mod fuzz;
#[cfg(not(feature = "codec-only"))]
pub mod engine_acct;
#[cfg(not(feature = "codec-only"))]
pub mod engine_evlog;
#[cfg(not(feature = "codec-only"))]
pub mod engine_files;
#[cfg(not(feature = "codec-only"))]
pub mod engine_http;
#[cfg(not(feature = "codec-only"))]
pub mod engine_scan;
#[cfg(not(feature = "codec-only"))]
pub mod engine_sync;
#[cfg(not(feature = "codec-only"))]
pub mod prop_c01;
#[cfg(not(feature = "codec-only"))]
pub mod prop_c02;
#[cfg(not(feature = "codec-only"))]
pub mod prop_c03;
#[cfg(not(feature = "codec-only"))]
pub mod prop_c04;
#[cfg(not(feature = "codec-only"))]
pub mod prop_c05;
#[cfg(not(feature = "codec-only"))]
pub mod prop_c06;
#[cfg(not(feature = "codec-only"))]
pub mod prop_c07;
#[cfg(not(feature = "codec-only"))]
pub mod prop_c07_patch;
#[cfg(not(feature = "codec-only"))]
pub mod prop_c08;
#[cfg(not(feature = "codec-only"))]
pub mod prop_c08_scan;
#[cfg(not(feature = "codec-only"))]
pub mod prop_c09;
#[cfg(not(feature = "codec-only"))]
pub mod prop_c10;
#[cfg(not(feature = "codec-only"))]
pub mod prop_c10_hist;
#[cfg(not(feature = "codec-only"))]
pub mod prop_c11;
#[cfg(not(feature = "codec-only"))]
pub mod prop_c12;
#[cfg(not(feature = "codec-only"))]
pub mod prop_c13;
pub mod prop_c14;
pub mod prop_c15;
#[cfg(not(feature = "codec-only"))]
pub mod prop_c20;
#[cfg(not(feature = "codec-only"))]
pub mod prop_merge;
#[cfg(not(feature = "codec-only"))]
pub mod prop_c16;
#[cfg(not(feature = "codec-only"))]
pub mod prop_c18;
#[cfg(not(feature = "codec-only"))]
pub mod prop_c17;
#[cfg(not(feature = "codec-only"))]
pub mod prop_c19;

use framework::PropertyDef;

pub fn registry() -> Vec<PropertyDef> {
    vec![
        #[cfg(not(feature = "codec-only"))]
        prop_c01::def(),
        #[cfg(not(feature = "codec-only"))]
        prop_c02::def(),
        #[cfg(not(feature = "codec-only"))]
        prop_c03::def(),
        #[cfg(not(feature = "codec-only"))]
        prop_c04::def(),
        #[cfg(not(feature = "codec-only"))]
        prop_c05::def(),
        #[cfg(not(feature = "codec-only"))]
        prop_c06::def(),
        #[cfg(not(feature = "codec-only"))]
        prop_c07::def(),
        #[cfg(not(feature = "codec-only"))]
        prop_c08::def(),
        #[cfg(not(feature = "codec-only"))]
        prop_c09::def(),
        #[cfg(not(feature = "codec-only"))]
        prop_c10::def(),
        #[cfg(not(feature = "codec-only"))]
        prop_c11::def(),
        #[cfg(not(feature = "codec-only"))]
        prop_c12::def(),
        #[cfg(not(feature = "codec-only"))]
        prop_c13::def(),
        prop_c14::def(),
        prop_c15::def(),
        #[cfg(not(feature = "codec-only"))]
        prop_c20::def(),
        #[cfg(not(feature = "codec-only"))]
        prop_c16::def(),
        #[cfg(not(feature = "codec-only"))]
        prop_c18::def(),
        #[cfg(not(feature = "codec-only"))]
        prop_c17::def(),
        #[cfg(not(feature = "codec-only"))]
        prop_c19::def(),
    ]
}

/// Internal process sub-modes used by engines (crash children, decoder workers).
pub fn internal_mode(mode: &str, args: &[String]) -> i32 {
    match mode {
        // decoder worker of engine E (C15): requests on stdin, answers on stdout
        "codec-worker" => prop_c15::worker_main(),
        // crash engine (C13): re-executes a victim operation and is aborted at an armed probe
        #[cfg(not(feature = "codec-only"))]
        "crash-child" => prop_c13::crash_child_main(args),
        #[cfg(not(feature = "codec-only"))]
        "crash-child-sys" => prop_c13::crash_child_sys_main(args),
        // sensitivity self-test of the C14 oracles (mutant codecs, projection edits)
        "codec-selftest" => {
            framework::install_quiet_panic_hook();
            engine_codec::selftest() + prop_c15::selftest()
        }
        // coverage-guided tier (tools/fuzz.sh): seed corpus for the libFuzzer targets
        "fuzz-corpus" => fuzz::corpus_main(args),
        // ... and conversion of a libFuzzer artifact into a replay file (re-executed without libFuzzer)
        "fuzz-artifact" => fuzz::artifact_main(args),
        // C03 sensitivity: markers in folder names (stored in the clear) must be seen by the scanner
        #[cfg(not(feature = "codec-only"))]
        "c03-sensitivity" => prop_c03::sensitivity_main(args),
        _ => {
            eprintln!("unknown mode {mode}");
            2
        }
    }
}
