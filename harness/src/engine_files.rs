//! Shared helpers for external file blobs (C17; reusable by C18):
//! deterministic blob content, a scan of a blob directory that does not go
//! through the repo's own listing code, and the reduced file event log.
use crate::framework::Failure;
use serde::{Deserialize, Serialize};
use sha2::{Digest, Sha256};
use sos_core::{ExternalFile, ExternalFileName, SecretId, SecretPath, VaultId};
use std::collections::BTreeSet;
use std::path::{Path, PathBuf};

/// Generated file content as plain data: `len` bytes expanded from `seed`.
#[derive(Clone, Copy, Debug, Serialize, Deserialize, PartialEq, Eq, Hash)]
pub struct BlobSpec {
    pub len: u32,
    pub seed: u64,
}

impl BlobSpec {
    /// SHA-256 in counter mode over the seed: a pure function of the case
    /// (no RNG), incompressible, position dependent.
    pub fn bytes(&self) -> Vec<u8> {
        let mut out = Vec::with_capacity(self.len as usize + 32);
        let mut ctr = 0u64;
        while out.len() < self.len as usize {
            let mut h = Sha256::new();
            h.update(b"sv-c17-blob");
            h.update(self.seed.to_le_bytes());
            h.update(ctr.to_le_bytes());
            out.extend_from_slice(&h.finalize());
            ctr += 1;
        }
        out.truncate(self.len as usize);
        out
    }
}

pub fn sha256_hex(bytes: &[u8]) -> String {
    hex::encode(Sha256::digest(bytes))
}

pub fn sha256_name(bytes: &[u8]) -> ExternalFileName {
    let d: [u8; 32] = Sha256::digest(bytes).into();
    ExternalFileName::from(d)
}

/// Deterministic uuid (valid v4 layout) from a tag and numbers of the case.
pub fn derived_uuid(tag: &str, a: u64, b: u64) -> uuid::Uuid {
    let mut h = Sha256::new();
    h.update(tag.as_bytes());
    h.update(a.to_le_bytes());
    h.update(b.to_le_bytes());
    let d = h.finalize();
    let mut bytes = [0u8; 16];
    bytes.copy_from_slice(&d[..16]);
    uuid::Builder::from_random_bytes(bytes).into_uuid()
}

/// One regular file found below a blob directory.
#[derive(Clone, Debug)]
pub struct DiskBlob {
    pub path: PathBuf,
    /// Path relative to the blob directory.
    pub rel: String,
    pub len: u64,
    pub sha256: String,
    /// `<folder uuid>/<secret uuid>/<64 hex>` parsed, if the location has
    /// that shape.
    pub owner: Option<ExternalFile>,
    /// Name equals hex SHA-256 of the content.
    pub name_ok: bool,
}

/// Every regular file below `root` (missing root = empty), sorted by path.
/// Independent of `sos_external_files::list_external_files` (which skips
/// what it cannot parse).
pub fn scan_blobs(root: &Path) -> Result<Vec<DiskBlob>, Failure> {
    let mut out = vec![];
    if !root.exists() {
        return Ok(out);
    }
    for e in walkdir::WalkDir::new(root).sort_by_file_name() {
        let e = e.map_err(|e| Failure::new("harness/scan-blobs", format!("walk {}: {e}", root.display())))?;
        if !e.file_type().is_file() {
            continue;
        }
        let rel_path = e.path().strip_prefix(root).unwrap_or(e.path());
        let rel = rel_path.to_string_lossy().to_string();
        let bytes = match std::fs::read(e.path()) {
            Ok(b) => b,
            // removed between listing and reading (server side, concurrent)
            Err(_) => continue,
        };
        let sha = sha256_hex(&bytes);
        let parts: Vec<String> = rel_path
            .components()
            .map(|c| c.as_os_str().to_string_lossy().to_string())
            .collect();
        let owner = if parts.len() == 3 {
            match (
                parts[0].parse::<VaultId>(),
                parts[1].parse::<SecretId>(),
                parts[2].parse::<ExternalFileName>(),
            ) {
                (Ok(f), Ok(s), Ok(n)) => Some(ExternalFile::new(SecretPath(f, s), n)),
                _ => None,
            }
        } else {
            None
        };
        let name = parts.last().cloned().unwrap_or_default();
        out.push(DiskBlob {
            path: e.path().to_path_buf(),
            rel,
            len: bytes.len() as u64,
            name_ok: name == sha,
            sha256: sha,
            owner,
        });
    }
    Ok(out)
}

/// Canonical string of a file reference (`folder/secret/name`).
pub fn file_key(f: &ExternalFile) -> String {
    f.to_string()
}

pub fn key_of(folder: &VaultId, secret: &SecretId, name: &ExternalFileName) -> String {
    format!("{folder}/{secret}/{name}")
}

/// The set named by replaying a file event log.
pub async fn reduced_file_set<L, E>(log: &L) -> Result<BTreeSet<String>, String>
where
    L: sos_core::events::EventLog<sos_core::events::FileEvent, Error = E>,
    E: std::error::Error + std::fmt::Debug + From<sos_core::Error>,
{
    let set = sos_reducers::FileReducer::new(log)
        .reduce(None)
        .await
        .map_err(|e| format!("FileReducer::reduce: {e}"))?;
    Ok(set.iter().map(file_key).collect())
}
