//! C10 history part: nonce freshness over everything a folder key ever
//! encrypts during generated account histories.
use crate::engine_acct::*;
use crate::framework::*;
use futures::StreamExt;
use serde_json::Value;
use sos_account::Account;
use sos_core::{
    crypto::AeadPack,
    events::{EventLog, WriteEvent},
    VaultCommit, VaultEntry, VaultId,
};
use sos_vault::Vault;
use std::collections::{BTreeMap, BTreeSet};

fn packs_of_vault(v: &Vault) -> Vec<AeadPack> {
    let mut out = vec![];
    if let Some(m) = v.header().meta() {
        out.push(m.clone());
    }
    for (_, VaultCommit(_, VaultEntry(a, b))) in v.iter() {
        out.push(a.clone());
        out.push(b.clone());
    }
    out
}

async fn packs_of_folder(w: &AcctWorld, fid: &VaultId) -> Result<Vec<AeadPack>, Failure> {
    let mut packs = vec![];
    let folder = w.account.folder(fid).await.map_err(hf("harness/folder", "Account::folder"))?;
    {
        let log = folder.event_log();
        let log = log.read().await;
        let mut s = log.event_stream(false).await;
        while let Some(r) = s.next().await {
            let (_, ev) = r.map_err(hf("harness/stream", "event_stream"))?;
            match ev {
                WriteEvent::CreateVault(bytes) => {
                    if let Ok(v) = sos_core::decode::<Vault>(&bytes).await {
                        packs.extend(packs_of_vault(&v));
                    }
                }
                WriteEvent::SetVaultMeta(p) => packs.push(p),
                WriteEvent::CreateSecret(_, VaultCommit(_, VaultEntry(a, b))) | WriteEvent::UpdateSecret(_, VaultCommit(_, VaultEntry(a, b))) => {
                    packs.push(a);
                    packs.push(b);
                }
                _ => {}
            }
        }
    }
    let (_, m, p) = folder_views(w, fid).await?;
    packs.extend(packs_of_vault(&m));
    packs.extend(packs_of_vault(&p));
    Ok(packs)
}

pub fn check(h: &History) -> (CaseInfo, CheckResult) {
    let mut info = CaseInfo::default();
    let r = block_on(async {
        sos_core::verif::set_clock(Some((1_700_000_000i128 * 1_000_000_000, 1_000_003)));
        let mut w = AcctWorld::new(&h.cfg).await?;
        w.avoid.insert("sqlite-id-live-in-two-folders".into());
        // nonce -> ciphertexts seen with it, per folder, over the whole history
        let mut seen: BTreeMap<VaultId, BTreeMap<Vec<u8>, BTreeSet<Vec<u8>>>> = BTreeMap::new();
        let mut res = Ok(());
        let n = h.ops.len();
        for (i, op) in h.ops.iter().enumerate() {
            if let Err(f) = w.apply(op).await {
                res = Err(Failure::new(f.signature, format!("op #{i} {}: {}", crate::prop_c01::op_label(op), f.message)));
                break;
            }
            // rewrites discard packs, so collect before they vanish: after every op
            let rewrite_next = h.ops.get(i + 1).map(|o| matches!(o, Op::CompactFolder { .. } | Op::CompactAccount | Op::ChangeFolderPassword { .. } | Op::ChangeCipher { .. } | Op::DeleteFolder { .. })).unwrap_or(false);
            if i % 6 == 5 || i + 1 == n || rewrite_next {
                for f in w.model.folders.clone() {
                    let packs = packs_of_folder(&w, &f.id).await?;
                    let m = seen.entry(f.id).or_default();
                    for p in packs {
                        let e = m.entry(p.nonce.as_ref().to_vec()).or_default();
                        e.insert(p.ciphertext);
                        if e.len() > 1 {
                            res = Err(Failure::new(
                                "c10/history/nonce-reused",
                                format!("folder '{}': nonce {} was used for {} different ciphertexts (after op #{i} {})", f.name, hex::encode(p.nonce.as_ref()), e.len(), crate::prop_c01::op_label(op)),
                            ));
                        }
                    }
                }
                if res.is_err() {
                    break;
                }
            }
        }
        let max_packs = seen.values().map(|m| m.len()).max().unwrap_or(0);
        info.inner_evals = seen.values().map(|m| m.len() as u64).sum();
        info.nontrivial = max_packs >= 20;
        info.class(h.cfg.label());
        info.class(format!("packs-under-one-key/{}", if max_packs >= 50 { ">=50" } else if max_packs >= 20 { "20..49" } else { "<20" }));
        sos_core::verif::set_clock(None);
        res
    });
    (info, r)
}

fn strategy(max_ops: usize) -> impl proptest::strategy::Strategy<Value = History> {
    use proptest::prelude::*;
    (history_strategy(Mix::Replay, max_ops), proptest::collection::vec(rewrite_strategy(), 0..3)).prop_map(|(mut h, rw)| {
        // small values: this check is about the number of encryptions, not their size
        for op in h.ops.iter_mut() {
            if let Op::CreateSecret { spec, .. } | Op::UpdateSecret { spec, .. } | Op::FolderCreate { spec, .. } | Op::FolderUpdate { spec, .. } = op {
                if spec.big > 2048 {
                    spec.big = 64;
                }
            }
        }
        // rewrites (without account password / reopen interplay) in the middle of the history
        let mid = h.ops.len() / 2;
        for (k, r) in rw.into_iter().enumerate() {
            if !matches!(r, Op::ChangeAccountPassword { .. }) {
                h.ops.insert((mid + k).min(h.ops.len()), r);
            }
        }
        h
    })
}

pub fn run(shard: &Shard, rep: &mut Report) {
    let t = shard.tier;
    drive(shard, rep, "history-nonces", shard.share(t.pick(192, 2_400)), strategy(t.pick(60, 140)), |h| check(h));
}

pub fn replay(case: &Value) -> CheckResult {
    let h: History = from_case(case).map_err(|e| Failure::new("harness", e))?;
    check(&h).1
}
