//! Plain-data secret specifications, builders for every `Secret` kind and the
//! canonical projection used to compare secrets.
use proptest::prelude::*;
use serde::{Deserialize, Serialize};
use serde_json::{json, Value};
use sha2::{Digest, Sha256};
use sos_core::UtcDateTime;
use sos_vault::secret::{
    FileContent, IdentityKind, Secret, SecretMeta, SecretRow, SecretSigner,
    UserData,
};
use time::OffsetDateTime;
use uuid::Uuid;

pub const NUM_KINDS: u8 = 15;

pub const KIND_NAMES: [&str; 15] = [
    "note", "file", "account", "list", "pem", "page", "signer", "contact",
    "totp", "card", "bank", "link", "password", "identity", "age",
];

const AGE_KEYS: [&str; 4] = [
    "AGE-SECRET-KEY-1T3V73N3UX5W2CFKGX3QHQPD5ZMC0RWPUKVNVW2EHFXDYJJCVE46QDKCMM6",
    "AGE-SECRET-KEY-10EEN0DTJ6GXZLH22YK436HJ6ZD2KWMDPTQZV8UREUP0YKG6X8NES7LVRJP",
    "AGE-SECRET-KEY-15AZZXAD6TPN2F0KNS7V3ACAL83HPHKT47PUTFX9JP8P865E738DQE24MYL",
    "AGE-SECRET-KEY-1CU0AFK8SMD29Q7U6X4W8P3F9WCL2VNRE6QRYWWYDGM2GWYVR7HTSD5YC4P",
];

#[derive(Clone, Debug, Serialize, Deserialize, PartialEq, Eq, Hash)]
pub struct SecretSpec {
    pub kind: u8,
    pub label: String,
    pub tags: Vec<String>,
    pub favorite: bool,
    /// primary text field
    pub a: String,
    /// secondary text field
    pub b: String,
    /// size of a large payload (bytes) for kinds that carry one
    pub big: u32,
    pub comment: Option<String>,
    pub recovery: Option<String>,
    /// number of custom fields 0..=3
    pub fields: u8,
    /// optional members present
    pub opt: bool,
}

impl SecretSpec {
    pub fn kind_name(&self) -> &'static str {
        KIND_NAMES[(self.kind % NUM_KINDS) as usize]
    }
}

fn alnum(s: &str) -> String {
    let t: String = s
        .chars()
        .filter(|c| c.is_ascii_alphanumeric() || *c == ' ')
        .collect();
    if t.trim().is_empty() {
        "x".to_string()
    } else {
        t.trim().to_string()
    }
}

fn payload(seed: &str, n: u32) -> Vec<u8> {
    // position dependent, seed dependent content
    let h = Sha256::digest(seed.as_bytes());
    (0..n as usize)
        .map(|i| h[i % 32] ^ (i as u8).wrapping_mul(31))
        .collect()
}

fn text_payload(seed: &str, n: u32) -> String {
    let h = hex::encode(Sha256::digest(seed.as_bytes()));
    let mut s = String::with_capacity(n as usize + 64);
    while s.len() < n as usize {
        s.push_str(&h);
        s.push(' ');
    }
    s.truncate(n as usize);
    s
}

fn date(secs: i64) -> UtcDateTime {
    OffsetDateTime::from_unix_timestamp(secs).unwrap().into()
}

fn user_data(spec: &SecretSpec) -> UserData {
    let mut ud = UserData::default();
    ud.set_comment(spec.comment.clone());
    ud.set_recovery_note(spec.recovery.clone());
    for i in 0..(spec.fields % 4) {
        // custom fields: note / link / password kinds, deterministic ids
        let id = Uuid::from_bytes({
            let h = Sha256::digest(format!("{}-{}-field{}", spec.label, spec.a, i).as_bytes());
            let mut b = [0u8; 16];
            b.copy_from_slice(&h[..16]);
            b
        });
        let text = format!("{}-f{}", spec.b, i);
        let secret = match i % 3 {
            0 => Secret::Note { text: text.clone().into(), user_data: Default::default() },
            1 => Secret::Link { url: format!("https://example.com/{}", alnum(&text).replace(' ', "-")).into(), label: None, title: None, user_data: Default::default() },
            _ => Secret::Password { password: text.clone().into(), name: None, user_data: Default::default() },
        };
        let mut meta = SecretMeta::new(format!("field {i} {}", spec.label), secret.kind());
        meta.set_date_created(date(1_600_000_000 + i as i64));
        meta.set_last_updated(date(1_600_000_000 + i as i64));
        ud.push(SecretRow::new(id, meta, secret));
    }
    ud
}

/// Build the (meta, secret) pair a spec describes.
pub fn build_secret(spec: &SecretSpec) -> (SecretMeta, Secret) {
    let ud = user_data(spec);
    let a = spec.a.clone();
    let b = spec.b.clone();
    let secret = match spec.kind % NUM_KINDS {
        0 => Secret::Note {
            text: if spec.big > 0 { text_payload(&a, spec.big) } else { a.clone() }.into(),
            user_data: ud,
        },
        1 => {
            let buffer = payload(&a, spec.big);
            let checksum: [u8; 32] = Sha256::digest(&buffer).into();
            Secret::File {
                content: FileContent::Embedded {
                    name: format!("{}.bin", alnum(&b)),
                    mime: "application/octet-stream".into(),
                    checksum,
                    buffer: secrecy::SecretBox::new(buffer.into()),
                },
                user_data: ud,
            }
        }
        2 => Secret::Account {
            account: a.clone(),
            password: b.clone().into(),
            url: if spec.opt {
                vec![format!("https://example.com/{}", alnum(&a).replace(' ', "-")).parse().unwrap()]
            } else {
                vec![]
            },
            user_data: ud,
        },
        3 => {
            let mut items = std::collections::HashMap::new();
            items.insert(format!("k-{}", a), b.clone().into());
            if spec.opt {
                items.insert("second".to_string(), a.clone().into());
            }
            Secret::List { items, user_data: ud }
        }
        4 => Secret::Pem {
            certificates: vec![pem::Pem::new("CERTIFICATE", payload(&a, 64 + (spec.big % 2048)))],
            user_data: ud,
        },
        5 => Secret::Page {
            title: a.clone(),
            mime: "text/markdown".into(),
            document: if spec.big > 0 { text_payload(&b, spec.big) } else { b.clone() }.into(),
            user_data: ud,
        },
        6 => {
            let key: [u8; 32] = Sha256::digest(a.as_bytes()).into();
            Secret::Signer {
                private_key: if spec.opt {
                    SecretSigner::SinglePartyEd25519(secrecy::SecretBox::new(key.to_vec().into()))
                } else {
                    SecretSigner::SinglePartyEcdsa(secrecy::SecretBox::new(key.to_vec().into()))
                },
                user_data: ud,
            }
        }
        7 => {
            let text = format!("BEGIN:VCARD\nVERSION:4.0\nFN:{}\nEND:VCARD", alnum(&a));
            let vcard: vcard4::Vcard = text.as_str().try_into().unwrap();
            Secret::Contact { vcard: Box::new(vcard), user_data: ud }
        }
        8 => {
            let mut secret = Sha256::digest(a.as_bytes()).to_vec();
            secret.extend_from_slice(b"0123456789");
            let totp = totp_rs::TOTP::new(
                totp_rs::Algorithm::SHA1,
                6,
                1,
                30,
                secret,
                Some("Issuer".to_string()),
                format!("{}@example.com", alnum(&b).replace(' ', "")),
            )
            .unwrap();
            Secret::Totp { totp, user_data: ud }
        }
        9 => Secret::Card {
            number: a.clone().into(),
            cvv: b.clone().into(),
            expiry: if spec.opt { Some(date(1_900_000_000)) } else { None },
            name: if spec.opt { Some(format!("name {}", a).into()) } else { None },
            atm_pin: if spec.opt { Some("1234".to_string().into()) } else { None },
            user_data: ud,
        },
        10 => Secret::Bank {
            number: a.clone().into(),
            routing: b.clone().into(),
            iban: if spec.opt { Some(format!("IBAN{}", a).into()) } else { None },
            swift: if spec.opt { Some("SWIFT".to_string().into()) } else { None },
            bic: None,
            user_data: ud,
        },
        11 => Secret::Link {
            url: format!("https://example.com/{}", a).into(),
            label: if spec.opt { Some(b.clone().into()) } else { None },
            title: if spec.opt { Some(format!("title {}", b).into()) } else { None },
            user_data: ud,
        },
        12 => Secret::Password {
            password: a.clone().into(),
            name: if spec.opt { Some(b.clone().into()) } else { None },
            user_data: ud,
        },
        13 => Secret::Identity {
            id_kind: match spec.big % 7 {
                0 => IdentityKind::PersonalIdNumber,
                1 => IdentityKind::IdCard,
                2 => IdentityKind::Passport,
                3 => IdentityKind::DriverLicense,
                4 => IdentityKind::SocialSecurity,
                5 => IdentityKind::TaxNumber,
                _ => IdentityKind::MedicalCard,
            },
            number: a.clone().into(),
            issue_place: if spec.opt { Some(b.clone()) } else { None },
            issue_date: if spec.opt { Some(date(1_500_000_000)) } else { None },
            expiry_date: if spec.opt { Some(date(1_800_000_000)) } else { None },
            user_data: ud,
        },
        _ => Secret::Age {
            version: Default::default(),
            key: AGE_KEYS[(spec.big % 4) as usize].to_string().into(),
            user_data: ud,
        },
    };
    let mut meta = SecretMeta::new(spec.label.clone(), secret.kind());
    meta.set_tags(spec.tags.iter().cloned().collect());
    meta.set_favorite(spec.favorite);
    // pin the timestamps so that the model is independent of the clock
    meta.set_date_created(date(1_650_000_000));
    meta.set_last_updated(date(1_650_000_000));
    (meta, secret)
}

/// Canonical projection of secret meta data (last_updated excluded: the
/// storage layer touches it on write by design).
pub fn proj_meta(meta: &SecretMeta) -> Value {
    let mut tags: Vec<String> = meta.tags().iter().cloned().collect();
    tags.sort();
    json!({
        "kind": format!("{:?}", meta.kind()),
        "label": meta.label(),
        "tags": tags,
        "favorite": meta.favorite(),
        "flags": meta.flags().bits(),
        "urn": meta.urn().map(|u| u.to_string()),
        "owner_id": meta.owner_id(),
        "date_created": meta.date_created().to_rfc3339().unwrap_or_default(),
    })
}

fn strip_last_updated(v: &mut Value) {
    match v {
        Value::Object(m) => {
            m.remove("lastUpdated");
            for (_, x) in m.iter_mut() {
                strip_last_updated(x);
            }
        }
        Value::Array(a) => {
            for x in a.iter_mut() {
                strip_last_updated(x);
            }
        }
        _ => {}
    }
}

fn sort_tags(v: &mut Value) {
    match v {
        Value::Object(m) => {
            if let Some(Value::Array(t)) = m.get_mut("tags") {
                t.sort_by_key(|x| x.to_string());
            }
            for (_, x) in m.iter_mut() {
                sort_tags(x);
            }
        }
        Value::Array(a) => {
            for x in a.iter_mut() {
                sort_tags(x);
            }
        }
        _ => {}
    }
}

/// Canonical projection of a secret value (its exposed serde form).
pub fn proj_secret(secret: &Secret) -> Value {
    let mut v = serde_json::to_value(secret).unwrap_or(Value::Null);
    strip_last_updated(&mut v);
    sort_tags(&mut v);
    v
}

/// A compact digest of a projected (meta, secret) pair for messages.
pub fn digest(meta: &Value, secret: &Value) -> String {
    let h = Sha256::digest(format!("{}{}", meta, secret).as_bytes());
    hex::encode(&h[..6])
}

pub fn label_strategy() -> impl Strategy<Value = String> {
    prop_oneof![
        6 => "[a-z]{1,8}( [a-z]{1,6})?",
        2 => "[ -~]{0,20}",
        1 => "\\PC{1,6}",
        1 => Just(String::new()),
    ]
}

pub fn text_strategy() -> impl Strategy<Value = String> {
    prop_oneof![
        5 => "[a-zA-Z0-9]{1,12}",
        2 => "[ -~]{0,40}",
        1 => "\\PC{1,10}",
        1 => Just(String::new()),
    ]
}

pub fn spec_strategy() -> impl Strategy<Value = SecretSpec> {
    (
        0u8..NUM_KINDS,
        label_strategy(),
        // tags: mostly short words; now and then an empty, blank or punctuated one
        proptest::collection::vec(prop_oneof![10 => "[a-z]{1,5}", 1 => Just(String::new()), 1 => Just(" ".to_string()), 1 => "[ -~]{1,8}"], 0..3),
        any::<bool>(),
        text_strategy(),
        text_strategy(),
        prop_oneof![
            12 => Just(0u32),
            4 => 1u32..2048,
            1 => 900_000u32..1_100_000,
        ],
        (
            proptest::option::of("[ -~]{0,20}"),
            proptest::option::of("[a-z ]{1,20}"),
            0u8..4,
            any::<bool>(),
        ),
    )
        .prop_map(|(kind, label, tags, favorite, a, b, big, (comment, recovery, fields, opt))| SecretSpec {
            kind,
            label,
            tags,
            favorite,
            a,
            b,
            big,
            comment,
            recovery,
            fields,
            opt,
        })
}
