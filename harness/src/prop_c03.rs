//! C03 — secret material never reaches storage or the network unencrypted.
use crate::engine_acct::*;
use crate::engine_scan::*;
use crate::engine_sync::{all_logs, listing, SyncWorld};
use crate::framework::*;
use crate::secrets::*;
use proptest::prelude::*;
use secrecy::{ExposeSecret, SecretString};
use serde::{Deserialize, Serialize};
use serde_json::Value;
use sos_account::Account;
use sos_client_storage::{AccessOptions, NewFolderOptions};
use sos_core::{
    crypto::{AccessKey, AeadPack, Cipher, DerivedPrivateKey, PrivateKey},
    events::{EventLog, WriteEvent},
    SecretId, VaultCommit, VaultEntry, VaultId,
};
use sos_protocol::SyncClient;
use sos_sync::{StorageEventLogs, UpdateSet};
use sos_vault::{
    secret::{FileContent, Secret, SecretMeta, SecretSigner},
    SecretAccess, Vault,
};
use std::collections::{BTreeMap, BTreeSet};
use std::path::Path;

pub const META: PropertyMeta = PropertyMeta {
    id: "C03",
    level: "exploration",
    rule: "every plaintext the harness writes carries a fresh marker derived (SHA-256) from a proptest-drawn case seed and its position: text fields embed 'MK' + 20 base32 characters (100 bits), byte payloads are registered by their first 24..48 bytes; markers are registered with their field path and field kind only when they are live in the exposed serde form of the built secret. Sub-check `local`: a LocalAccount on a generated backend x cipher x KDF cell; 5..8 create_secret of pairwise distinct kinds (all 15 kinds: note, embedded file, account, list, pem, page, signer, contact, totp, card, bank, link, password, identity, age; user data comment / recovery note / 0..3 custom fields; label; 0..2 tags), then 0..10 (quick) / 0..25 (thorough) ops over create / update (meta only, value, with move) / move / delete / archive / unarchive / folder create, rename, flags, description (marker text), delete / lock+unlock / sign-out+in / fresh instance / folder-level create, update, delete / compact_folder, in ~30% of the cases one external file attachment (marker bytes, marker file name; plaintext source kept outside the scanned directories), then 0..3 rewrites from {compact_folder, compact_account, change_folder_password, change_account_password (marker passwords), change_cipher}, then export_backup_archive (v2 on fs, v3 on sqlite) into a case directory, then sign-out. The raw byte scan runs after every op, after the export and after sign-out over: every file below the client data dir (incl. *.db, -wal, -shm, snapshots, temp files, blobs), the exported zip (raw and every DEFLATE-decompressed entry), the bytes the process-global audit trail grew by, and the tracing output captured in memory under the product's default filter. Sub-check `sync`: engine B (2 devices + in-process ServerStorage behind the wire-encoding DirectClient with capture on): 5..7 creates of distinct kinds + description on device 0, account creation on the server (CreateSet), clone to device 1, 1..4 offline edits per device on shared folders (auto-merge scan/diff/patch), generated sync order + round robin to a fixpoint (<= 4 passes), optionally change_folder_password / change_account_password on device 0 followed by the UpdateSet NetworkAccount would send and further syncs; scan over both device dirs, the server dir (fs or sqlite), every captured wire buffer, audit delta and tracing; every AeadPack decoded from the server's identity and folder event logs must fail to decrypt under an unrelated key with either symmetric cipher. Sub-check `http`: the real client (NetworkAccount, fs or sqlite) against the real sos_server on 127.0.0.1 (fs or sqlite): 5..7 creates of distinct kinds, a marker description and one external file attachment before add_server (initial sync sends the CreateSet over HTTP), 0..2 creates afterwards (each syncs), bounded wait for the uploaded blob; scan of the client dir, the server directory (config, storage, blobs), audit delta and tracing (sos_net / sos_protocol at debug) before add_server, after the upload and after sign-out + server shutdown. Dynamic needles read back from the unlocked account(s): account password(s), every secret of the identity vault (all delegated folder passwords incl. the device vault's, file-encryption password, age identity as string and as raw 32 bytes), device signing key bytes. Encodings searched per needle: raw, hex lower/upper, base64 std/url-safe at 3 alignments, UTF-16LE/BE (text), base32 upper/lower at 5 alignments. Non-trivial (local) = >= 5 distinct secret kinds written and >= 1 archive with >= 1 entry scanned and the scan visited >= 1 sqlite file or >= 1 event log; non-trivial (sync) = >= 5 kinds written, >= 1 sync returned Ok, >= 1 captured wire buffer and the server scan visited >= 1 sqlite file or >= 1 event log. non-trivial (http) = >= 5 kinds written, the initial sync over HTTP succeeded and the scan visited >= 1 sqlite file or >= 1 event log. Distinct = distinct case. A planted-marker self-test of the scanner (every encoding through independent encoders, file walk, deflated zip entry, tracing capture, negative buffer) runs first in every worker; a failing self-test makes the run inconclusive.",
    assumptions: &[
        "the secrecy clause ('holding every byte the server ever received is not enough to recover any of them') is claimed only as its testable shadow: no marker of content or key material in any searched encoding in the server directory or any wire buffer, and no AeadPack of the server's logs decrypts under an unrelated key",
        "HTTP traffic of the `http` sub-check is not tapped on the wire: what the server received is observed through its data directory (event logs / database rows, uploaded blob); upload bodies are the on-disk blobs. Wire buffers are captured on the in-process DirectClient path of the `sync` sub-check only",
        "pairing messages (relay websocket) are not covered; file downloads to a second device are not exercised (uploads are)",
        "the audit trail is the process-global file provider the harness configures; the sqlite audit provider is not configured",
        "tracing output is captured with the filter string the product's logger installs by default (crates/logs/src/logger.rs DEFAULT_LOG_LEVEL); leaks that appear only under a more verbose RUST_LOG are out of scope; when VERIF_TRACE installs another global subscriber the tracing place is skipped (classified)",
        "this version of the SDK keeps no account signing key (only an age identity and a per-device Ed25519 signing key); both are read back and searched for",
        "plaintext that is transformed before storage other than by the searched encodings (compression of single values, other alphabets) is not detected; DEFLATE is undone for zip entries only",
        "temporary files the product might create outside the data / export directories (system temp dir) are not scanned",
        "operations that fail (also because of known findings of other properties) are classified and skipped; the bytes they left behind are still scanned",
    ],
};

pub fn def() -> PropertyDef {
    PropertyDef {
        meta: META,
        shards: |_| 16,
        run,
        replay,
        timeout_s: |t| t.pick(1500, 5 * 3600),
    }
}

// ---------------------------------------------------------------------------
// Case data
// ---------------------------------------------------------------------------

#[derive(Clone, Debug, Serialize, Deserialize, PartialEq, Eq, Hash)]
pub struct Attach {
    pub folder: u16,
    pub len: u16,
}

#[derive(Clone, Debug, Serialize, Deserialize, PartialEq, Eq, Hash)]
pub struct LocalCase {
    pub seed: u64,
    pub cfg: AcctCfg,
    pub ops: Vec<Op>,
    pub attach: Option<Attach>,
    pub rewrites: Vec<Op>,
}

#[derive(Clone, Debug, Serialize, Deserialize, PartialEq, Eq, Hash)]
pub enum SEdit {
    Create { folder: u16, spec: SecretSpec },
    Update { sec: u16, spec: SecretSpec },
    Delete { sec: u16 },
    SetDescription { folder: u16, text: String },
    CreateFolder { name: String },
    RenameFolder { folder: u16, name: String },
}

#[derive(Clone, Debug, Serialize, Deserialize, PartialEq, Eq, Hash)]
pub struct SyncCase {
    pub seed: u64,
    pub cfg: AcctCfg,
    pub server_db: bool,
    pub pre: Vec<SEdit>,
    /// offline edits per device (device 0 first)
    pub offline: Vec<Vec<SEdit>>,
    pub order: Vec<u8>,
    /// bit 0: change a folder password, bit 1: change the account password (device 0, after the syncs)
    pub rekey: u8,
    /// passwords used by the rekey step
    pub new_passwords: (String, String),
}

/// Development aid: when on, folder names carry markers too (they are allowed in
/// the clear) so that the scan shows which places and encodings it reaches.
#[derive(Clone, Copy, Debug, Default)]
pub struct Mode {
    pub sensitivity: bool,
}

// ---------------------------------------------------------------------------
// Marker injection (part of the strategies: cases hold the marked values)
// ---------------------------------------------------------------------------

fn mark_spec(seed: u64, path: &str, s: &mut SecretSpec) {
    s.label = format!("l {}", token(seed, &format!("{path}.label")));
    for (j, t) in s.tags.iter_mut().enumerate() {
        *t = format!("t{j}{}", token(seed, &format!("{path}.tag[{j}]")));
    }
    s.a = format!("a {}", token(seed, &format!("{path}.a")));
    s.b = format!("b {}", token(seed, &format!("{path}.b")));
    if s.comment.is_some() {
        s.comment = Some(format!("c {}", token(seed, &format!("{path}.comment"))));
    }
    if s.recovery.is_some() {
        s.recovery = Some(format!("r {}", token(seed, &format!("{path}.recovery"))));
    }
}

fn mark_op(seed: u64, path: &str, op: &mut Op) {
    match op {
        Op::CreateSecret { spec, .. } | Op::UpdateSecret { spec, .. } | Op::FolderCreate { spec, .. } | Op::FolderUpdate { spec, .. } => mark_spec(seed, path, spec),
        Op::SetDescription { text, .. } => *text = format!("d {}", token(seed, &format!("{path}.description"))),
        Op::ChangeFolderPassword { password, .. } => *password = token(seed, &format!("{path}.folder-password")),
        Op::ChangeAccountPassword { password } => *password = token(seed, &format!("{path}.account-password")),
        _ => {}
    }
}

fn mark_sedit(seed: u64, path: &str, e: &mut SEdit) {
    match e {
        SEdit::Create { spec, .. } | SEdit::Update { spec, .. } => mark_spec(seed, path, spec),
        SEdit::SetDescription { text, .. } => *text = format!("d {}", token(seed, &format!("{path}.description"))),
        _ => {}
    }
}

// ---------------------------------------------------------------------------
// Needle registration
// ---------------------------------------------------------------------------

#[derive(Default, Debug)]
struct Written {
    kinds: BTreeSet<u8>,
    field_kinds: BTreeSet<String>,
    not_live: usize,
}

fn exposed_json(meta: &SecretMeta, secret: &Secret) -> String {
    format!("{}\n{}", proj_meta(meta), serde_json::to_string(secret).unwrap_or_default())
}

/// Register the needles of one secret that is about to be written.
fn register_spec(reg: &mut Registry, wr: &mut Written, path: &str, spec: &SecretSpec, meta_only: bool) {
    let (meta, secret) = build_secret(spec);
    let json = exposed_json(&meta, &secret);
    let json0 = {
        let mut s0 = spec.clone();
        s0.fields = 0;
        let (m0, x0) = build_secret(&s0);
        exposed_json(&m0, &x0)
    };
    let add = |reg: &mut Registry, wr: &mut Written, what: &str, kind: &str, text: &str| {
        for t in tokens_in(text) {
            if !json.contains(&t) {
                wr.not_live += 1;
                continue;
            }
            let k = if kind == "field" && !json0.contains(&t) { "custom-field" } else { kind };
            if reg.add_text(format!("{path}.{what}"), k, &t) {
                wr.field_kinds.insert(k.to_string());
            }
        }
    };
    add(reg, wr, "label", "label", &spec.label);
    for (j, t) in spec.tags.iter().enumerate() {
        add(reg, wr, &format!("tag[{j}]"), "tag", t);
    }
    if meta_only {
        return;
    }
    wr.kinds.insert(spec.kind % NUM_KINDS);
    add(reg, wr, "a", "field", &spec.a);
    add(reg, wr, "b", "field", &spec.b);
    if spec.fields % 4 > 0 {
        // the custom fields repeat the b marker in their values and the label marker in their meta
        wr.field_kinds.insert("custom-field".to_string());
    }
    if let Some(c) = &spec.comment {
        add(reg, wr, "comment", "comment", c);
    }
    if let Some(r) = &spec.recovery {
        add(reg, wr, "recovery-note", "comment", r);
    }
    let mut byte_needles: Vec<(&str, &str, Vec<u8>)> = vec![];
    match &secret {
        Secret::File { content: FileContent::Embedded { buffer, .. }, .. } => byte_needles.push(("embedded file bytes", "attachment", buffer.expose_secret().clone())),
        Secret::Pem { certificates, .. } => {
            if let Some(p) = certificates.first() {
                byte_needles.push(("pem contents", "field", p.contents().to_vec()));
            }
        }
        Secret::Signer { private_key, .. } => match private_key {
            SecretSigner::SinglePartyEcdsa(k) | SecretSigner::SinglePartyEd25519(k) => byte_needles.push(("signer private key", "field", k.expose_secret().clone())),
        },
        Secret::Totp { totp, .. } => byte_needles.push(("totp secret", "field", totp.secret.clone())),
        Secret::Age { key, .. } => {
            if reg.add_text(format!("{path}.age key"), "field", key.expose_secret()) {
                wr.field_kinds.insert("field".into());
            }
        }
        _ => {}
    }
    for (what, kind, b) in byte_needles {
        if reg.add_bytes(format!("{path}.{what} ({})", spec.kind_name()), kind, &b[..b.len().min(48)]) {
            wr.field_kinds.insert(kind.to_string());
        }
    }
}

fn register_op(reg: &mut Registry, wr: &mut Written, path: &str, op: &Op) {
    match op {
        Op::CreateSecret { spec, .. } | Op::FolderCreate { spec, .. } | Op::FolderUpdate { spec, .. } => register_spec(reg, wr, path, spec, false),
        Op::UpdateSecret { spec, meta_only, .. } => register_spec(reg, wr, path, spec, *meta_only),
        Op::SetDescription { text, .. } => {
            for t in tokens_in(text) {
                reg.add_text(format!("{path}.description"), "description", &t);
                wr.field_kinds.insert("description".into());
            }
        }
        Op::ChangeFolderPassword { password, .. } => {
            for t in tokens_in(password) {
                reg.add_text(format!("{path}.new folder password"), "folder-password", &t);
            }
        }
        Op::ChangeAccountPassword { password } => {
            for t in tokens_in(password) {
                reg.add_text(format!("{path}.new account password"), "account-password", &t);
            }
        }
        _ => {}
    }
}

#[derive(Default, Debug)]
struct KeyStats {
    classes: BTreeSet<String>,
}

/// Key material read back from an unlocked account.
async fn register_keys<A: Account>(account: &A, passwords: &[SecretString], reg: &mut Registry, tag: &str, ks: &mut KeyStats) {
    for password in passwords {
        if reg.add_text(format!("{tag}.account password"), "account-password", password.expose_secret()) {
            ks.classes.insert("keys/account-password".into());
        }
    }
    match account.device_signer().await {
        Ok(signer) => {
            reg.add_bytes(format!("{tag}.device signing key"), "signing-key", &signer.to_bytes());
            ks.classes.insert("keys/device-signing-key".into());
        }
        Err(_) => {
            ks.classes.insert("keys/device-signing-key-unavailable".into());
        }
    }
    let target = account.backend_target().await;
    let mut opened = None;
    for password in passwords.iter().rev() {
        let key: AccessKey = password.clone().into();
        if let Ok(f) = sos_login::IdentityFolder::login(&target, account.account_id(), &key).await {
            opened = Some(f);
            break;
        }
    }
    let Some(idf) = opened else {
        ks.classes.insert("keys/identity-vault-login-failed".into());
        return;
    };
    let ap = idf.folder().access_point();
    let ap = ap.lock().await;
    let ids: Vec<SecretId> = ap.vault().keys().cloned().collect();
    for id in ids {
        let Ok(Some((meta, secret, _))) = ap.read_secret(&id).await else {
            ks.classes.insert("keys/identity-secret-unreadable".into());
            continue;
        };
        let urn = meta.urn().map(|u| u.to_string()).unwrap_or_default();
        match secret {
            Secret::Password { password, .. } => {
                if urn == sos_core::constants::FILE_PASSWORD_URN {
                    reg.add_text(format!("{tag}.file encryption password"), "file-password", password.expose_secret());
                    ks.classes.insert("keys/file-password".into());
                } else {
                    reg.add_text(format!("{tag}.delegated password {urn}"), "folder-password", password.expose_secret());
                    ks.classes.insert("keys/folder-password".into());
                }
            }
            Secret::Age { key, .. } => {
                let kind = if urn == sos_core::constants::LOGIN_AGE_KEY_URN { "age-identity" } else { "folder-password" };
                let s = key.expose_secret().to_string();
                reg.add_text(format!("{tag}.age identity {urn}"), kind, &s);
                ks.classes.insert(format!("keys/{kind}"));
                // the raw x25519 secret behind the bech32 string
                if let Ok((_, data, _)) = bech32::decode(&s) {
                    use bech32::FromBase32;
                    if let Ok(raw) = Vec::<u8>::from_base32(&data) {
                        reg.add_bytes(format!("{tag}.age identity {urn} (raw key bytes)"), kind, &raw);
                        ks.classes.insert(format!("keys/{kind}-raw"));
                    }
                }
            }
            _ => {}
        }
    }
}

// ---------------------------------------------------------------------------
// Scanning a case
// ---------------------------------------------------------------------------

struct CaseScan {
    reg: Registry,
    stats: ScanStats,
    scans: u64,
    audit_start: u64,
    tracing_on: bool,
    mode: Mode,
    /// sensitivity mode: everything that was found
    collected: BTreeMap<String, String>,
}

impl CaseScan {
    fn begin(mode: Mode) -> Self {
        let tracing_on = install_tracing_capture();
        tracing_clear();
        let audit_start = std::fs::metadata(audit_file_path()).map(|m| m.len()).unwrap_or(0);
        CaseScan { reg: Registry::default(), stats: ScanStats::default(), scans: 0, audit_start, tracing_on, mode, collected: BTreeMap::new() }
    }

    /// Scan directories plus extra blobs plus audit delta plus tracing output.
    async fn scan(&mut self, at: &str, dirs: &[(&Path, Side, &str)], extra: Vec<Blob>) -> CheckResult {
        let mut blobs = extra;
        let mut st = ScanStats::default();
        for (dir, side, label) in dirs {
            collect_dir(dir, *side, label, &mut blobs, &mut st).await.map_err(|e| Failure::new("harness/scan-collect", e))?;
        }
        st.wire_buffers = blobs.iter().filter(|b| b.place == "wire").count();
        if let Ok(all) = std::fs::read(audit_file_path()) {
            let from = (self.audit_start as usize).min(all.len());
            st.audit_bytes = (all.len() - from) as u64;
            blobs.push(Blob { place: "audit".into(), name: "audit trail (bytes appended during this case)".into(), data: all[from..].to_vec() });
        }
        if self.tracing_on {
            let log = tracing_take();
            st.tracing_bytes = log.len() as u64;
            blobs.push(Blob { place: "tracing".into(), name: "captured tracing output".into(), data: log });
        }
        self.stats.absorb(&st);
        self.scans += 1;
        let matcher = Matcher::new(&self.reg);
        let allow: &[&str] = &[];
        let found = scan(&self.reg, &matcher, &blobs, allow);
        if self.mode.sensitivity {
            for f in found {
                self.collected.entry(f.signature).or_insert(f.message);
            }
            return Ok(());
        }
        // "folder-name" needles exist in sensitivity mode only
        // report the smallest signature so that the same set of leaks always gets the same name
        if let Some(first) = found.iter().min_by(|a, b| a.signature.cmp(&b.signature)) {
            let sigs = by_signature(&found);
            return Err(Failure::new(
                first.signature.clone(),
                format!("{at}: {}{}", first.message, if found.len() > 1 { format!(" (and {} more hits; signatures {:?})", found.len() - 1, sigs.keys().collect::<Vec<_>>()) } else { String::new() }),
            ));
        }
        Ok(())
    }
}

fn fill_stats(info: &mut CaseInfo, cs: &CaseScan, wr: &Written, ks: &KeyStats) {
    let s = &cs.stats;
    info.inner_evals = cs.scans;
    info.class(format!("kinds-written/{}", wr.kinds.len().min(15)));
    for k in &wr.kinds {
        info.class(format!("kind/{}", KIND_NAMES[*k as usize]));
    }
    for k in cs.reg.kinds() {
        info.class(format!("needle/{k}"));
    }
    for c in &ks.classes {
        info.class(c.clone());
    }
    for (name, n) in [
        ("sqlite-file", s.sqlite_files),
        ("event-log", s.event_logs),
        ("vault-file", s.vault_files),
        ("blob-file", s.blob_files),
        ("archive", s.archives),
        ("archive-entry", s.archive_entries),
        ("wire-buffer", s.wire_buffers),
        ("audit-bytes", s.audit_bytes as usize),
        ("tracing-bytes", s.tracing_bytes as usize),
    ] {
        if n > 0 {
            info.class(format!("scanned/{name}"));
        }
    }
    if !cs.tracing_on {
        info.class("tracing-capture-off");
    }
    for n in &s.other_names {
        info.class(format!("scanned/other-file/.{n}"));
    }
    if cs.reg.too_short > 0 {
        info.class("needle-too-short-skipped");
    }
    if wr.not_live > 0 {
        info.class("marker-not-live-in-secret(skipped)");
    }
}

// ---------------------------------------------------------------------------
// Sub-check `local`
// ---------------------------------------------------------------------------

fn attachment_bytes(seed: u64, len: u16) -> (Vec<u8>, [u8; 24]) {
    let n = 64 + (len as usize % 3000);
    let marker = byte_marker(seed, "attachment.bytes");
    let at = (seed as usize % 40) + 3;
    let mut v: Vec<u8> = (0..n).map(|i| (i as u8).wrapping_mul(29) ^ 0x5a).collect();
    v[at..at + 24].copy_from_slice(&marker);
    (v, marker)
}

pub fn check_local(c: &LocalCase, mode: Mode) -> (CaseInfo, CheckResult, BTreeMap<String, String>) {
    let mut info = CaseInfo::default();
    let mut collected = BTreeMap::new();
    let r = block_on(async {
        sos_core::verif::set_clock(Some((1_700_000_000i128 * 1_000_000_000, 1_000_003)));
        let res = run_local(c, mode, &mut info, &mut collected).await;
        sos_core::verif::set_clock(None);
        res
    });
    (info, r, collected)
}

async fn run_local(c: &LocalCase, mode: Mode, info: &mut CaseInfo, collected: &mut BTreeMap<String, String>) -> CheckResult {
    let mut cs = CaseScan::begin(mode);
    let mut wr = Written::default();
    let mut ks = KeyStats::default();
    let mut w = AcctWorld::new(&c.cfg).await?;
    info.class(c.cfg.label());
    let case_dir = tempfile::Builder::new().prefix("sv-c03-case-").tempdir().map_err(hf("harness/tempdir", "case dir"))?;
    let plain_dir = tempfile::Builder::new().prefix("sv-c03-plain-").tempdir().map_err(hf("harness/tempdir", "plain dir"))?;
    let data_dir = w.temp.clone();
    register_keys(&w.account, &[w.password.clone()], &mut cs.reg, "account", &mut ks).await;
    if mode.sensitivity {
        // an identifier (allowed in the clear): shows that hex forms, audit trail and tracing are reached
        cs.reg.add_bytes("account id (20 raw bytes)", "account-id", w.account_id.as_ref());
    }
    let res = async {
        cs.scan("after account creation", &[(data_dir.path(), Side::Client, "client")], vec![]).await?;
        let all_ops = c.ops.iter().map(|o| ("op", o)).chain(c.rewrites.iter().map(|o| ("rewrite", o)));
        let mut attach_done = c.attach.is_none();
        for (i, (phase, op)) in all_ops.enumerate() {
            if phase == "rewrite" && !attach_done {
                attach_done = true;
                attach(&mut w, c, &mut cs, &mut wr, plain_dir.path(), info).await;
                cs.scan("after attaching an external file", &[(data_dir.path(), Side::Client, "client")], vec![]).await?;
            }
            let path = format!("{phase}[{}]", if phase == "op" { i } else { i - c.ops.len() });
            let mut op = op.clone();
            if mode.sensitivity {
                sens_mark_folder_name(c.seed, &path, &mut op, &mut cs.reg);
            }
            register_op(&mut cs.reg, &mut wr, &path, &op);
            if let Err(f) = w.apply(&op).await {
                info.class(format!("op-error/{}", f.signature));
            }
            // passwords that now exist
            if matches!(op, Op::ChangeFolderPassword { .. } | Op::ChangeAccountPassword { .. } | Op::CreateFolder { .. } | Op::ChangeCipher { .. }) {
                for f in w.model.folders.clone() {
                    if let Ok(AccessKey::Password(p)) = w.folder_key(&f.id).await {
                        cs.reg.add_text(format!("{path}: delegated password of folder {}", f.id), "folder-password", p.expose_secret());
                    }
                }
                cs.reg.add_text(format!("{path}: account password"), "account-password", w.password.expose_secret());
            }
            cs.scan(&format!("after {path} {}", crate::prop_c01::op_label(&op)), &[(data_dir.path(), Side::Client, "client")], vec![]).await?;
        }
        if !attach_done {
            attach(&mut w, c, &mut cs, &mut wr, plain_dir.path(), info).await;
        }
        // everything the identity vault holds now
        register_keys(&w.account, &[w.password.clone()], &mut cs.reg, "account (end of history)", &mut ks).await;
        let archive = case_dir.path().join("backup.zip");
        match w.account.export_backup_archive(&archive).await {
            Ok(_) => info.class(if c.cfg.db { "archive/v3" } else { "archive/v2" }),
            Err(_) => info.class("export-error"),
        }
        cs.scan("after export_backup_archive", &[(data_dir.path(), Side::Client, "client"), (case_dir.path(), Side::Client, "export")], vec![]).await?;
        if w.account.sign_out().await.is_err() {
            info.class("sign-out-error");
        }
        cs.scan("after sign-out", &[(data_dir.path(), Side::Client, "client"), (case_dir.path(), Side::Client, "export")], vec![]).await?;
        Ok(())
    }
    .await;
    fill_stats(info, &cs, &wr, &ks);
    let s = &cs.stats;
    info.nontrivial = wr.kinds.len() >= 5 && s.archives >= 1 && s.archive_entries >= 1 && (s.sqlite_files >= 1 || s.event_logs >= 1);
    *collected = std::mem::take(&mut cs.collected);
    res
}

async fn attach(w: &mut AcctWorld, c: &LocalCase, cs: &mut CaseScan, wr: &mut Written, plain_dir: &Path, info: &mut CaseInfo) {
    let Some(a) = &c.attach else { return };
    let (bytes, marker) = attachment_bytes(c.seed, a.len);
    let name_token = token(c.seed, "attachment.file-name");
    let path = plain_dir.join(format!("{name_token}.txt"));
    if std::fs::write(&path, &bytes).is_err() {
        info.class("attachment-write-error");
        return;
    }
    cs.reg.add_bytes("attachment.bytes (external file)", "attachment", &marker);
    cs.reg.add_text("attachment.file-name (external file)", "field", &name_token);
    wr.field_kinds.insert("attachment".into());
    let fi = pick(a.folder, w.model.folders.len());
    let fid = w.model.folders[fi].id;
    let secret: Secret = match path.clone().try_into() {
        Ok(s) => s,
        Err(_) => {
            info.class("attachment-secret-error");
            return;
        }
    };
    let label_token = token(c.seed, "attachment.label");
    cs.reg.add_text("attachment.label", "label", &label_token);
    let mut meta = SecretMeta::new(format!("att {label_token}"), secret.kind());
    meta.set_date_created(time::OffsetDateTime::from_unix_timestamp(1_650_000_000).unwrap().into());
    match w.account.create_secret(meta, secret, AccessOptions { folder: Some(fid), ..Default::default() }).await {
        Ok(res) => {
            info.class("external-attachment");
            wr.kinds.insert(1);
            // keep the model usable for later ops
            if let Ok((row, _)) = w.account.read_secret(&res.id, Some(&fid)).await {
                let spec = SecretSpec { kind: 1, label: "attachment".into(), tags: vec![], favorite: false, a: String::new(), b: String::new(), big: 0, comment: None, recovery: None, fields: 0, opt: false };
                w.model.folders[fi].secrets.push(MSecret { id: res.id, meta: proj_meta(row.meta()), secret: proj_secret(row.secret()), spec });
            }
        }
        Err(_) => info.class("attachment-create-error"),
    }
}

fn sens_mark_folder_name(seed: u64, path: &str, op: &mut Op, reg: &mut Registry) {
    match op {
        Op::CreateFolder { name, .. } | Op::RenameFolder { name, .. } => {
            let t = token(seed, &format!("{path}.folder-name"));
            *name = format!("{name} {t}");
            reg.add_text(format!("{path}.folder-name"), "folder-name", &t);
        }
        _ => {}
    }
}

// ---------------------------------------------------------------------------
// Sub-check `sync`
// ---------------------------------------------------------------------------

pub fn check_sync(c: &SyncCase, mode: Mode) -> (CaseInfo, CheckResult, BTreeMap<String, String>) {
    let mut info = CaseInfo::default();
    let mut collected = BTreeMap::new();
    let r = block_on(async {
        let res = run_sync(c, mode, &mut info, &mut collected).await;
        sos_core::verif::set_clock(None);
        res
    });
    (info, r, collected)
}

async fn apply_sedit(w: &mut SyncWorld, d: usize, e: &SEdit, info: &mut CaseInfo) -> bool {
    w.enter(d);
    let r = apply_sedit_inner(w, d, e).await;
    w.leave(d);
    match r {
        Ok(applied) => applied,
        Err(f) => {
            info.class(format!("edit-error/{}", f.signature));
            false
        }
    }
}

async fn apply_sedit_inner(w: &mut SyncWorld, d: usize, e: &SEdit) -> Result<bool, Failure> {
    let account = w.devices[d].account.clone();
    let mut a = account.lock().await;
    let list = listing(&a).await?;
    let flat: Vec<(VaultId, SecretId)> = list.iter().flat_map(|(f, ids)| ids.iter().map(move |i| (*f, *i))).collect();
    match e {
        SEdit::Create { folder, spec } => {
            let fid = list[pick(*folder, list.len())].0;
            let (m, s) = build_secret(spec);
            a.create_secret(m, s, AccessOptions { folder: Some(fid), ..Default::default() }).await.map_err(hf("create-secret", "create_secret"))?;
        }
        SEdit::Update { sec, spec } => {
            if flat.is_empty() {
                return Ok(false);
            }
            let (fid, sid) = flat[pick(*sec, flat.len())];
            let (m, s) = build_secret(spec);
            a.update_secret(&sid, m, Some(s), AccessOptions { folder: Some(fid), ..Default::default() }).await.map_err(hf("update-secret", "update_secret"))?;
        }
        SEdit::Delete { sec } => {
            if flat.is_empty() {
                return Ok(false);
            }
            let (fid, sid) = flat[pick(*sec, flat.len())];
            a.delete_secret(&sid, AccessOptions { folder: Some(fid), ..Default::default() }).await.map_err(hf("delete-secret", "delete_secret"))?;
        }
        SEdit::SetDescription { folder, text } => {
            let fid = list[pick(*folder, list.len())].0;
            a.set_folder_description(&fid, text).await.map_err(hf("set-description", "set_folder_description"))?;
        }
        SEdit::CreateFolder { name } => {
            if list.len() >= 4 {
                return Ok(false);
            }
            let options = NewFolderOptions { name: name.clone(), flags: None, key: None, cipher: Some(w.cfg.cipher()), kdf: Some(w.cfg.kdf()) };
            a.create_folder(options).await.map_err(hf("create-folder", "create_folder"))?;
        }
        SEdit::RenameFolder { folder, name } => {
            let fid = list[pick(*folder, list.len())].0;
            a.rename_folder(&fid, name.clone()).await.map_err(hf("rename-folder", "rename_folder"))?;
        }
    }
    Ok(true)
}

fn register_sedit(reg: &mut Registry, wr: &mut Written, path: &str, e: &SEdit) {
    match e {
        SEdit::Create { spec, .. } | SEdit::Update { spec, .. } => register_spec(reg, wr, path, spec, false),
        SEdit::SetDescription { text, .. } => {
            for t in tokens_in(text) {
                reg.add_text(format!("{path}.description"), "description", &t);
                wr.field_kinds.insert("description".into());
            }
        }
        _ => {}
    }
}

fn packs_of_vault(v: &Vault) -> Vec<AeadPack> {
    let mut out = vec![];
    if let Some(m) = v.header().meta() {
        out.push(m.clone());
    }
    for (_, VaultCommit(_, VaultEntry(a, b))) in v.iter() {
        out.push(a.clone());
        out.push(b.clone());
    }
    out
}

/// Every AeadPack in the server's identity and folder logs must fail to decrypt
/// under an unrelated key. Returns the number of packs tried.
async fn server_packs_stay_sealed(w: &SyncWorld, seed: u64) -> Result<usize, Failure> {
    let logs = {
        let sv = w.server.read().await;
        match sv.storage.as_ref() {
            Some(st) => all_logs(st).await?,
            None => return Ok(0),
        }
    };
    let key_bytes = {
        use sha2::{Digest, Sha256};
        let mut h = Sha256::new();
        h.update(b"c03-unrelated-key");
        h.update(seed.to_le_bytes());
        h.finalize().to_vec()
    };
    let pem = pem::encode(&pem::Pem::new("PRIVATE KEY", key_bytes));
    let key = PrivateKey::Symmetric(DerivedPrivateKey::from_pem(&pem).map_err(hf("harness/unrelated-key", "DerivedPrivateKey::from_pem"))?);
    let mut tried = 0usize;
    for (name, recs) in &logs {
        if !(name == "identity" || name.starts_with("folder:")) {
            continue;
        }
        for (i, r) in recs.iter().enumerate() {
            let Ok(ev) = sos_core::decode::<WriteEvent>(&r.bytes).await else { continue };
            let packs: Vec<AeadPack> = match &ev {
                WriteEvent::CreateVault(bytes) => match sos_core::decode::<Vault>(bytes).await {
                    Ok(v) => packs_of_vault(&v),
                    Err(_) => vec![],
                },
                WriteEvent::SetVaultMeta(p) => vec![p.clone()],
                WriteEvent::CreateSecret(_, VaultCommit(_, VaultEntry(a, b))) | WriteEvent::UpdateSecret(_, VaultCommit(_, VaultEntry(a, b))) => vec![a.clone(), b.clone()],
                _ => vec![],
            };
            for p in packs {
                tried += 1;
                for cipher in [Cipher::AesGcm256, Cipher::XChaCha20Poly1305] {
                    if cipher.decrypt_symmetric(&key, &p).await.is_ok() {
                        return Err(Failure::new(
                            "c03/server-pack-decrypts-under-unrelated-key",
                            format!("event #{i} of the server's log {name}: an encrypted blob ({} bytes) decrypts with {cipher} under a key unrelated to the account", p.ciphertext.len()),
                        ));
                    }
                }
            }
        }
    }
    Ok(tried)
}

fn wire_blobs(w: &SyncWorld) -> Vec<Blob> {
    w.tap.wire.lock().unwrap().iter().enumerate().map(|(i, b)| Blob { place: "wire".into(), name: format!("wire buffer #{i}"), data: b.clone() }).collect()
}

async fn run_sync(c: &SyncCase, mode: Mode, info: &mut CaseInfo, collected: &mut BTreeMap<String, String>) -> CheckResult {
    let mut cs = CaseScan::begin(mode);
    let mut wr = Written::default();
    let mut ks = KeyStats::default();
    let mut w = SyncWorld::new(&c.cfg, c.server_db).await?;
    // the bridges hold copies of the tap: switch capture on everywhere
    w.tap.capture = true;
    w.devices[0].bridge.client.tap.capture = true;
    info.class(format!("{}{}", c.cfg.label(), if c.server_db { "/server-sqlite" } else { "/server-fs" }));
    let mut syncs_ok = 0usize;
    let mut packs_tried = 0usize;
    if mode.sensitivity {
        cs.reg.add_bytes("account id (20 raw bytes)", "account-id", w.account_id.as_ref());
    }
    let mut account_pw_changed = false;
    let res = async {
        {
            let a = w.devices[0].account.clone();
            let a = a.lock().await;
            register_keys(&*a, &[w.password.clone()], &mut cs.reg, "device 0", &mut ks).await;
        }
        for (i, e) in c.pre.iter().enumerate() {
            let path = format!("pre[{i}]");
            let mut e = e.clone();
            if mode.sensitivity {
                sens_mark_sedit_name(c.seed, &path, &mut e, &mut cs.reg);
            }
            register_sedit(&mut cs.reg, &mut wr, &path, &e);
            apply_sedit(&mut w, 0, &e, info).await;
        }
        for _ in 0..2 {
            match w.sync(0).await {
                Ok(_) => syncs_ok += 1,
                Err(e) => info.class(format!("sync-error/{}", errclass(&e))),
            }
        }
        w.clone_device(0).await?;
        w.devices[1].bridge.client.tap.capture = true;
        for d in 0..2 {
            for (i, e) in c.offline.get(d).cloned().unwrap_or_default().iter().enumerate() {
                let path = format!("offline[{d}][{i}]");
                let mut e = e.clone();
                if mode.sensitivity {
                    sens_mark_sedit_name(c.seed, &path, &mut e, &mut cs.reg);
                }
                register_sedit(&mut cs.reg, &mut wr, &path, &e);
                apply_sedit(&mut w, d, &e, info).await;
            }
        }
        let order: Vec<usize> = c.order.iter().map(|x| (*x as usize) % 2).collect();
        for d in order {
            match w.sync(d).await {
                Ok(_) => syncs_ok += 1,
                Err(e) => info.class(format!("sync-error/{}", errclass(&e))),
            }
        }
        for _pass in 0..4 {
            let before = statuses(&w).await?;
            for d in 0..2 {
                match w.sync(d).await {
                    Ok(_) => syncs_ok += 1,
                    Err(e) => info.class(format!("sync-error/{}", errclass(&e))),
                }
            }
            if statuses(&w).await? == before {
                break;
            }
        }
        {
            let trace = w.tap.trace.lock().unwrap();
            for t in trace.iter() {
                info.class(format!("request/{}", t.request));
            }
        }
        scan_sync_world(&mut cs, &w, "after the syncs").await?;
        packs_tried += server_packs_stay_sealed(&w, c.seed).await?;

        if c.rekey & 3 != 0 {
            account_pw_changed = rekey(&mut w, c, &mut cs, info).await;
            for d in 0..2 {
                match w.sync(d).await {
                    Ok(_) => syncs_ok += 1,
                    Err(e) => info.class(format!("sync-error-after-rekey/{}", errclass(&e))),
                }
            }
            scan_sync_world(&mut cs, &w, "after the password change and its forced update").await?;
            packs_tried += server_packs_stay_sealed(&w, c.seed ^ 1).await?;
        }
        // final key material of both devices
        for d in 0..2 {
            let a = w.devices[d].account.clone();
            let a = a.lock().await;
            let mut pws = vec![w.password.clone()];
            if account_pw_changed {
                pws.push(SecretString::from(c.new_passwords.1.clone()));
            }
            register_keys(&*a, &pws, &mut cs.reg, &format!("device {d} (end)"), &mut ks).await;
        }
        for d in 0..2 {
            let a = w.devices[d].account.clone();
            let mut a = a.lock().await;
            let _ = a.sign_out().await;
        }
        scan_sync_world(&mut cs, &w, "after sign-out of both devices").await?;
        Ok(())
    }
    .await;
    fill_stats(info, &cs, &wr, &ks);
    info.inner_evals += packs_tried as u64;
    if packs_tried > 0 {
        info.class("server-packs-tried-with-unrelated-key");
    }
    let s = &cs.stats;
    info.nontrivial = wr.kinds.len() >= 5 && syncs_ok >= 1 && s.wire_buffers >= 1 && (s.sqlite_files >= 1 || s.event_logs >= 1);
    *collected = std::mem::take(&mut cs.collected);
    res
}

fn errclass(e: &sos_net::Error) -> String {
    let s: String = e.to_string().chars().filter(|c| !c.is_ascii_digit()).collect();
    s.split_whitespace().take(4).collect::<Vec<_>>().join("-").chars().take(40).collect()
}

async fn statuses(w: &SyncWorld) -> Result<Vec<String>, Failure> {
    let mut v = vec![];
    for d in 0..w.devices.len() {
        v.push(w.device_status(d).await?.root.to_string());
    }
    v.push(w.server_status().await?.map(|s| s.root.to_string()).unwrap_or_default());
    Ok(v)
}

async fn scan_sync_world(cs: &mut CaseScan, w: &SyncWorld, at: &str) -> CheckResult {
    let server_dir = {
        let sv = w.server.read().await;
        sv.temp.path().to_path_buf()
    };
    let d0 = w.devices[0].temp.path().to_path_buf();
    let d1 = w.devices.get(1).map(|d| d.temp.path().to_path_buf());
    let mut dirs: Vec<(&Path, Side, &str)> = vec![(d0.as_path(), Side::Client, "device0"), (server_dir.as_path(), Side::Server, "server")];
    if let Some(p) = d1.as_ref() {
        dirs.push((p.as_path(), Side::Client, "device1"));
    }
    cs.scan(at, &dirs, wire_blobs(w)).await
}

/// Password changes on device 0 followed by the forced update NetworkAccount sends.
async fn rekey(w: &mut SyncWorld, c: &SyncCase, cs: &mut CaseScan, info: &mut CaseInfo) -> bool {
    let mut changed = false;
    w.enter(0);
    let account = w.devices[0].account.clone();
    let client = w.devices[0].bridge.client.clone();
    {
        let mut a = account.lock().await;
        if c.rekey & 1 != 0 {
            if let Ok(list) = listing(&a).await {
                let fid = list[0].0;
                let new_pw = c.new_passwords.0.clone();
                for t in tokens_in(&new_pw) {
                    cs.reg.add_text("rekey.new folder password", "folder-password", &t);
                }
                let key: AccessKey = SecretString::from(new_pw).into();
                match a.change_folder_password(&fid, key).await {
                    Ok(_) => {
                        info.class("rekey/folder-password");
                        let identity = match a.identity_log().await {
                            Ok(l) => l.read().await.diff_unchecked().await.ok(),
                            Err(_) => None,
                        };
                        let mut folders = std::collections::HashMap::new();
                        if let Ok(l) = a.folder_log(&fid).await {
                            if let Ok(d) = l.read().await.diff_unchecked().await {
                                folders.insert(fid, d);
                            }
                        }
                        let updates = UpdateSet { identity, folders, ..Default::default() };
                        match client.update_account(updates).await {
                            Ok(_) => info.class("rekey/update-set-sent"),
                            Err(_) => info.class("rekey/update-set-refused"),
                        }
                    }
                    Err(_) => info.class("rekey/folder-password-error"),
                }
            }
        }
        if c.rekey & 2 != 0 {
            let new_pw = c.new_passwords.1.clone();
            cs.reg.add_text("rekey.new account password", "account-password", &new_pw);
            match a.change_account_password(SecretString::from(new_pw)).await {
                Ok(_) => {
                    info.class("rekey/account-password");
                    changed = true;
                    let identity = match a.identity_log().await {
                        Ok(l) => l.read().await.diff_unchecked().await.ok(),
                        Err(_) => None,
                    };
                    let updates = UpdateSet { identity, ..Default::default() };
                    match client.update_account(updates).await {
                        Ok(_) => info.class("rekey/update-set-sent"),
                        Err(_) => info.class("rekey/update-set-refused"),
                    }
                }
                Err(_) => info.class("rekey/account-password-error"),
            }
        }
    }
    w.leave(0);
    changed
}

fn sens_mark_sedit_name(seed: u64, path: &str, e: &mut SEdit, reg: &mut Registry) {
    match e {
        SEdit::CreateFolder { name } | SEdit::RenameFolder { name, .. } => {
            let t = token(seed, &format!("{path}.folder-name"));
            *name = format!("{name} {t}");
            reg.add_text(format!("{path}.folder-name"), "folder-name", &t);
        }
        _ => {}
    }
}

// ---------------------------------------------------------------------------
// Sub-check `http`: the real client (NetworkAccount) against the real server
// ---------------------------------------------------------------------------

#[derive(Clone, Debug, Serialize, Deserialize, PartialEq, Eq, Hash)]
pub struct HttpCase {
    pub seed: u64,
    pub client_db: bool,
    pub server_db: bool,
    /// secrets created before the server is added (sent in the CreateSet)
    pub specs: Vec<SecretSpec>,
    pub description: String,
    pub attach_len: u16,
    /// secrets created after the server was added (each one syncs)
    pub more: Vec<SecretSpec>,
}

fn transfer_options() -> sos_net::NetworkAccountOptions {
    use std::time::Duration;
    sos_net::NetworkAccountOptions {
        file_transfer_settings: sos_net::FileTransferSettings {
            concurrent_requests: 4,
            failure_interval: Duration::from_millis(250),
            failure_expiry: Duration::from_millis(0),
            retry: sos_protocol::network_client::NetworkRetry::new(4, 0),
        },
        ..Default::default()
    }
}

pub fn check_http(c: &HttpCase, mode: Mode) -> (CaseInfo, CheckResult, BTreeMap<String, String>) {
    let mut info = CaseInfo::default();
    let mut collected = BTreeMap::new();
    let r = crate::engine_http::block_on_mt(async {
        sos_core::verif::set_clock(None);
        run_http(c, mode, &mut info, &mut collected).await
    });
    (info, r, collected)
}

fn blob_files_below(dir: &Path) -> usize {
    walkdir::WalkDir::new(dir)
        .into_iter()
        .flatten()
        .filter(|e| e.file_type().is_file())
        .filter(|e| {
            let p = e.path().to_string_lossy().to_string();
            (p.contains("/files/") || p.contains("/blobs/")) && !p.ends_with(".upload") && !p.ends_with(".download")
        })
        .count()
}

async fn run_http(c: &HttpCase, mode: Mode, info: &mut CaseInfo, collected: &mut BTreeMap<String, String>) -> CheckResult {
    use crate::engine_http::{spawn_server, ServerOptions};
    use sos_net::NetworkAccount;
    let mut cs = CaseScan::begin(mode);
    let mut wr = Written::default();
    let mut ks = KeyStats::default();
    let server = spawn_server(ServerOptions { data_dir: None, access: None, sqlite: c.server_db }).await.map_err(|e| Failure::new("harness/spawn-server", e))?;
    let server_root = server.data_dir.parent().unwrap_or(&server.data_dir).to_path_buf();
    let temp = tempfile::Builder::new().prefix("sv-c03-http-").tempdir().map_err(hf("harness/tempdir", "tempdir"))?;
    let plain_dir = tempfile::Builder::new().prefix("sv-c03-plain-").tempdir().map_err(hf("harness/tempdir", "plain dir"))?;
    let client_dir = temp.path().join("client");
    std::fs::create_dir_all(&client_dir).map_err(hf("harness/mkdir", "mkdir"))?;
    info.class(format!("client-{}/server-{}", if c.client_db { "sqlite" } else { "fs" }, if c.server_db { "sqlite" } else { "fs" }));
    let password: SecretString = format!("account pw {}", token(c.seed, "http.account-password")).into();
    let key: AccessKey = password.clone().into();
    let target = make_target(&client_dir, c.client_db).await?;
    let mut acct = NetworkAccount::new_account_with_builder("verif-account".to_string(), password.clone(), target, transfer_options(), |b| b.create_file_password(true).create_archive(true))
        .await
        .map_err(hf("harness/new-account", "NetworkAccount::new_account_with_builder"))?;
    acct.sign_in(&key).await.map_err(hf("harness/sign-in", "sign_in"))?;
    let default_folder = acct.default_folder().await.ok_or_else(|| Failure::new("harness/no-default-folder", "no default folder"))?;
    let fid = *default_folder.id();
    register_keys(&acct, &[password.clone()], &mut cs.reg, "account", &mut ks).await;
    if mode.sensitivity {
        cs.reg.add_bytes("account id (20 raw bytes)", "account-id", acct.account_id().as_ref());
    }
    let mut synced = false;
    let mut blob_on_server = false;
    let res = async {
        for (i, spec) in c.specs.iter().enumerate() {
            register_spec(&mut cs.reg, &mut wr, &format!("specs[{i}]"), spec, false);
            let (m, s) = build_secret(spec);
            if acct.create_secret(m, s, AccessOptions { folder: Some(fid), ..Default::default() }).await.is_err() {
                info.class("create-error");
            }
        }
        for t in tokens_in(&c.description) {
            cs.reg.add_text("description", "description", &t);
        }
        if acct.set_folder_description(&fid, &c.description).await.is_err() {
            info.class("set-description-error");
        }
        // external file attachment
        {
            let (bytes, marker) = attachment_bytes(c.seed, c.attach_len);
            let name_token = token(c.seed, "attachment.file-name");
            let path = plain_dir.path().join(format!("{name_token}.txt"));
            std::fs::write(&path, &bytes).map_err(hf("harness/attachment", "write plaintext"))?;
            cs.reg.add_bytes("attachment.bytes (external file)", "attachment", &marker);
            cs.reg.add_text("attachment.file-name (external file)", "field", &name_token);
            let label_token = token(c.seed, "attachment.label");
            cs.reg.add_text("attachment.label", "label", &label_token);
            if let Ok(secret) = Secret::try_from(path.clone()) {
                let meta = SecretMeta::new(format!("att {label_token}"), secret.kind());
                match acct.create_secret(meta, secret, AccessOptions { folder: Some(fid), ..Default::default() }).await {
                    Ok(_) => {
                        info.class("external-attachment");
                        wr.kinds.insert(1);
                    }
                    Err(_) => info.class("attachment-create-error"),
                }
            }
        }
        cs.scan("before the server is added", &[(client_dir.as_path(), Side::Client, "client"), (server_root.as_path(), Side::Server, "server")], vec![]).await?;
        let origin: sos_core::Origin = server.url.clone().into();
        match acct.add_server(origin).await {
            Ok(Some(r)) if r.result.is_ok() => {
                synced = true;
                info.class("initial-sync-ok");
            }
            Ok(_) => info.class("initial-sync-error"),
            Err(_) => info.class("add-server-error"),
        }
        for (i, spec) in c.more.iter().enumerate() {
            register_spec(&mut cs.reg, &mut wr, &format!("more[{i}]"), spec, false);
            let (m, s) = build_secret(spec);
            if acct.create_secret(m, s, AccessOptions { folder: Some(fid), ..Default::default() }).await.is_err() {
                info.class("create-error");
            }
        }
        // wait for the upload of the blob (bounded; not reaching it is classified, not a failure)
        for _ in 0..150 {
            if blob_files_below(&server.data_dir) > 0 {
                blob_on_server = true;
                break;
            }
            tokio::time::sleep(std::time::Duration::from_millis(100)).await;
        }
        info.class(if blob_on_server { "server-blob-present" } else { "upload-not-settled" });
        register_keys(&acct, &[password.clone()], &mut cs.reg, "account (end)", &mut ks).await;
        cs.scan("after sync and file upload over HTTP", &[(client_dir.as_path(), Side::Client, "client"), (server_root.as_path(), Side::Server, "server")], vec![]).await?;
        let _ = acct.sign_out().await;
        Ok(())
    }
    .await;
    let _guard = server.shutdown().await;
    let res = match res {
        Ok(()) => cs.scan("after sign-out and server shutdown", &[(client_dir.as_path(), Side::Client, "client"), (server_root.as_path(), Side::Server, "server")], vec![]).await,
        e => e,
    };
    fill_stats(info, &cs, &wr, &ks);
    let s = &cs.stats;
    info.nontrivial = wr.kinds.len() >= 5 && synced && (s.sqlite_files >= 1 || s.event_logs >= 1);
    *collected = std::mem::take(&mut cs.collected);
    res
}

pub fn http_strategy() -> impl Strategy<Value = HttpCase> {
    (
        any::<u64>(),
        any::<bool>(),
        any::<bool>(),
        distinct_kinds(5, 7).prop_flat_map(kinds_to_specs),
        any::<u16>(),
        proptest::collection::vec(spec_skeleton(any_kind()), 0..3),
    )
        .prop_map(|(seed, client_db, server_db, mut specs, attach_len, mut more)| {
            for (i, s) in specs.iter_mut().enumerate() {
                mark_spec(seed, &format!("specs[{i}]"), s);
            }
            for (i, s) in more.iter_mut().enumerate() {
                mark_spec(seed, &format!("more[{i}]"), s);
            }
            HttpCase { seed, client_db, server_db, specs, description: format!("d {}", token(seed, "description")), attach_len, more }
        })
}

// ---------------------------------------------------------------------------
// Strategies
// ---------------------------------------------------------------------------

/// A spec skeleton of a given kind (text fields are filled in by the marking step).
fn spec_skeleton(kind: BoxedStrategy<u8>) -> impl Strategy<Value = SecretSpec> {
    (kind, 0usize..3, any::<bool>(), 0u32..2048, any::<bool>(), any::<bool>(), 0u8..4, any::<bool>()).prop_map(|(kind, ntags, favorite, big, comment, recovery, fields, opt)| {
        let big = match kind % NUM_KINDS {
            // note / page: a large payload would replace the marked text
            0 | 5 => 0,
            // embedded file: the payload is the attachment
            1 => 32 + big,
            _ => big,
        };
        SecretSpec {
            kind,
            label: String::new(),
            tags: vec![String::new(); ntags],
            favorite,
            a: String::new(),
            b: String::new(),
            big,
            comment: if comment { Some(String::new()) } else { None },
            recovery: if recovery { Some(String::new()) } else { None },
            fields,
            opt,
        }
    })
}

fn any_kind() -> BoxedStrategy<u8> {
    (0u8..NUM_KINDS).boxed()
}

fn folder_name() -> impl Strategy<Value = String> {
    "[a-z]{3,8}"
}

fn local_op() -> BoxedStrategy<Op> {
    let v: Vec<(u32, BoxedStrategy<Op>)> = vec![
        (10, (any::<u16>(), spec_skeleton(any_kind())).prop_map(|(folder, spec)| Op::CreateSecret { folder, spec }).boxed()),
        (6, (any::<u16>(), any::<bool>(), spec_skeleton(any_kind()), proptest::option::weighted(0.25, any::<u16>())).prop_map(|(sec, meta_only, spec, dest)| Op::UpdateSecret { sec, meta_only, spec, dest }).boxed()),
        (2, (any::<u16>(), any::<u16>()).prop_map(|(sec, to)| Op::MoveSecret { sec, to }).boxed()),
        (2, any::<u16>().prop_map(|sec| Op::DeleteSecret { sec }).boxed()),
        (1, any::<u16>().prop_map(|sec| Op::Archive { sec }).boxed()),
        (1, any::<u16>().prop_map(|sec| Op::Unarchive { sec }).boxed()),
        (3, (folder_name(), 0u8..4).prop_map(|(name, flags)| Op::CreateFolder { name, flags }).boxed()),
        (1, (any::<u16>(), folder_name()).prop_map(|(folder, name)| Op::RenameFolder { folder, name }).boxed()),
        (1, (any::<u16>(), 0u8..4).prop_map(|(folder, flags)| Op::SetFlags { folder, flags }).boxed()),
        (3, any::<u16>().prop_map(|folder| Op::SetDescription { folder, text: String::new() }).boxed()),
        (1, any::<u16>().prop_map(|folder| Op::DeleteFolder { folder }).boxed()),
        (1, Just(Op::LockUnlock).boxed()),
        (1, Just(Op::SignOutIn).boxed()),
        (1, Just(Op::Reopen).boxed()),
        (2, (any::<u16>(), any::<[u8; 16]>(), spec_skeleton(any_kind())).prop_map(|(folder, id, spec)| Op::FolderCreate { folder, id: IdChoice::New(id), spec }).boxed()),
        (2, (any::<u16>(), spec_skeleton(any_kind())).prop_map(|(sec, spec)| Op::FolderUpdate { sec, spec }).boxed()),
        (1, any::<u16>().prop_map(|sec| Op::FolderDelete { sec }).boxed()),
        (1, any::<u16>().prop_map(|folder| Op::CompactFolder { folder }).boxed()),
    ];
    proptest::strategy::Union::new_weighted(v).boxed()
}

fn rewrite_op() -> impl Strategy<Value = Op> {
    prop_oneof![
        2 => any::<u16>().prop_map(|folder| Op::CompactFolder { folder }),
        1 => Just(Op::CompactAccount),
        3 => any::<u16>().prop_map(|folder| Op::ChangeFolderPassword { folder, password: String::new() }),
        3 => Just(Op::ChangeAccountPassword { password: String::new() }),
        2 => (any::<bool>(), any::<bool>()).prop_map(|(xchacha, balloon)| Op::ChangeCipher { xchacha, balloon }),
    ]
}

/// `n` secret kinds, pairwise distinct, in a generated order.
fn distinct_kinds(lo: usize, hi: usize) -> impl Strategy<Value = Vec<u8>> {
    (Just((0u8..NUM_KINDS).collect::<Vec<u8>>()).prop_shuffle(), lo..=hi).prop_map(|(mut v, n)| {
        v.truncate(n);
        v
    })
}

fn kinds_to_specs(kinds: Vec<u8>) -> BoxedStrategy<Vec<SecretSpec>> {
    kinds.into_iter().map(|k| spec_skeleton(Just(k).boxed()).boxed()).collect::<Vec<_>>().boxed()
}

pub fn local_strategy(max_ops: usize) -> impl Strategy<Value = LocalCase> {
    (
        any::<u64>(),
        cfg_strategy(),
        distinct_kinds(5, 8).prop_flat_map(kinds_to_specs),
        proptest::option::weighted(0.8, (folder_name(), 0u8..4)),
        proptest::collection::vec(any::<u16>(), 8),
        proptest::collection::vec(local_op(), 0..max_ops),
        proptest::option::weighted(0.3, (any::<u16>(), any::<u16>())),
        proptest::collection::vec(rewrite_op(), 0..4),
    )
        .prop_map(|(seed, cfg, specs, first_folder, folders, tail, attach, mut rewrites)| {
            let mut ops = vec![];
            if let Some((name, flags)) = first_folder {
                ops.push(Op::CreateFolder { name, flags });
                ops.push(Op::SetDescription { folder: u16::MAX, text: String::new() });
            }
            for (i, spec) in specs.into_iter().enumerate() {
                ops.push(Op::CreateSecret { folder: folders[i % folders.len()], spec });
            }
            ops.extend(tail);
            for (i, op) in ops.iter_mut().enumerate() {
                mark_op(seed, &format!("op[{i}]"), op);
            }
            for (i, op) in rewrites.iter_mut().enumerate() {
                mark_op(seed, &format!("rewrite[{i}]"), op);
            }
            LocalCase { seed, cfg, ops, attach: attach.map(|(folder, len)| Attach { folder, len }), rewrites }
        })
}

fn sedit() -> impl Strategy<Value = SEdit> {
    prop_oneof![
        5 => (prop_oneof![Just(0u16), any::<u16>()], spec_skeleton(any_kind())).prop_map(|(folder, spec)| SEdit::Create { folder, spec }),
        4 => (prop_oneof![Just(0u16), Just(40000u16), any::<u16>()], spec_skeleton(any_kind())).prop_map(|(sec, spec)| SEdit::Update { sec, spec }),
        1 => any::<u16>().prop_map(|sec| SEdit::Delete { sec }),
        2 => prop_oneof![Just(0u16), any::<u16>()].prop_map(|folder| SEdit::SetDescription { folder, text: String::new() }),
        1 => folder_name().prop_map(|name| SEdit::CreateFolder { name }),
        1 => (any::<u16>(), folder_name()).prop_map(|(folder, name)| SEdit::RenameFolder { folder, name }),
    ]
}

pub fn sync_strategy(max_offline: usize) -> impl Strategy<Value = SyncCase> {
    (
        any::<u64>(),
        cfg_strategy(),
        any::<bool>(),
        distinct_kinds(5, 7).prop_flat_map(kinds_to_specs),
        proptest::collection::vec(any::<u16>(), 7),
        proptest::option::weighted(0.5, folder_name()),
        proptest::collection::vec(proptest::collection::vec(sedit(), 1..max_offline), 2),
        proptest::collection::vec(0u8..2, 0..3),
        prop_oneof![2 => Just(0u8), 1 => Just(1u8), 1 => Just(2u8), 1 => Just(3u8)],
    )
        .prop_map(|(seed, cfg, server_db, specs, folders, extra_folder, mut offline, order, rekey)| {
            let mut pre = vec![];
            if let Some(name) = extra_folder {
                pre.push(SEdit::CreateFolder { name });
            }
            for (i, spec) in specs.into_iter().enumerate() {
                pre.push(SEdit::Create { folder: folders[i % folders.len()], spec });
            }
            pre.push(SEdit::SetDescription { folder: 0, text: String::new() });
            for (i, e) in pre.iter_mut().enumerate() {
                mark_sedit(seed, &format!("pre[{i}]"), e);
            }
            for (d, l) in offline.iter_mut().enumerate() {
                for (i, e) in l.iter_mut().enumerate() {
                    mark_sedit(seed, &format!("offline[{d}][{i}]"), e);
                }
            }
            let new_passwords = (format!("folder pw {}", token(seed, "rekey.folder-password")), format!("account pw {}", token(seed, "rekey.account-password")));
            SyncCase { seed, cfg, server_db, pre, offline, order, rekey, new_passwords }
        })
}

// ---------------------------------------------------------------------------
// Run / replay
// ---------------------------------------------------------------------------

const SHRINK_BUDGET: u32 = 12;

fn tracing_self_test() -> Result<(), String> {
    if !install_tracing_capture() {
        return Ok(()); // another subscriber is installed (VERIF_TRACE): the place is skipped and classified
    }
    tracing_clear();
    let t = token(7, "tracing-selftest");
    tracing::debug!(target: "sos_backend", marker = %t, "c03 tracing self-test");
    tracing::trace!(target: "sos_backend", "c03 trace level line that the default filter drops");
    let got = tracing_take();
    tracing_clear();
    if !got.windows(t.len()).any(|w| w == t.as_bytes()) {
        return Err("a debug event of target sos_backend was not captured".into());
    }
    if String::from_utf8_lossy(&got).contains("trace level line") {
        return Err("the capture filter is wider than the product default".into());
    }
    Ok(())
}

fn run(shard: &Shard, rep: &mut Report) {
    crate::engine_http::silence_stdout();
    let t = shard.tier;
    match self_test(process_dir()).and_then(|n| tracing_self_test().map(|_| n)) {
        Ok(n) => {
            if shard.index == 0 {
                rep.notes.push(format!("scanner self-test passed: {n} planted encodings found, negative buffer silent, tracing capture {}", if install_tracing_capture() { "on" } else { "off (another global subscriber is installed)" }));
            }
        }
        Err(e) => {
            rep.inconclusive.push(format!("C03 scanner self-test failed: {e}"));
            return;
        }
    }
    let mode = Mode::default();
    drive(shard, rep, "local", shard.share(t.pick(80, 1000)), local_strategy(t.pick(11, 26)), with_shrink_budget(shard, SHRINK_BUDGET, |c| {
        let (i, r, _) = check_local(c, mode);
        (i, r)
    }));
    drive(shard, rep, "sync", shard.share(t.pick(48, 500)), sync_strategy(t.pick(5, 7)), with_shrink_budget(shard, SHRINK_BUDGET, |c| {
        let (i, r, _) = check_sync(c, mode);
        (i, r)
    }));
    drive(shard, rep, "http", shard.share(t.pick(16, 96)), http_strategy(), with_shrink_budget(shard, 6, |c| {
        let (i, r, _) = check_http(c, mode);
        (i, r)
    }));
}

fn replay(_shard: &Shard, sub: &str, case: &Value) -> CheckResult {
    self_test(process_dir()).and_then(|_| tracing_self_test()).map_err(|e| Failure::new("harness/c03-selftest", e))?;
    if sub == "sync" {
        let c: SyncCase = from_case(case).map_err(|e| Failure::new("harness", e))?;
        check_sync(&c, Mode::default()).1
    } else if sub == "http" {
        let c: HttpCase = from_case(case).map_err(|e| Failure::new("harness", e))?;
        crate::engine_http::with_silenced_stdout(|| check_http(&c, Mode::default())).1
    } else {
        let c: LocalCase = from_case(case).map_err(|e| Failure::new("harness", e))?;
        check_local(&c, Mode::default()).1
    }
}

// ---------------------------------------------------------------------------
// Sensitivity: folder names (allowed in the clear) carry markers
// ---------------------------------------------------------------------------

/// `sv c03-sensitivity [n]`: run generated cases with markers in folder names and
/// print where the scanner sees them. Every place / encoding reached by a value
/// that the product stores in the clear shows up here.
pub fn sensitivity_main(args: &[String]) -> i32 {
    init_process();
    let n: usize = args.first().and_then(|s| s.parse().ok()).unwrap_or(6);
    if let Err(e) = self_test(process_dir()).and_then(|_| tracing_self_test()) {
        eprintln!("self-test failed: {e}");
        return 2;
    }
    let shard = Shard { property: "C03".into(), tier: Tier::Quick, seed: seed_from_env(), index: 0, count: 1, known: vec![], strict: true };
    let mode = Mode { sensitivity: true };
    let mut all: BTreeMap<String, (usize, String)> = BTreeMap::new();
    use proptest::strategy::ValueTree;
    use proptest::test_runner::{Config, RngAlgorithm, TestRng, TestRunner};
    let mut runner = TestRunner::new_with_rng(Config::default(), TestRng::from_seed(RngAlgorithm::ChaCha, &shard.rng_seed("sensitivity")));
    let ls = local_strategy(11);
    let ss = sync_strategy(5);
    for i in 0..n {
        let c = ls.new_tree(&mut runner).unwrap().current();
        let (_, r, found) = check_local(&c, mode);
        println!("local case {i} ({}): {} signature(s){} {:?}", c.cfg.label(), found.len(), r.err().map(|f| format!(" [error {}]", f.signature)).unwrap_or_default(), found.keys().map(|k| k.trim_start_matches("c03/plaintext/")).collect::<Vec<_>>());
        for (k, v) in found {
            let e = all.entry(k).or_insert((0, v));
            e.0 += 1;
        }
        let c = ss.new_tree(&mut runner).unwrap().current();
        let (_, r, found) = check_sync(&c, mode);
        println!("sync case {i} ({}, server {}): {} signature(s){}", c.cfg.label(), if c.server_db { "sqlite" } else { "fs" }, found.len(), r.err().map(|f| format!(" [error {}]", f.signature)).unwrap_or_default());
        for (k, v) in found {
            let e = all.entry(k).or_insert((0, v));
            e.0 += 1;
        }
    }
    let hs = http_strategy();
    for i in 0..n.min(3) {
        let c = hs.new_tree(&mut runner).unwrap().current();
        let (info, r, found) = crate::engine_http::with_silenced_stdout(|| check_http(&c, mode));
        println!("http case {i} (client {}, server {}): {} signature(s){} classes {:?}", if c.client_db { "sqlite" } else { "fs" }, if c.server_db { "sqlite" } else { "fs" }, found.len(), r.err().map(|f| format!(" [error {}: {}]", f.signature, f.message)).unwrap_or_default(), info.classes.iter().filter(|c| c.contains("sync") || c.contains("blob") || c.contains("upload") || c.contains("error")).collect::<Vec<_>>());
        for (k, v) in found {
            let e = all.entry(k).or_insert((0, v));
            e.0 += 1;
        }
    }
    println!("--- signatures seen with markers in folder names ({} cases of each sub-check) ---", n);
    for (k, (cnt, example)) in &all {
        println!("{k}  x{cnt}\n    e.g. {example}");
    }
    let non_folder: Vec<&String> = all.keys().filter(|k| !k.contains("/folder-name/") && !k.contains("/account-id/")).collect();
    if !non_folder.is_empty() {
        println!("!!! hits that are neither folder names nor account ids: {:?}", non_folder);
        return 1;
    }
    0
}

