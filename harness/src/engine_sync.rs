//! Engine B: 2–3 devices (`LocalAccount`s on copies of one data dir) and an
//! in-process `ServerStorage`, joined by a harness `SyncClient`
//! (`DirectClient`) that calls `sos_server_storage::server_helpers` after
//! passing every request and response through the wire encoding.  The real
//! `sos_remote_sync::{RemoteSyncHandler, AutoMerge}` code runs unchanged.
use crate::engine_acct::{decrypt_vault, hf, make_target, AcctCfg};
use crate::framework::*;
use crate::secrets::*;
use async_trait::async_trait;
use futures::StreamExt;
use secrecy::SecretString;
use serde::{Deserialize, Serialize};
use serde_json::{json, Value};
use sos_account::{Account, LocalAccount};
use sos_backend::BackendTarget;
use sos_client_storage::{AccessOptions, NewFolderOptions};
use sos_core::{
    commit::CommitHash,
    crypto::AccessKey,
    events::{EventLog, EventRecord},
    AccountId, Origin, Paths, SecretId, VaultFlags, VaultId,
};
use sos_login::DelegatedAccess;
use sos_protocol::{
    transfer::{FileTransferQueueRequest, FileTransferQueueSender},
    DiffRequest, DiffResponse, PatchRequest, PatchResponse, ScanRequest,
    ScanResponse, SyncClient, SyncOptions, WireEncodeDecode,
};
use sos_remote_sync::{AutoMerge, RemoteSyncHandler};
use sos_server_storage::{server_helpers, ServerAccountStorage, ServerStorage};
use sos_sync::{
    CreateSet, ForceMerge, MergeOutcome, StorageEventLogs, SyncDirection,
    SyncPacket, SyncStatus, SyncStorage, UpdateSet,
};
use std::collections::{BTreeMap, BTreeSet};
use std::sync::{Arc, Mutex as StdMutex};
use tokio::sync::{Mutex, RwLock};

// ---------------------------------------------------------------------------
// Server side
// ---------------------------------------------------------------------------

pub struct ServerSide {
    pub temp: tempfile::TempDir,
    pub target: BackendTarget,
    pub account_id: AccountId,
    pub storage: Option<ServerStorage>,
    pub last_error: Option<String>,
}

pub type SharedServer = Arc<RwLock<ServerSide>>;

pub async fn new_server(account_id: AccountId, db: bool) -> Result<SharedServer, Failure> {
    let temp = tempfile::Builder::new()
        .prefix("sv-server-")
        .tempdir()
        .map_err(hf("harness/tempdir", "tempdir"))?;
    let paths = Paths::new_server(temp.path());
    let target = if db {
        let db_file = paths.database_file().clone();
        if let Some(p) = db_file.parent() {
            std::fs::create_dir_all(p).ok();
        }
        let mut client = sos_database::open_file(&db_file)
            .await
            .map_err(hf("harness/db-open", "open server db"))?;
        sos_database::migrations::migrate_client(&mut client)
            .await
            .map_err(hf("harness/db-migrate", "migrate server db"))?;
        BackendTarget::Database(paths, client)
    } else {
        Paths::scaffold(paths.documents_dir())
            .await
            .map_err(hf("harness/scaffold", "scaffold server"))?;
        BackendTarget::FileSystem(paths)
    };
    Ok(Arc::new(RwLock::new(ServerSide {
        temp,
        target,
        account_id,
        storage: None,
        last_error: None,
    })))
}

/// One line of the request trace.
#[derive(Clone, Debug)]
pub struct TraceEntry {
    pub device: usize,
    pub request: &'static str,
    pub bytes_out: usize,
    pub bytes_in: usize,
}

impl TraceEntry {
    pub fn is_write(&self) -> bool {
        matches!(self.request, "sync" | "patch" | "update" | "create")
    }
}

#[derive(Clone, Default)]
pub struct Tap {
    pub trace: Arc<StdMutex<Vec<TraceEntry>>>,
    /// every wire buffer (requests and responses) when capture is on
    pub wire: Arc<StdMutex<Vec<Vec<u8>>>>,
    pub capture: bool,
    /// outcome of the last patch request served: Some(true) = applied, Some(false) = refused
    /// (conflict or error)
    pub last_patch: Arc<StdMutex<Option<bool>>>,
}

/// Request gate: lets a scheduler decide the order in which requests of
/// concurrently running syncs reach the server.
#[derive(Clone)]
pub struct Gate {
    pub tx: tokio::sync::mpsc::UnboundedSender<(usize, &'static str, tokio::sync::oneshot::Sender<()>)>,
}

#[derive(Clone)]
pub struct DirectClient {
    pub server: SharedServer,
    pub origin: Origin,
    pub device: usize,
    pub tap: Tap,
    pub gate: Option<Gate>,
}

type PResult<T> = Result<T, sos_protocol::Error>;

fn server_error(e: impl std::fmt::Display) -> sos_protocol::Error {
    // what a client of the real server sees for a failed request
    let _ = e;
    sos_protocol::Error::Network(sos_protocol::NetworkError::ResponseCode(http::StatusCode::INTERNAL_SERVER_ERROR))
}

impl DirectClient {
    async fn pass_gate(&self, request: &'static str) {
        if let Some(g) = &self.gate {
            let (tx, rx) = tokio::sync::oneshot::channel();
            if g.tx.send((self.device, request, tx)).is_ok() {
                let _ = rx.await;
            }
        }
    }

    /// Encode then decode a value as the real client/server pair would.
    async fn wire<T: WireEncodeDecode>(&self, v: T) -> PResult<(T, usize)> {
        let bytes = v.encode().await?;
        let n = bytes.len();
        if self.tap.capture {
            self.tap.wire.lock().unwrap().push(bytes.clone());
        }
        let back = T::decode(bytes::Bytes::from(bytes)).await?;
        Ok((back, n))
    }

    fn record(&self, request: &'static str, bytes_out: usize, bytes_in: usize) {
        self.tap.trace.lock().unwrap().push(TraceEntry {
            device: self.device,
            request,
            bytes_out,
            bytes_in,
        });
    }

    async fn fail<T>(&self, e: impl std::fmt::Display, request: &'static str) -> PResult<T> {
        let mut s = self.server.write().await;
        s.last_error = Some(format!("{request}: {e}"));
        Err(server_error(e))
    }
}

#[async_trait]
impl SyncClient for DirectClient {
    type Error = sos_protocol::Error;

    fn origin(&self) -> &Origin {
        &self.origin
    }

    async fn account_exists(&self) -> PResult<bool> {
        self.pass_gate("exists").await;
        let s = self.server.read().await;
        self.record("exists", 0, 0);
        Ok(s.storage.is_some())
    }

    async fn create_account(&self, account: CreateSet) -> PResult<()> {
        self.pass_gate("create").await;
        let (account, n) = self.wire(account).await?;
        let (target, account_id) = {
            let s = self.server.read().await;
            if s.storage.is_some() {
                return Err(sos_protocol::Error::Network(sos_protocol::NetworkError::ResponseCode(http::StatusCode::CONFLICT)));
            }
            (s.target.clone(), s.account_id)
        };
        let target = target.with_account_id(&account_id);
        match ServerStorage::create_account(target, &account_id, &account).await {
            Ok(storage) => {
                self.server.write().await.storage = Some(storage);
                self.record("create", n, 0);
                Ok(())
            }
            Err(e) => self.fail(e, "create").await,
        }
    }

    async fn update_account(&self, account: UpdateSet) -> PResult<()> {
        self.pass_gate("update").await;
        let (account, n) = self.wire(account).await?;
        let mut s = self.server.write().await;
        let Some(storage) = s.storage.as_mut() else {
            return Err(sos_protocol::Error::Network(sos_protocol::NetworkError::ResponseCode(http::StatusCode::NOT_FOUND)));
        };
        let mut outcome = MergeOutcome::default();
        let r = storage.force_merge_update(account, &mut outcome).await;
        drop(s);
        match r {
            Ok(()) => {
                self.record("update", n, 0);
                Ok(())
            }
            Err(e) => self.fail(e, "update").await,
        }
    }

    async fn fetch_account(&self) -> PResult<CreateSet> {
        self.pass_gate("fetch").await;
        let s = self.server.read().await;
        let Some(storage) = s.storage.as_ref() else {
            return Err(sos_protocol::Error::Network(sos_protocol::NetworkError::ResponseCode(http::StatusCode::NOT_FOUND)));
        };
        let r = storage.create_set().await;
        drop(s);
        match r {
            Ok(set) => {
                let (set, n) = self.wire(set).await?;
                self.record("fetch", 0, n);
                Ok(set)
            }
            Err(e) => self.fail(e, "fetch").await,
        }
    }

    async fn delete_account(&self) -> PResult<()> {
        self.pass_gate("delete").await;
        let mut s = self.server.write().await;
        if let Some(mut storage) = s.storage.take() {
            let _ = storage.delete_account().await;
        }
        Ok(())
    }

    async fn sync_status(&self) -> PResult<SyncStatus> {
        self.pass_gate("status").await;
        let s = self.server.read().await;
        let Some(storage) = s.storage.as_ref() else {
            return Err(sos_protocol::Error::Network(sos_protocol::NetworkError::ResponseCode(http::StatusCode::NOT_FOUND)));
        };
        let r = storage.sync_status().await;
        drop(s);
        match r {
            Ok(st) => {
                let (st, n) = self.wire(st).await?;
                self.record("status", 0, n);
                Ok(st)
            }
            Err(e) => self.fail(e, "status").await,
        }
    }

    async fn sync(&self, packet: SyncPacket) -> PResult<SyncPacket> {
        self.pass_gate("sync").await;
        let (packet, n_out) = self.wire(packet).await?;
        let mut s = self.server.write().await;
        let Some(storage) = s.storage.as_mut() else {
            return Err(sos_protocol::Error::Network(sos_protocol::NetworkError::ResponseCode(http::StatusCode::NOT_FOUND)));
        };
        let r = server_helpers::sync_account::<_, sos_server_storage::Error>(packet, storage).await;
        drop(s);
        match r {
            Ok((packet, _outcome)) => {
                let (packet, n_in) = self.wire(packet).await?;
                self.record("sync", n_out, n_in);
                Ok(packet)
            }
            Err(e) => self.fail(e, "sync").await,
        }
    }

    async fn scan(&self, request: ScanRequest) -> PResult<ScanResponse> {
        self.pass_gate("scan").await;
        let (request, n_out) = self.wire(request).await?;
        if request.limit > 256 {
            return Err(sos_protocol::Error::Network(sos_protocol::NetworkError::ResponseCode(http::StatusCode::BAD_REQUEST)));
        }
        let s = self.server.read().await;
        let Some(storage) = s.storage.as_ref() else {
            return Err(sos_protocol::Error::Network(sos_protocol::NetworkError::ResponseCode(http::StatusCode::NOT_FOUND)));
        };
        let r = server_helpers::event_scan::<_, sos_server_storage::Error>(&request, storage).await;
        drop(s);
        match r {
            Ok(resp) => {
                let (resp, n_in) = self.wire(resp).await?;
                self.record("scan", n_out, n_in);
                Ok(resp)
            }
            Err(e) => self.fail(e, "scan").await,
        }
    }

    async fn diff(&self, request: DiffRequest) -> PResult<DiffResponse> {
        self.pass_gate("diff").await;
        let (request, n_out) = self.wire(request).await?;
        let s = self.server.read().await;
        let Some(storage) = s.storage.as_ref() else {
            return Err(sos_protocol::Error::Network(sos_protocol::NetworkError::ResponseCode(http::StatusCode::NOT_FOUND)));
        };
        let r = server_helpers::event_diff::<_, sos_server_storage::Error>(&request, storage).await;
        drop(s);
        match r {
            Ok(resp) => {
                let (resp, n_in) = self.wire(resp).await?;
                self.record("diff", n_out, n_in);
                Ok(resp)
            }
            Err(e) => self.fail(e, "diff").await,
        }
    }

    async fn patch(&self, request: PatchRequest) -> PResult<PatchResponse> {
        self.pass_gate("patch").await;
        let (request, n_out) = self.wire(request).await?;
        let mut s = self.server.write().await;
        let Some(storage) = s.storage.as_mut() else {
            return Err(sos_protocol::Error::Network(sos_protocol::NetworkError::ResponseCode(http::StatusCode::NOT_FOUND)));
        };
        let r = server_helpers::event_patch::<_, sos_server_storage::Error>(request, storage).await;
        drop(s);
        *self.tap.last_patch.lock().unwrap() = Some(matches!(&r, Ok((resp, _)) if matches!(resp.checked_patch, sos_core::events::patch::CheckedPatch::Success(_))));
        match r {
            Ok((resp, _outcome)) => {
                let (resp, n_in) = self.wire(resp).await?;
                self.record("patch", n_out, n_in);
                Ok(resp)
            }
            Err(e) => self.fail(e, "patch").await,
        }
    }
}

// ---------------------------------------------------------------------------
// Bridge: the real RemoteSyncHandler / AutoMerge over the direct client
// ---------------------------------------------------------------------------

#[derive(Clone)]
pub struct Bridge {
    pub account_id: AccountId,
    pub account: Arc<Mutex<LocalAccount>>,
    pub client: DirectClient,
    pub queue: FileTransferQueueSender,
}

#[async_trait]
impl RemoteSyncHandler for Bridge {
    type Client = DirectClient;
    type Account = LocalAccount;
    type Error = sos_net::Error;

    fn direction(&self) -> SyncDirection {
        SyncDirection::Push
    }
    fn client(&self) -> &Self::Client {
        &self.client
    }
    fn origin(&self) -> &Origin {
        self.client.origin()
    }
    fn account_id(&self) -> &AccountId {
        &self.account_id
    }
    fn account(&self) -> Arc<Mutex<Self::Account>> {
        self.account.clone()
    }
    fn file_transfer_queue(&self) -> &FileTransferQueueSender {
        &self.queue
    }
    async fn execute_sync_file_transfers(&self) -> Result<(), Self::Error> {
        Ok(())
    }
}

#[async_trait]
impl AutoMerge for Bridge {}

// ---------------------------------------------------------------------------
// Devices
// ---------------------------------------------------------------------------

pub struct Device {
    pub idx: usize,
    pub temp: tempfile::TempDir,
    pub account: Arc<Mutex<LocalAccount>>,
    pub bridge: Bridge,
    /// virtual clock (unix nanos, step)
    pub clock: (i128, i128),
}

pub struct SyncWorld {
    pub cfg: AcctCfg,
    pub server_db: bool,
    pub account_id: AccountId,
    pub password: SecretString,
    pub server: SharedServer,
    pub devices: Vec<Device>,
    pub tap: Tap,
}

pub const BASE_TIME: i128 = 1_700_000_000i128 * 1_000_000_000;

fn copy_dir(src: &std::path::Path, dst: &std::path::Path) -> std::io::Result<()> {
    std::fs::create_dir_all(dst)?;
    for e in std::fs::read_dir(src)? {
        let e = e?;
        let to = dst.join(e.file_name());
        if e.file_type()?.is_dir() {
            copy_dir(&e.path(), &to)?;
        } else {
            std::fs::copy(e.path(), &to)?;
        }
    }
    Ok(())
}

pub fn make_bridge(idx: usize, account_id: AccountId, account: Arc<Mutex<LocalAccount>>, server: &SharedServer, tap: &Tap) -> Bridge {
    let (queue, _) = tokio::sync::broadcast::channel::<FileTransferQueueRequest>(32);
    let origin = Origin::new("direct".to_string(), "http://127.0.0.1:5053".parse().unwrap());
    Bridge {
        account_id,
        account,
        client: DirectClient {
            server: server.clone(),
            origin,
            device: idx,
            tap: tap.clone(),
            gate: None,
        },
        queue,
    }
}

impl SyncWorld {
    /// Create the account on device 0 (with archive folder) and an empty server.
    pub async fn new(cfg: &AcctCfg, server_db: bool) -> Result<Self, Failure> {
        let temp = tempfile::Builder::new()
            .prefix("sv-dev0-")
            .tempdir()
            .map_err(hf("harness/tempdir", "tempdir"))?;
        let target = make_target(temp.path(), cfg.db).await?;
        let password: SecretString = "correct horse battery staple verif".to_string().into();
        sos_core::verif::set_clock(Some((BASE_TIME, 1_000_003)));
        let mut account = LocalAccount::new_account_with_builder(
            "verif-account".to_string(),
            password.clone(),
            target,
            |b| b.create_file_password(true).create_archive(false),
        )
        .await
        .map_err(hf("harness/new-account", "new_account"))?;
        let account_id = *account.account_id();
        let key: AccessKey = password.clone().into();
        account
            .sign_in(&key)
            .await
            .map_err(hf("harness/sign-in", "first sign_in"))?;
        let clock = sos_core::verif::get_clock().unwrap_or((BASE_TIME, 1_000_003));
        let server = new_server(account_id, server_db).await?;
        let tap = Tap::default();
        let account = Arc::new(Mutex::new(account));
        let bridge = make_bridge(0, account_id, account.clone(), &server, &tap);
        Ok(SyncWorld {
            cfg: cfg.clone(),
            server_db,
            account_id,
            password,
            server,
            devices: vec![Device { idx: 0, temp, account, bridge, clock }],
            tap,
        })
    }

    /// Clone device 0's storage into a new device (both must be quiescent).
    pub async fn clone_device(&mut self, skew_nanos: i128) -> Result<usize, Failure> {
        let idx = self.devices.len();
        let temp = tempfile::Builder::new()
            .prefix(&format!("sv-dev{idx}-"))
            .tempdir()
            .map_err(hf("harness/tempdir", "tempdir"))?;
        // quiesce device 0: sign out and re-open afterwards so sqlite files are complete
        {
            let d0 = &self.devices[0];
            let mut a = d0.account.lock().await;
            a.sign_out().await.map_err(hf("harness/sign-out", "sign_out before clone"))?;
        }
        // replace device 0's account by a placeholder-free reopen after the copy
        copy_dir(self.devices[0].temp.path(), temp.path()).map_err(hf("harness/copy", "copy device dir"))?;
        let key: AccessKey = self.password.clone().into();
        {
            let d0 = &self.devices[0];
            let mut a = d0.account.lock().await;
            a.sign_in(&key).await.map_err(hf("harness/sign-in", "sign_in after clone"))?;
        }
        let target = make_target(temp.path(), self.cfg.db).await?;
        let mut account = LocalAccount::new_unauthenticated(self.account_id, target)
            .await
            .map_err(hf("harness/open-clone", "new_unauthenticated on cloned dir"))?;
        account.sign_in(&key).await.map_err(hf("harness/sign-in", "sign_in on cloned device"))?;
        let account = Arc::new(Mutex::new(account));
        let bridge = make_bridge(idx, self.account_id, account.clone(), &self.server, &self.tap);
        let base = self.devices[0].clock.0 + skew_nanos;
        self.devices.push(Device { idx, temp, account, bridge, clock: (base, 1_000_003) });
        Ok(idx)
    }

    /// Run `f` with the device's virtual clock installed.
    pub fn enter(&self, d: usize) {
        sos_core::verif::set_clock(Some(self.devices[d].clock));
    }
    pub fn leave(&mut self, d: usize) {
        if let Some(c) = sos_core::verif::get_clock() {
            self.devices[d].clock = c;
        }
    }

    /// One sync of device `d`; Ok(None) when the account was just created remotely.
    pub async fn sync(&mut self, d: usize) -> Result<Option<MergeOutcome>, sos_net::Error> {
        self.enter(d);
        let bridge = self.devices[d].bridge.clone();
        let r = bridge.execute_sync(&SyncOptions::default()).await;
        self.leave(d);
        r
    }

    pub async fn device_status(&self, d: usize) -> Result<SyncStatus, Failure> {
        let a = self.devices[d].account.lock().await;
        a.sync_status().await.map_err(hf("harness/device-status", "device sync_status"))
    }

    pub async fn server_status(&self) -> Result<Option<SyncStatus>, Failure> {
        let s = self.server.read().await;
        match s.storage.as_ref() {
            None => Ok(None),
            Some(st) => Ok(Some(st.sync_status().await.map_err(hf("harness/server-status", "server sync_status"))?)),
        }
    }
}

/// A quiescent snapshot of a whole sync world (device dirs + server dir) from
/// which identical worlds can be re-created (stateless schedule exploration).
pub struct Template {
    pub cfg: AcctCfg,
    pub server_db: bool,
    pub account_id: AccountId,
    pub password: SecretString,
    pub device_dirs: Vec<tempfile::TempDir>,
    pub clocks: Vec<(i128, i128)>,
    pub server_dir: tempfile::TempDir,
    pub server_has_account: bool,
}

async fn server_target(dir: &std::path::Path, db: bool) -> Result<BackendTarget, Failure> {
    let paths = Paths::new_server(dir);
    Ok(if db {
        let db_file = paths.database_file().clone();
        if let Some(p) = db_file.parent() {
            std::fs::create_dir_all(p).ok();
        }
        let mut client = sos_database::open_file(&db_file).await.map_err(hf("harness/db-open", "open server db"))?;
        sos_database::migrations::migrate_client(&mut client).await.map_err(hf("harness/db-migrate", "migrate server db"))?;
        BackendTarget::Database(paths, client)
    } else {
        Paths::scaffold(paths.documents_dir()).await.map_err(hf("harness/scaffold", "scaffold server"))?;
        BackendTarget::FileSystem(paths)
    })
}

impl SyncWorld {
    /// Sign everything out and keep only the directories.
    pub async fn into_template(self) -> Result<Template, Failure> {
        let mut device_dirs = vec![];
        let mut clocks = vec![];
        for d in self.devices {
            {
                let mut a = d.account.lock().await;
                a.sign_out().await.map_err(hf("harness/sign-out", "sign_out for template"))?;
            }
            clocks.push(d.clock);
            drop(d.bridge);
            drop(d.account);
            device_dirs.push(d.temp);
        }
        let server = match Arc::try_unwrap(self.server) {
            Ok(l) => l.into_inner(),
            Err(_) => return Err(Failure::new("harness/template", "server still shared")),
        };
        let has = server.storage.is_some();
        drop(server.storage);
        drop(server.target);
        Ok(Template {
            cfg: self.cfg,
            server_db: self.server_db,
            account_id: self.account_id,
            password: self.password,
            device_dirs,
            clocks,
            server_dir: server.temp,
            server_has_account: has,
        })
    }

    /// Re-create a world from copies of the template's directories.
    pub async fn from_template(t: &Template) -> Result<SyncWorld, Failure> {
        let stemp = tempfile::Builder::new().prefix("sv-server-").tempdir().map_err(hf("harness/tempdir", "tempdir"))?;
        copy_dir(t.server_dir.path(), stemp.path()).map_err(hf("harness/copy", "copy server dir"))?;
        let target = server_target(stemp.path(), t.server_db).await?;
        let storage = if t.server_has_account {
            Some(
                ServerStorage::new(target.clone(), &t.account_id)
                    .await
                    .map_err(hf("harness/server-open", "ServerStorage::new on copied dir"))?,
            )
        } else {
            None
        };
        let server: SharedServer = Arc::new(RwLock::new(ServerSide { temp: stemp, target, account_id: t.account_id, storage, last_error: None }));
        let tap = Tap::default();
        let key: AccessKey = t.password.clone().into();
        let mut devices = vec![];
        for (idx, dir) in t.device_dirs.iter().enumerate() {
            let temp = tempfile::Builder::new().prefix(&format!("sv-dev{idx}-")).tempdir().map_err(hf("harness/tempdir", "tempdir"))?;
            copy_dir(dir.path(), temp.path()).map_err(hf("harness/copy", "copy device dir"))?;
            let target = make_target(temp.path(), t.cfg.db).await?;
            let mut account = LocalAccount::new_unauthenticated(t.account_id, target).await.map_err(hf("harness/open-clone", "new_unauthenticated on template copy"))?;
            account.sign_in(&key).await.map_err(hf("harness/sign-in", "sign_in on template copy"))?;
            let account = Arc::new(Mutex::new(account));
            let bridge = make_bridge(idx, t.account_id, account.clone(), &server, &tap);
            devices.push(Device { idx, temp, account, bridge, clock: t.clocks[idx] });
        }
        Ok(SyncWorld { cfg: t.cfg.clone(), server_db: t.server_db, account_id: t.account_id, password: t.password.clone(), server, devices, tap })
    }
}

/// Describe where two statuses differ (log names), empty when equal.
pub fn status_diff(a: &SyncStatus, b: &SyncStatus) -> Vec<String> {
    let mut v = vec![];
    let cs = |x: &sos_core::commit::CommitState| (x.1.root, x.1.length);
    if cs(&a.identity) != cs(&b.identity) {
        v.push(format!("identity({} vs {})", a.identity.1.length, b.identity.1.length));
    }
    if cs(&a.account) != cs(&b.account) {
        v.push(format!("account({} vs {})", a.account.1.length, b.account.1.length));
    }
    if cs(&a.device) != cs(&b.device) {
        v.push(format!("device({} vs {})", a.device.1.length, b.device.1.length));
    }
    if a.files.as_ref().map(cs) != b.files.as_ref().map(cs) {
        v.push(format!("files({:?} vs {:?})", a.files.as_ref().map(|f| f.1.length), b.files.as_ref().map(|f| f.1.length)));
    }
    let ka: BTreeSet<&VaultId> = a.folders.keys().collect();
    let kb: BTreeSet<&VaultId> = b.folders.keys().collect();
    for k in ka.union(&kb) {
        match (a.folders.get(*k), b.folders.get(*k)) {
            (Some(x), Some(y)) => {
                if cs(x) != cs(y) {
                    v.push(format!("folder {}({} vs {})", &k.to_string()[..8], x.1.length, y.1.length));
                }
            }
            (Some(_), None) => v.push(format!("folder {} only-left", &k.to_string()[..8])),
            (None, Some(_)) => v.push(format!("folder {} only-right", &k.to_string()[..8])),
            _ => {}
        }
    }
    v
}

// ---------------------------------------------------------------------------
// Edits made on a device
// ---------------------------------------------------------------------------

#[derive(Clone, Debug, Serialize, Deserialize, PartialEq, Eq, Hash)]
pub enum Edit {
    CreateSecret { folder: u16, label: String, text: String },
    UpdateSecret { sec: u16, label: String, text: String },
    DeleteSecret { sec: u16 },
    RenameFolder { folder: u16, name: String },
    SetDescription { folder: u16, text: String },
    SetFlags { folder: u16, flags: u8 },
    CreateFolder { name: String },
    DeleteFolder { folder: u16 },
    RenameAccount { name: String },
    /// trust a (fixed pool) device key in the device log
    TrustDevice { key: u8 },
    RevokeDevice { key: u8 },
    /// append a synthetic file event to the file log
    FileEvent { kind: u8, n: u8 },
    CompactFolder { folder: u16 },
    /// move a secret to another folder (delete in one folder log, create in the other)
    MoveSecret { sec: u16, folder: u16 },
    /// change a folder's password: rewrites the folder log and updates the identity log
    ChangeFolderPassword { folder: u16, word: String },
    /// update only the meta data of a secret: favourite flag and tags, label and value unchanged
    SetFavorite { sec: u16, on: bool, tag: Option<String> },
}

impl Edit {
    pub fn log_class(&self) -> &'static str {
        match self {
            Edit::CreateSecret { .. } | Edit::UpdateSecret { .. } | Edit::DeleteSecret { .. } | Edit::SetDescription { .. } => "folder",
            Edit::RenameFolder { .. } | Edit::SetFlags { .. } => "folder+account",
            Edit::CreateFolder { .. } | Edit::DeleteFolder { .. } => "account+identity",
            Edit::RenameAccount { .. } => "account",
            Edit::TrustDevice { .. } | Edit::RevokeDevice { .. } => "device",
            Edit::FileEvent { .. } => "files",
            Edit::CompactFolder { .. } | Edit::ChangeFolderPassword { .. } => "rewrite",
            Edit::MoveSecret { .. } | Edit::SetFavorite { .. } => "folder",
        }
    }
}

/// Folders of a device in a stable order and their secrets in a stable order.
///
/// Ids are random per run, so the order is by content: default folder first,
/// then by name; secrets by (label, exposed value). Ties are between
/// equivalent items and are broken by id.
pub async fn listing(account: &LocalAccount) -> Result<Vec<(VaultId, Vec<SecretId>)>, Failure> {
    let mut folders = account.list_folders().await.map_err(hf("harness/list-folders", "list_folders"))?;
    folders.sort_by_key(|s| (!s.flags().is_default(), s.name().to_string(), *s.id()));
    let mut out = vec![];
    for f in folders {
        let ids = account.list_secret_ids(f.id()).await.map_err(hf("harness/list-ids", "list_secret_ids"))?;
        let mut keyed = vec![];
        for id in ids {
            let k = match account.read_secret(&id, Some(f.id())).await {
                Ok((row, _)) => (row.meta().label().to_string(), proj_secret(row.secret()).to_string()),
                Err(_) => (String::new(), String::new()),
            };
            keyed.push((k, id));
        }
        keyed.sort();
        out.push((*f.id(), keyed.into_iter().map(|(_, id)| id).collect()));
    }
    Ok(out)
}

fn note(label: &str, text: &str) -> (sos_vault::secret::SecretMeta, sos_vault::secret::Secret) {
    build_secret(&SecretSpec {
        kind: 0,
        label: label.to_string(),
        tags: vec![],
        favorite: false,
        a: text.to_string(),
        b: String::new(),
        big: 0,
        comment: None,
        recovery: None,
        fields: 0,
        opt: false,
    })
}

/// Apply an edit on a device. Returns false when the edit was not applicable.
pub async fn apply_edit(w: &mut SyncWorld, d: usize, e: &Edit) -> Result<bool, Failure> {
    w.enter(d);
    let r = apply_edit_inner(w, d, e).await;
    w.leave(d);
    r
}

async fn apply_edit_inner(w: &mut SyncWorld, d: usize, e: &Edit) -> Result<bool, Failure> {
    let account = w.devices[d].account.clone();
    let mut a = account.lock().await;
    let list = listing(&a).await?;
    let user_folders: Vec<VaultId> = {
        let fs = a.list_folders().await.map_err(hf("harness/list-folders", "list_folders"))?;
        let mut v: Vec<(String, VaultId)> = fs.iter().filter(|s| !s.flags().is_default()).map(|s| (s.name().to_string(), *s.id())).collect();
        v.sort();
        v.into_iter().map(|(_, id)| id).collect::<Vec<VaultId>>()
    };
    let flat: Vec<(VaultId, SecretId)> = list.iter().flat_map(|(f, ids)| ids.iter().map(move |i| (*f, *i))).collect();
    match e {
        Edit::CreateSecret { folder, label, text } => {
            let fid = list[pick(*folder, list.len())].0;
            let (m, s) = note(label, text);
            a.create_secret(m, s, AccessOptions { folder: Some(fid), ..Default::default() })
                .await
                .map_err(hf("edit/create-secret", "create_secret"))?;
        }
        Edit::UpdateSecret { sec, label, text } => {
            if flat.is_empty() {
                return Ok(false);
            }
            let (fid, sid) = flat[pick(*sec, flat.len())];
            let (m, s) = note(label, text);
            a.update_secret(&sid, m, Some(s), AccessOptions { folder: Some(fid), ..Default::default() })
                .await
                .map_err(hf("edit/update-secret", "update_secret"))?;
        }
        Edit::DeleteSecret { sec } => {
            if flat.is_empty() {
                return Ok(false);
            }
            let (fid, sid) = flat[pick(*sec, flat.len())];
            a.delete_secret(&sid, AccessOptions { folder: Some(fid), ..Default::default() })
                .await
                .map_err(hf("edit/delete-secret", "delete_secret"))?;
        }
        Edit::RenameFolder { folder, name } => {
            let fid = list[pick(*folder, list.len())].0;
            a.rename_folder(&fid, name.clone()).await.map_err(hf("edit/rename-folder", "rename_folder"))?;
        }
        Edit::SetDescription { folder, text } => {
            let fid = list[pick(*folder, list.len())].0;
            a.set_folder_description(&fid, text).await.map_err(hf("edit/set-description", "set_folder_description"))?;
        }
        Edit::SetFlags { folder, flags } => {
            if user_folders.is_empty() {
                return Ok(false);
            }
            let fid = user_folders[pick(*folder, user_folders.len())];
            let fl = crate::engine_acct::FLAG_CHOICES[(*flags % 4) as usize];
            a.update_folder_flags(&fid, VaultFlags::from_bits(fl).unwrap())
                .await
                .map_err(hf("edit/set-flags", "update_folder_flags"))?;
        }
        Edit::CreateFolder { name } => {
            if list.len() >= 4 {
                return Ok(false);
            }
            let options = NewFolderOptions {
                name: name.clone(),
                flags: None,
                key: None,
                cipher: Some(w.cfg.cipher()),
                kdf: Some(w.cfg.kdf()),
            };
            a.create_folder(options).await.map_err(hf("edit/create-folder", "create_folder"))?;
        }
        Edit::DeleteFolder { folder } => {
            if user_folders.is_empty() {
                return Ok(false);
            }
            let fid = user_folders[pick(*folder, user_folders.len())];
            a.delete_folder(&fid).await.map_err(hf("edit/delete-folder", "delete_folder"))?;
        }
        Edit::RenameAccount { name } => {
            a.rename_account(name.clone()).await.map_err(hf("edit/rename-account", "rename_account"))?;
        }
        Edit::TrustDevice { key } => {
            use sos_core::device::{DevicePublicKey, TrustedDevice};
            use sos_core::events::DeviceEvent;
            let k: DevicePublicKey = [0x40 + (*key % 3); 32].into();
            let when = time::OffsetDateTime::from_unix_timestamp(1_700_000_000).unwrap();
            let dev = TrustedDevice::new(k, Some(Default::default()), Some(when));
            a.patch_devices_unchecked(&[DeviceEvent::Trust(dev)])
                .await
                .map_err(hf("edit/trust-device", "patch_devices_unchecked"))?;
        }
        Edit::RevokeDevice { key } => {
            use sos_core::device::DevicePublicKey;
            use sos_core::events::DeviceEvent;
            let k: DevicePublicKey = [0x40 + (*key % 3); 32].into();
            // revoking a key that is not trusted is refused by the account; append the event through the same API
            if a.patch_devices_unchecked(&[DeviceEvent::Revoke(k)]).await.is_err() {
                return Ok(false);
            }
        }
        Edit::FileEvent { kind, n } => {
            use sos_core::events::FileEvent;
            use sos_core::{ExternalFileName, SecretPath};
            let fid = list[0].0;
            let path = SecretPath(fid, uuid::Uuid::from_bytes([0x70 + (*n % 3); 16]));
            let name: ExternalFileName = [0x50 + (*n % 3); 32].into();
            let ev = if kind % 2 == 0 { FileEvent::CreateFile(path, name) } else { FileEvent::DeleteFile(path, name) };
            let log = a.file_log().await.map_err(hf("edit/file-log", "file_log"))?;
            let mut log = log.write().await;
            log.apply(&[ev]).await.map_err(hf("edit/file-event", "apply file event"))?;
        }
        Edit::CompactFolder { folder } => {
            let fid = list[pick(*folder, list.len())].0;
            a.compact_folder(&fid).await.map_err(hf("edit/compact-folder", "compact_folder"))?;
        }
        Edit::MoveSecret { sec, folder } => {
            if flat.is_empty() || list.len() < 2 {
                return Ok(false);
            }
            let (from, sid) = flat[pick(*sec, flat.len())];
            let others: Vec<VaultId> = list.iter().map(|(f, _)| *f).filter(|f| *f != from).collect();
            let to = others[pick(*folder, others.len())];
            a.move_secret(&sid, &from, &to, Default::default()).await.map_err(hf("edit/move-secret", "move_secret"))?;
        }
        Edit::SetFavorite { sec, on, tag } => {
            if flat.is_empty() {
                return Ok(false);
            }
            let (fid, sid) = flat[pick(*sec, flat.len())];
            let (row, _) = a.read_secret(&sid, Some(&fid)).await.map_err(hf("edit/set-favorite", "read_secret"))?;
            let mut meta = row.meta().clone();
            if meta.favorite() == *on && tag.is_none() {
                return Ok(false);
            }
            meta.set_favorite(*on);
            if let Some(t) = tag {
                let mut tags = meta.tags().clone();
                tags.insert(t.clone());
                meta.set_tags(tags);
            }
            a.update_secret(&sid, meta, None, AccessOptions { folder: Some(fid), ..Default::default() })
                .await
                .map_err(hf("edit/set-favorite", "update_secret(meta only)"))?;
        }
        Edit::ChangeFolderPassword { folder, word } => {
            let fid = list[pick(*folder, list.len())].0;
            let key = sos_core::crypto::AccessKey::Password(SecretString::new(format!("folder-pw-{word}-{word}-{word}").into()));
            a.change_folder_password(&fid, key).await.map_err(hf("edit/change-folder-password", "change_folder_password"))?;
        }
    }
    Ok(true)
}

// ---------------------------------------------------------------------------
// Observation helpers
// ---------------------------------------------------------------------------

#[derive(Clone, Debug, PartialEq, Eq)]
pub struct Rec {
    pub time: i128,
    pub commit: [u8; 32],
    pub bytes: Vec<u8>,
}

pub fn rec_of(r: &EventRecord) -> Rec {
    let t: time::OffsetDateTime = r.time().clone().into();
    Rec { time: t.unix_timestamp_nanos(), commit: *r.commit().as_ref(), bytes: r.event_bytes().to_vec() }
}

async fn stream_log<T, L>(log: &L) -> Result<Vec<Rec>, String>
where
    T: Default + binary_stream::futures::Encodable + binary_stream::futures::Decodable + Send + Sync + 'static,
    L: EventLog<T>,
{
    let mut out = vec![];
    let mut s = log.record_stream(false).await;
    while let Some(r) = s.next().await {
        out.push(rec_of(&r.map_err(|e| e.to_string())?));
    }
    Ok(out)
}

/// All logs of a storage (device account or server) as record lists keyed by log name.
pub async fn all_logs<S: StorageEventLogs>(s: &S) -> Result<BTreeMap<String, Vec<Rec>>, Failure> {
    let mut m = BTreeMap::new();
    let e = |x: String| Failure::new("harness/stream", x);
    {
        let l = s.identity_log().await.map_err(hf("harness/log", "identity_log"))?;
        let l = l.read().await;
        m.insert("identity".to_string(), stream_log(&*l).await.map_err(e)?);
    }
    {
        let l = s.account_log().await.map_err(hf("harness/log", "account_log"))?;
        let l = l.read().await;
        m.insert("account".to_string(), stream_log(&*l).await.map_err(e)?);
    }
    {
        let l = s.device_log().await.map_err(hf("harness/log", "device_log"))?;
        let l = l.read().await;
        m.insert("device".to_string(), stream_log(&*l).await.map_err(e)?);
    }
    {
        let l = s.file_log().await.map_err(hf("harness/log", "file_log"))?;
        let l = l.read().await;
        m.insert("files".to_string(), stream_log(&*l).await.map_err(e)?);
    }
    let folders = s.folder_details().await.map_err(hf("harness/log", "folder_details"))?;
    for f in folders {
        let l = s.folder_log(f.id()).await.map_err(hf("harness/log", "folder_log"))?;
        let l = l.read().await;
        m.insert(format!("folder:{}", f.id()), stream_log(&*l).await.map_err(e)?);
    }
    Ok(m)
}

/// Decrypted snapshot of every folder a device serves.
pub async fn device_snapshot(account: &LocalAccount) -> Result<Value, Failure> {
    let mut out = BTreeMap::new();
    let folders = account.list_folders().await.map_err(hf("harness/list-folders", "list_folders"))?;
    for f in folders {
        let key = account
            .find_folder_password(f.id())
            .await
            .map_err(hf("harness/folder-password", "find_folder_password"))?
            .ok_or_else(|| Failure::new("sync/folder-password-missing", format!("device has no password for folder {}", f.id())))?;
        let folder = account.folder(f.id()).await.map_err(hf("harness/folder", "Account::folder"))?;
        let vault = {
            let ap = folder.access_point();
            let ap = ap.lock().await;
            sos_vault::SecretAccess::vault(&*ap).clone()
        };
        let d = decrypt_vault(&vault, &key).await.map_err(|e| Failure::new("sync/served-folder-undecryptable", format!("folder {} ({}): {e}", f.name(), f.id())))?;
        // "serves": the same secrets must be readable through the account API, which uses the
        // key held by the folder's access point
        let ids: Vec<SecretId> = vault.keys().copied().collect();
        for id in ids {
            account.read_secret(&id, Some(f.id())).await.map_err(|e| {
                Failure::new("sync/served-secret-unreadable", format!("folder {} ({}): read_secret({id}) through the account fails although the folder decrypts with its password: {e}", f.name(), f.id()))
            })?;
        }
        out.insert(f.id().to_string(), d);
    }
    Ok(json!(out))
}

// ---------------------------------------------------------------------------
// Stubs filled in by the property modules
// ---------------------------------------------------------------------------

pub fn run_c02_sync(shard: &Shard, rep: &mut Report) {
    crate::prop_merge::run_sync_subcheck(shard, rep, crate::prop_merge::Mode::Replay);
}

pub fn replay_c02_sync(_shard: &Shard, case: &Value) -> CheckResult {
    crate::prop_merge::replay_sync_subcheck(case, crate::prop_merge::Mode::Replay)
}

pub fn run_c20_sync(shard: &Shard, rep: &mut Report) {
    crate::prop_merge::run_sync_subcheck(shard, rep, crate::prop_merge::Mode::Search);
}

pub fn replay_c20_sync(_shard: &Shard, case: &Value) -> CheckResult {
    crate::prop_merge::replay_sync_subcheck(case, crate::prop_merge::Mode::Search)
}

#[allow(dead_code)]
fn _unused(_: CommitHash, _: ForceMerge_) {}
#[allow(non_camel_case_types, dead_code)]
type ForceMerge_ = Option<Box<dyn ForceMerge<Error = sos_account::Error>>>;
