//! Engine B: devices + in-process server storage joined by a direct client.
use crate::framework::*;
use serde_json::Value;

pub fn run_c02_sync(_shard: &Shard, _rep: &mut Report) {}

pub fn replay_c02_sync(_shard: &Shard, _case: &Value) -> CheckResult {
    Ok(())
}
