//! C10 — ciphertext is authenticated, key-bound and never reuses a nonce.
//!
//! Engine F: `Cipher`, `Vault::encrypt/decrypt`, `Vault::verify`,
//! `AccessPoint::unlock`, `Deriver`.  The history-level nonce scan lives in
//! `engine_acct` (sub-check `history-nonces`).
use crate::framework::*;
use crate::{ensure, fail};
use proptest::prelude::*;
use secrecy::SecretString;
use serde::{Deserialize, Serialize};
use serde_json::{json, Value};
use sos_core::crypto::{
    AccessKey, AeadPack, Cipher, DerivedPrivateKey, KeyDerivation, Nonce,
    PrivateKey, Seed,
};
use sos_vault::{AccessPoint, BuilderCredentials, SecretAccess, VaultBuilder};

pub const META: PropertyMeta = PropertyMeta {
    id: "C10",
    level: "exploration",
    rule: "symmetric: generated (cipher, 32-byte key, plaintext incl. empty/1 byte/KiB/MiB sizes) with a generated list of pack mutations (bit flips in nonce and ciphertext - exhaustive over every bit when the pack is <= 96 bytes -, truncation, extension, nonce/ciphertext swapped with a second pack, nonce width swap) and wrong keys; asymmetric: age X25519 packs with ciphertext mutations and a foreign identity; kdf: pools of passwords (generated ones plus near-duplicates of the first: trailing / leading space, trailing newline, upper-cased, trailing NUL) x salts x seeds for both KDFs; vault: VaultBuilder vaults verified/unlocked with own, foreign and perturbed passwords (char appended / dropped / replaced, leading or trailing space, trailing newline or NUL, case swap); history-nonces: every AeadPack reachable in logs and vaults after generated account histories, per folder key. Non-trivial = the case contains at least one tamper/wrong-key attempt (symmetric, asymmetric, vault) or at least two distinct derivation inputs (kdf) or >= 20 packs under one key (history). Distinct = distinct generated case.",
    assumptions: &[
        "RNG quality is not tested: only structural nonce reuse (fixed, copied, derived-from-content) is detectable",
        "the nonce field of an age (X25519) pack is not an input of age decryption; nonce mutations are therefore asserted for the two symmetric ciphers only",
        "distinct-key claims are checked for equal password with different salt/seed and for different passwords with equal salt/seed (password||seed concatenation ambiguity across both is not claimed by the property)",
    ],
};

pub fn def() -> PropertyDef {
    PropertyDef {
        meta: META,
        shards: |t| t.pick(16, 16),
        run,
        replay,
        timeout_s: |t| t.pick(1200, 4 * 3600),
    }
}

#[derive(Clone, Debug, Serialize, Deserialize)]
pub enum Mutation {
    /// flip bit `bit` of byte at fraction `pos`/65536 of nonce (true) or ciphertext
    Flip { in_nonce: bool, pos: u16, bit: u8 },
    Truncate { keep: u16 },
    Extend { bytes: Vec<u8> },
    /// nonce of the other pack with this ciphertext
    NonceFromOther,
    /// ciphertext of the other pack with this nonce
    CiphertextFromOther,
    /// change the nonce width (12 <-> 24) keeping the leading bytes
    NonceWidth,
    WrongKey { key: [u8; 32] },
}

#[derive(Clone, Debug, Serialize, Deserialize)]
pub struct SymCase {
    pub xchacha: bool,
    pub key: [u8; 32],
    pub plaintext: Vec<u8>,
    pub other_plaintext: Vec<u8>,
    pub mutations: Vec<Mutation>,
}

fn cipher_of(xchacha: bool) -> Cipher {
    if xchacha {
        Cipher::XChaCha20Poly1305
    } else {
        Cipher::AesGcm256
    }
}

fn sk(key: &[u8; 32]) -> PrivateKey {
    PrivateKey::Symmetric(DerivedPrivateKey::from(key.to_vec()))
}

fn nonce_bytes(n: &Nonce) -> Vec<u8> {
    n.as_ref().to_vec()
}

fn nonce_from(bytes: &[u8]) -> Option<Nonce> {
    match bytes.len() {
        12 => Some(Nonce::Nonce12(bytes.try_into().unwrap())),
        24 => Some(Nonce::Nonce24(bytes.try_into().unwrap())),
        _ => None,
    }
}

async fn must_fail(
    cipher: Cipher,
    key: &PrivateKey,
    pack: &AeadPack,
    original_plain: &[u8],
    what: &str,
) -> CheckResult {
    match cipher.decrypt_symmetric(key, pack).await {
        Err(_) => Ok(()),
        Ok(p) => Err(Failure::new(
            format!("sym/tamper-accepted/{}", what.split(':').next().unwrap_or(what)),
            format!(
                "{}: decryption of a modified pack returned Ok ({} bytes, equal to original: {})",
                what,
                p.len(),
                p == original_plain
            ),
        )),
    }
}

pub fn check_sym(c: &SymCase) -> (CaseInfo, CheckResult) {
    let mut info = CaseInfo::default();
    let r = block_on(check_sym_inner(c, &mut info));
    (info, r)
}

async fn check_sym_inner(c: &SymCase, info: &mut CaseInfo) -> CheckResult {
    let cipher = cipher_of(c.xchacha);
    let key = sk(&c.key);
    info.class(if c.xchacha { "xchacha20" } else { "aes-gcm" });
    info.class(match c.plaintext.len() {
        0 => "plain-empty",
        1 => "plain-1",
        2..=4096 => "plain-small",
        _ => "plain-large",
    });
    let pack = cipher
        .encrypt_symmetric(&key, &c.plaintext, None)
        .await
        .map_err(|e| Failure::new("sym/encrypt-error", e.to_string()))?;
    let other = cipher
        .encrypt_symmetric(&key, &c.other_plaintext, None)
        .await
        .map_err(|e| Failure::new("sym/encrypt-error", e.to_string()))?;
    // round trip
    let back = cipher
        .decrypt_symmetric(&key, &pack)
        .await
        .map_err(|e| Failure::new("sym/roundtrip-error", format!("decrypt of own pack failed: {e}")))?;
    ensure!(back == c.plaintext, "sym/roundtrip-mismatch", "decrypt(encrypt(p)) != p (len {})", c.plaintext.len());
    // nonce width as expected and nonce fresh between two encryptions
    let expect = if c.xchacha { 24 } else { 12 };
    ensure!(pack.nonce.as_ref().len() == expect, "sym/nonce-width", "nonce width {}", pack.nonce.as_ref().len());
    ensure!(
        nonce_bytes(&pack.nonce) != nonce_bytes(&other.nonce),
        "sym/nonce-repeated",
        "two consecutive encryptions under one key used the same nonce {}",
        hex::encode(pack.nonce.as_ref())
    );
    // ciphertext must not contain the plaintext when it is long enough to be meaningful
    if c.plaintext.len() >= 16 {
        ensure!(
            !contains(&pack.ciphertext, &c.plaintext),
            "sym/plaintext-in-ciphertext",
            "ciphertext contains the plaintext"
        );
    }

    // exhaustive bit flips for small packs
    let nb = nonce_bytes(&pack.nonce);
    if nb.len() + pack.ciphertext.len() <= 96 {
        info.class("exhaustive-bitflips");
        info.nontrivial = true;
        for i in 0..nb.len() * 8 {
            let mut n = nb.clone();
            n[i / 8] ^= 1 << (i % 8);
            let p = AeadPack { nonce: nonce_from(&n).unwrap(), ciphertext: pack.ciphertext.clone() };
            must_fail(cipher, &key, &p, &c.plaintext, &format!("flip-nonce: bit {i}")).await?;
            info.inner_evals += 1;
        }
        for i in 0..pack.ciphertext.len() * 8 {
            let mut ct = pack.ciphertext.clone();
            ct[i / 8] ^= 1 << (i % 8);
            let p = AeadPack { nonce: pack.nonce.clone(), ciphertext: ct };
            must_fail(cipher, &key, &p, &c.plaintext, &format!("flip-ciphertext: bit {i}")).await?;
            info.inner_evals += 1;
        }
        for keep in 0..pack.ciphertext.len() {
            let p = AeadPack { nonce: pack.nonce.clone(), ciphertext: pack.ciphertext[..keep].to_vec() };
            must_fail(cipher, &key, &p, &c.plaintext, &format!("truncate: keep {keep}")).await?;
            info.inner_evals += 1;
        }
    }

    for m in &c.mutations {
        info.nontrivial = true;
        info.inner_evals += 1;
        match m {
            Mutation::Flip { in_nonce, pos, bit } => {
                if *in_nonce {
                    let mut n = nb.clone();
                    let i = pick(*pos, n.len());
                    n[i] ^= 1 << (bit % 8);
                    let p = AeadPack { nonce: nonce_from(&n).unwrap(), ciphertext: pack.ciphertext.clone() };
                    info.class("mut-flip-nonce");
                    must_fail(cipher, &key, &p, &c.plaintext, &format!("flip-nonce: byte {i} bit {bit}")).await?;
                } else {
                    let mut ct = pack.ciphertext.clone();
                    let i = pick(*pos, ct.len());
                    ct[i] ^= 1 << (bit % 8);
                    let p = AeadPack { nonce: pack.nonce.clone(), ciphertext: ct };
                    info.class("mut-flip-ciphertext");
                    must_fail(cipher, &key, &p, &c.plaintext, &format!("flip-ciphertext: byte {i} bit {bit}")).await?;
                }
            }
            Mutation::Truncate { keep } => {
                let k = pick(*keep, pack.ciphertext.len());
                let p = AeadPack { nonce: pack.nonce.clone(), ciphertext: pack.ciphertext[..k].to_vec() };
                info.class("mut-truncate");
                must_fail(cipher, &key, &p, &c.plaintext, &format!("truncate: keep {k} of {}", pack.ciphertext.len())).await?;
            }
            Mutation::Extend { bytes } => {
                if bytes.is_empty() {
                    continue;
                }
                let mut ct = pack.ciphertext.clone();
                ct.extend_from_slice(bytes);
                let p = AeadPack { nonce: pack.nonce.clone(), ciphertext: ct };
                info.class("mut-extend");
                must_fail(cipher, &key, &p, &c.plaintext, &format!("extend: by {}", bytes.len())).await?;
            }
            Mutation::NonceFromOther => {
                let p = AeadPack { nonce: other.nonce.clone(), ciphertext: pack.ciphertext.clone() };
                info.class("mut-swap-nonce");
                must_fail(cipher, &key, &p, &c.plaintext, "swap-nonce: nonce of pack 2 with ciphertext of pack 1").await?;
            }
            Mutation::CiphertextFromOther => {
                let p = AeadPack { nonce: pack.nonce.clone(), ciphertext: other.ciphertext.clone() };
                info.class("mut-swap-ciphertext");
                must_fail(cipher, &key, &p, &c.plaintext, "swap-ciphertext: ciphertext of pack 2 with nonce of pack 1").await?;
            }
            Mutation::NonceWidth => {
                let n = if nb.len() == 12 {
                    let mut v = nb.clone();
                    v.extend_from_slice(&[0u8; 12]);
                    v
                } else {
                    nb[..12].to_vec()
                };
                let p = AeadPack { nonce: nonce_from(&n).unwrap(), ciphertext: pack.ciphertext.clone() };
                info.class("mut-nonce-width");
                must_fail(cipher, &key, &p, &c.plaintext, "nonce-width: 12<->24").await?;
                // and the other cipher must refuse this pack as well
                let oc = cipher_of(!c.xchacha);
                ensure!(
                    oc.decrypt_symmetric(&key, &pack).await.is_err(),
                    "sym/tamper-accepted/cross-cipher",
                    "pack of {} decrypted by {}",
                    cipher,
                    oc
                );
            }
            Mutation::WrongKey { key: k2 } => {
                if k2 == &c.key {
                    continue;
                }
                info.class("wrong-key");
                let wk = sk(k2);
                match cipher.decrypt_symmetric(&wk, &pack).await {
                    Err(_) => {}
                    Ok(_) => fail!("sym/wrong-key-accepted", "decryption with a different key returned Ok"),
                }
            }
        }
    }
    Ok(())
}

fn contains(hay: &[u8], needle: &[u8]) -> bool {
    !needle.is_empty() && hay.windows(needle.len()).any(|w| w == needle)
}

fn plaintext_strategy() -> impl Strategy<Value = Vec<u8>> {
    prop_oneof![
        2 => Just(vec![]),
        2 => any::<u8>().prop_map(|b| vec![b]),
        10 => proptest::collection::vec(any::<u8>(), 2..64),
        6 => proptest::collection::vec(any::<u8>(), 64..4096),
        1 => (any::<u8>(), 1usize..9).prop_map(|(b, mib)| {
            // multi-MiB payload with position-dependent content
            let n = mib * 1024 * 1024 + (b as usize);
            (0..n).map(|i| (i as u8).wrapping_mul(31).wrapping_add(b)).collect()
        }),
    ]
}

fn mutation_strategy() -> impl Strategy<Value = Mutation> {
    prop_oneof![
        4 => (any::<bool>(), any::<u16>(), 0u8..8).prop_map(|(in_nonce, pos, bit)| Mutation::Flip { in_nonce, pos, bit }),
        2 => any::<u16>().prop_map(|keep| Mutation::Truncate { keep }),
        2 => proptest::collection::vec(any::<u8>(), 1..33).prop_map(|bytes| Mutation::Extend { bytes }),
        1 => Just(Mutation::NonceFromOther),
        1 => Just(Mutation::CiphertextFromOther),
        1 => Just(Mutation::NonceWidth),
        2 => any::<[u8; 32]>().prop_map(|key| Mutation::WrongKey { key }),
    ]
}

fn sym_strategy() -> impl Strategy<Value = SymCase> {
    (
        any::<bool>(),
        any::<[u8; 32]>(),
        plaintext_strategy(),
        proptest::collection::vec(any::<u8>(), 0..40),
        proptest::collection::vec(mutation_strategy(), 1..8),
        any::<bool>(),
    )
        .prop_map(|(xchacha, key, plaintext, other, mutations, same)| SymCase {
            xchacha,
            key,
            other_plaintext: if same { plaintext.iter().take(4096).copied().collect() } else { other },
            plaintext,
            mutations,
        })
}

// ---------------------------------------------------------------------------
// asymmetric (age x25519)
// ---------------------------------------------------------------------------

#[derive(Clone, Debug, Serialize, Deserialize)]
pub struct AsymCase {
    pub plaintext: Vec<u8>,
    /// (position fraction, bit)
    pub flips: Vec<(u16, u8)>,
    pub truncate: Vec<u16>,
    pub extend: Vec<u8>,
}

pub fn check_asym(c: &AsymCase) -> (CaseInfo, CheckResult) {
    let mut info = CaseInfo::default();
    let r = block_on(async {
        let id = age::x25519::Identity::generate();
        let other_id = age::x25519::Identity::generate();
        let key = PrivateKey::Asymmetric(id.clone());
        let cipher = Cipher::X25519;
        let pack = cipher
            .encrypt_asymmetric(&key, &c.plaintext, vec![id.to_public()])
            .await
            .map_err(|e| Failure::new("asym/encrypt-error", e.to_string()))?;
        let back = cipher
            .decrypt_asymmetric(&key, &pack)
            .await
            .map_err(|e| Failure::new("asym/roundtrip-error", e.to_string()))?;
        ensure!(back == c.plaintext, "asym/roundtrip-mismatch", "decrypt(encrypt(p)) != p");
        // wrong identity
        let wrong = PrivateKey::Asymmetric(other_id);
        ensure!(
            cipher.decrypt_asymmetric(&wrong, &pack).await.is_err(),
            "asym/wrong-key-accepted",
            "foreign identity decrypted the pack"
        );
        info.nontrivial = true;
        // a symmetric key must be refused for an asymmetric pack and vice versa
        ensure!(
            cipher.decrypt_asymmetric(&sk(&[7u8; 32]), &pack).await.is_err(),
            "asym/symmetric-key-accepted",
            "symmetric key accepted by the asymmetric cipher"
        );
        for (pos, bit) in &c.flips {
            let mut ct = pack.ciphertext.clone();
            let i = pick(*pos, ct.len());
            ct[i] ^= 1 << (bit % 8);
            let p = AeadPack { nonce: pack.nonce.clone(), ciphertext: ct };
            info.inner_evals += 1;
            match cipher.decrypt_asymmetric(&key, &p).await {
                Err(_) => {}
                Ok(pl) => fail!(
                    "asym/tamper-accepted/flip",
                    "bit flip at byte {} bit {} of an age pack (len {}) still decrypts (same plaintext: {})",
                    i, bit, pack.ciphertext.len(), pl == c.plaintext
                ),
            }
        }
        for t in &c.truncate {
            let k = pick(*t, pack.ciphertext.len());
            let p = AeadPack { nonce: pack.nonce.clone(), ciphertext: pack.ciphertext[..k].to_vec() };
            info.inner_evals += 1;
            match cipher.decrypt_asymmetric(&key, &p).await {
                Err(_) => {}
                Ok(_) => fail!("asym/tamper-accepted/truncate", "age pack truncated to {} of {} bytes still decrypts", k, pack.ciphertext.len()),
            }
        }
        if !c.extend.is_empty() {
            let mut ct = pack.ciphertext.clone();
            ct.extend_from_slice(&c.extend);
            let p = AeadPack { nonce: pack.nonce.clone(), ciphertext: ct };
            info.inner_evals += 1;
            match cipher.decrypt_asymmetric(&key, &p).await {
                Err(_) => {}
                Ok(_) => fail!("asym/tamper-accepted/extend", "age pack extended by {} bytes still decrypts", c.extend.len()),
            }
        }
        Ok(())
    });
    (info, r)
}

fn asym_strategy() -> impl Strategy<Value = AsymCase> {
    (
        prop_oneof![
            Just(vec![]),
            proptest::collection::vec(any::<u8>(), 1..200),
            proptest::collection::vec(any::<u8>(), 60_000..70_000),
        ],
        proptest::collection::vec((any::<u16>(), 0u8..8), 1..12),
        proptest::collection::vec(any::<u16>(), 0..4),
        proptest::collection::vec(any::<u8>(), 0..20),
    )
        .prop_map(|(plaintext, flips, truncate, extend)| AsymCase { plaintext, flips, truncate, extend })
}

// ---------------------------------------------------------------------------
// key derivation
// ---------------------------------------------------------------------------

#[derive(Clone, Debug, Serialize, Deserialize)]
pub struct KdfCase {
    pub balloon: bool,
    pub passwords: Vec<String>,
    pub salts: Vec<[u8; 16]>,
    pub seeds: Vec<Option<[u8; 32]>>,
}

pub fn check_kdf(c: &KdfCase) -> (CaseInfo, CheckResult) {
    let mut info = CaseInfo::default();
    let r = check_kdf_inner(c, &mut info);
    (info, r)
}

fn check_kdf_inner(c: &KdfCase, info: &mut CaseInfo) -> CheckResult {
    let kdf = if c.balloon { KeyDerivation::BalloonHash } else { KeyDerivation::Argon2Id };
    info.class(if c.balloon { "balloon" } else { "argon2id" });
    let deriver = kdf.deriver();
    // de-duplicate pools
    let mut pw: Vec<&String> = vec![];
    for p in &c.passwords {
        if !pw.contains(&p) {
            pw.push(p);
        }
    }
    let mut salts: Vec<[u8; 16]> = vec![];
    for s in &c.salts {
        if !salts.contains(s) {
            salts.push(*s);
        }
    }
    let mut seeds: Vec<Option<[u8; 32]>> = vec![];
    for s in &c.seeds {
        if !seeds.contains(s) {
            seeds.push(*s);
        }
    }
    let derive = |p: &String, s: &[u8; 16], seed: &Option<[u8; 32]>| -> Result<Vec<u8>, Failure> {
        use base64::Engine;
        let b64 = base64::engine::general_purpose::STANDARD_NO_PAD.encode(s);
        let salt = KeyDerivation::parse_salt(&b64)
            .map_err(|e| Failure::new("harness", format!("salt: {e}")))?;
        let seed = seed.map(Seed);
        let k = deriver
            .derive(&SecretString::new(p.clone().into()), &salt, seed.as_ref())
            .map_err(|e| Failure::new("kdf/derive-error", e.to_string()))?;
        Ok(k.as_ref().to_vec())
    };
    let p0 = pw[0];
    let s0 = salts[0];
    let d0 = seeds[0];
    let base = derive(p0, &s0, &d0)?;
    ensure!(base.len() == 32, "kdf/key-length", "derived key has {} bytes", base.len());
    // determinism
    let again = derive(p0, &s0, &d0)?;
    ensure!(base == again, "kdf/non-deterministic", "same password/salt/seed derived different keys");
    info.inner_evals += 2;
    let mut keys: Vec<(String, Vec<u8>)> = vec![("base".into(), base)];
    // same password, different salt
    for s in salts.iter().skip(1) {
        keys.push((format!("salt {}", hex::encode(s)), derive(p0, s, &d0)?));
        info.inner_evals += 1;
    }
    // same password and salt, different seed
    for d in seeds.iter().skip(1) {
        keys.push((format!("seed {:?}", d.map(hex::encode)), derive(p0, &s0, d)?));
        info.inner_evals += 1;
    }
    // different password, same salt and seed
    for p in pw.iter().skip(1) {
        keys.push((format!("password {:?}", p), derive(p, &s0, &d0)?));
        info.inner_evals += 1;
    }
    if keys.len() >= 2 {
        info.nontrivial = true;
    }
    for i in 0..keys.len() {
        for j in i + 1..keys.len() {
            ensure!(
                keys[i].1 != keys[j].1,
                "kdf/key-collision",
                "distinct derivation inputs ({} vs {}) produced the same key",
                keys[i].0,
                keys[j].0
            );
        }
    }
    Ok(())
}

fn kdf_strategy() -> impl Strategy<Value = KdfCase> {
    (
        any::<bool>(),
        proptest::collection::vec("[ -~]{0,24}|\\PC{1,8}", 1..3),
        proptest::collection::vec(any::<[u8; 16]>(), 1..3),
        proptest::collection::vec(proptest::option::of(any::<[u8; 32]>()), 1..3),
    )
        .prop_map(|(balloon, mut passwords, salts, seeds)| {
            // near-duplicates: a key derivation that normalises its input (trim, case fold,
            // NUL cut) maps them onto the same key
            let first = passwords[0].clone();
            for v in [format!("{first} "), format!(" {first}"), format!("{first}\n"), first.to_uppercase(), format!("{first}\0")] {
                if !passwords.contains(&v) {
                    passwords.push(v);
                }
            }
            KdfCase { balloon, passwords, salts, seeds }
        })
}

// ---------------------------------------------------------------------------
// vault level
// ---------------------------------------------------------------------------

#[derive(Clone, Debug, Serialize, Deserialize)]
pub struct VaultCase {
    pub xchacha: bool,
    pub balloon: bool,
    pub password: String,
    pub other_password: String,
    pub seed: Option<[u8; 32]>,
    /// perturbations of the password: index of char to change (fraction), appended char, case swap
    pub perturb: Vec<(u8, u16)>,
    pub plaintext: Vec<u8>,
}

pub fn check_vault(c: &VaultCase) -> (CaseInfo, CheckResult) {
    let mut info = CaseInfo::default();
    let r = block_on(check_vault_inner(c, &mut info));
    (info, r)
}

type AP = AccessPoint<sos_vault::Error>;

async fn check_vault_inner(c: &VaultCase, info: &mut CaseInfo) -> CheckResult {
    let cipher = cipher_of(c.xchacha);
    let kdf = if c.balloon { KeyDerivation::BalloonHash } else { KeyDerivation::Argon2Id };
    info.class(format!("{}+{}", cipher, kdf));
    let pw = SecretString::new(c.password.clone().into());
    let build = |p: SecretString| async move {
        VaultBuilder::new()
            .cipher(cipher)
            .kdf(kdf)
            .description("d".into())
            .build(BuilderCredentials::Password(p, c.seed.map(Seed)))
            .await
    };
    let v1 = build(pw.clone())
        .await
        .map_err(|e| Failure::new("vault/build-error", e.to_string()))?;
    let key1: AccessKey = pw.clone().into();
    v1.verify(&key1)
        .await
        .map_err(|e| Failure::new("vault/own-password-rejected", format!("verify(own password) failed: {e}")))?;
    let mut ap = AP::new(v1.clone());
    ap.unlock(&key1)
        .await
        .map_err(|e| Failure::new("vault/own-password-rejected", format!("unlock(own password) failed: {e}")))?;
    // encrypt/decrypt through the vault with the derived key
    let salt = KeyDerivation::parse_salt(v1.salt().unwrap()).unwrap();
    let pk = key1
        .clone()
        .into_private(&kdf, &salt, v1.seed())
        .map_err(|e| Failure::new("vault/derive-error", e.to_string()))?;
    let pack = v1
        .encrypt(&pk, &c.plaintext)
        .await
        .map_err(|e| Failure::new("vault/encrypt-error", e.to_string()))?;
    let back = v1
        .decrypt(&pk, &pack)
        .await
        .map_err(|e| Failure::new("vault/roundtrip-error", e.to_string()))?;
    ensure!(back == c.plaintext, "vault/roundtrip-mismatch", "Vault::decrypt(Vault::encrypt(p)) != p");

    // candidate wrong passwords
    let mut wrong: Vec<String> = vec![];
    if c.other_password != c.password {
        wrong.push(c.other_password.clone());
    }
    for (kind, pos) in &c.perturb {
        let chars: Vec<char> = c.password.chars().collect();
        let mut s = chars.clone();
        match kind % 8 {
            4 => s.push(' '),
            5 => s.push('\n'),
            6 => {
                if !s.is_empty() {
                    let i = pick(*pos, s.len());
                    s[i] = if s[i].is_lowercase() { s[i].to_uppercase().next().unwrap_or('Q') } else if s[i].is_uppercase() { s[i].to_lowercase().next().unwrap_or('q') } else { 'Q' };
                }
            }
            7 => s.push('\0'),
            0 => s.push('x'),
            1 => {
                if !s.is_empty() {
                    s.pop();
                }
            }
            2 => {
                if !s.is_empty() {
                    let i = pick(*pos, s.len());
                    s[i] = if s[i] == 'q' { 'r' } else { 'q' };
                }
            }
            _ => s.insert(0, ' '),
        }
        let s: String = s.into_iter().collect();
        if s != c.password {
            wrong.push(s);
        }
    }
    for w in &wrong {
        info.nontrivial = true;
        info.inner_evals += 1;
        let wk: AccessKey = SecretString::new(w.clone().into()).into();
        ensure!(
            v1.verify(&wk).await.is_err(),
            "vault/wrong-password-accepted",
            "Vault::verify accepted {:?} for a vault created with {:?}",
            w,
            c.password
        );
        let mut ap2 = AP::new(v1.clone());
        ensure!(
            ap2.unlock(&wk).await.is_err(),
            "vault/wrong-password-accepted",
            "AccessPoint::unlock accepted {:?} for a vault created with {:?}",
            w,
            c.password
        );
        // a pack of vault 1 must not decrypt with the wrong password's key
        let wpk = wk
            .into_private(&kdf, &salt, v1.seed())
            .map_err(|e| Failure::new("vault/derive-error", e.to_string()))?;
        ensure!(
            v1.decrypt(&wpk, &pack).await.is_err(),
            "vault/wrong-key-accepted",
            "pack decrypted with the key of password {:?}",
            w
        );
    }
    // a second vault with the same password gets a different salt, so its key differs:
    let v2 = build(pw.clone())
        .await
        .map_err(|e| Failure::new("vault/build-error", e.to_string()))?;
    ensure!(v1.salt() != v2.salt(), "vault/salt-reused", "two vaults built with the same password share salt {:?}", v1.salt());
    let salt2 = KeyDerivation::parse_salt(v2.salt().unwrap()).unwrap();
    let pk2 = key1
        .clone()
        .into_private(&kdf, &salt2, v2.seed())
        .map_err(|e| Failure::new("vault/derive-error", e.to_string()))?;
    ensure!(
        v2.decrypt(&pk2, &pack).await.is_err(),
        "vault/cross-vault-key-accepted",
        "pack of vault 1 decrypts with the key of vault 2 (same password, different salt)"
    );
    // the meta blob of vault 2 cannot be read by vault 1's key
    if let Some(m2) = v2.header().meta() {
        ensure!(
            v1.decrypt(&pk, m2).await.is_err(),
            "vault/cross-vault-key-accepted",
            "meta of vault 2 decrypts with the key of vault 1"
        );
    }
    Ok(())
}

fn vault_strategy() -> impl Strategy<Value = VaultCase> {
    (
        any::<bool>(),
        any::<bool>(),
        "[ -~]{1,20}|\\PC{1,6}",
        "[ -~]{1,20}",
        proptest::option::of(any::<[u8; 32]>()),
        proptest::collection::vec((any::<u8>(), any::<u16>()), 1..3),
        proptest::collection::vec(any::<u8>(), 0..200),
    )
        .prop_map(|(xchacha, balloon, password, other_password, seed, perturb, plaintext)| VaultCase {
            xchacha,
            balloon,
            password,
            other_password,
            seed,
            perturb,
            plaintext,
        })
}

fn run(shard: &Shard, rep: &mut Report) {
    let t = shard.tier;
    drive(shard, rep, "symmetric", shard.share(t.pick(3_000, 60_000)), sym_strategy(), |c| check_sym(c));
    drive(shard, rep, "asymmetric", shard.share(t.pick(320, 6_000)), asym_strategy(), |c| check_asym(c));
    drive(shard, rep, "kdf", shard.share(t.pick(96, 1_600)), kdf_strategy(), |c| check_kdf(c));
    drive(shard, rep, "vault", shard.share(t.pick(96, 1_600)), vault_strategy(), |c| check_vault(c));
    crate::engine_acct::run_c10_history_nonces(shard, rep);
}

fn replay(shard: &Shard, sub: &str, case: &Value) -> CheckResult {
    let h = |e| Failure::new("harness", e);
    match sub {
        "symmetric" => check_sym(&from_case(case).map_err(h)?).1,
        "asymmetric" => check_asym(&from_case(case).map_err(h)?).1,
        "kdf" => check_kdf(&from_case(case).map_err(h)?).1,
        "vault" => check_vault(&from_case(case).map_err(h)?).1,
        "history-nonces" => crate::engine_acct::replay_c10_history_nonces(shard, case),
        _ => fail!("harness", "unknown sub-check {}", sub),
    }
}

#[allow(dead_code)]
fn _unused() -> Value {
    json!(null)
}
