//! Plaintext scanner of C03: marker registry, encodings, a multi-pattern byte
//! search, collection of everything a case wrote (files, zip entries, wire
//! buffers, audit trail, tracing output) and the planted-marker self-test.
use sha2::{Digest, Sha256};
use std::collections::{BTreeMap, BTreeSet};
use std::path::Path;
use std::sync::{Arc, Mutex, OnceLock};

// ---------------------------------------------------------------------------
// Markers
// ---------------------------------------------------------------------------

const B32: &[u8; 32] = b"ABCDEFGHIJKLMNOPQRSTUVWXYZ234567";
const B32_LOWER: &[u8; 32] = b"abcdefghijklmnopqrstuvwxyz234567";
const B64_STD: &[u8; 64] = b"ABCDEFGHIJKLMNOPQRSTUVWXYZabcdefghijklmnopqrstuvwxyz0123456789+/";
const B64_URL: &[u8; 64] = b"ABCDEFGHIJKLMNOPQRSTUVWXYZabcdefghijklmnopqrstuvwxyz0123456789-_";

/// Length of a text marker: "MK" + 20 base32 characters (100 bits).
pub const TOKEN_LEN: usize = 22;

/// Deterministic text marker for (seed, path): alphanumeric, upper case.
pub fn token(seed: u64, path: &str) -> String {
    let mut h = Sha256::new();
    h.update(b"c03-token");
    h.update(seed.to_le_bytes());
    h.update(path.as_bytes());
    let d = h.finalize();
    let mut s = String::from("MK");
    // 20 characters of 5 bits each from the digest
    let mut acc: u32 = 0;
    let mut bits = 0;
    let mut i = 0;
    while s.len() < TOKEN_LEN {
        if bits < 5 {
            acc = (acc << 8) | d[i] as u32;
            i += 1;
            bits += 8;
        }
        bits -= 5;
        s.push(B32[((acc >> bits) & 31) as usize] as char);
    }
    s
}

/// Deterministic 24-byte marker for byte payloads.
pub fn byte_marker(seed: u64, path: &str) -> [u8; 24] {
    let mut h = Sha256::new();
    h.update(b"c03-bytes");
    h.update(seed.to_le_bytes());
    h.update(path.as_bytes());
    let d = h.finalize();
    let mut out = [0u8; 24];
    out.copy_from_slice(&d[..24]);
    out
}

/// All marker tokens ("MK" + 20 base32 characters) inside a string.
pub fn tokens_in(s: &str) -> Vec<String> {
    let b = s.as_bytes();
    let mut out = vec![];
    let mut i = 0;
    while i + TOKEN_LEN <= b.len() {
        if b[i] == b'M' && b[i + 1] == b'K' && b[i + 2..i + TOKEN_LEN].iter().all(|c| B32.contains(c)) {
            out.push(String::from_utf8_lossy(&b[i..i + TOKEN_LEN]).to_string());
            i += TOKEN_LEN;
        } else {
            i += 1;
        }
    }
    out
}

#[derive(Clone, Debug)]
pub struct Needle {
    /// where the plaintext was written (e.g. `op[3].label`)
    pub path: String,
    /// field kind of the failure signature
    pub kind: String,
    pub bytes: Vec<u8>,
    /// text needles also get UTF-16 forms
    pub text: bool,
}

/// Needles shorter than this are not registered (chance matches).
pub const MIN_NEEDLE: usize = 16;

#[derive(Default, Debug, Clone)]
pub struct Registry {
    pub needles: Vec<Needle>,
    seen: BTreeSet<Vec<u8>>,
    pub too_short: usize,
}

impl Registry {
    pub fn add_text(&mut self, path: impl Into<String>, kind: &str, s: &str) -> bool {
        self.add(path.into(), kind, s.as_bytes().to_vec(), true)
    }
    pub fn add_bytes(&mut self, path: impl Into<String>, kind: &str, b: &[u8]) -> bool {
        self.add(path.into(), kind, b.to_vec(), false)
    }
    fn add(&mut self, path: String, kind: &str, bytes: Vec<u8>, text: bool) -> bool {
        if bytes.len() < MIN_NEEDLE {
            self.too_short += 1;
            return false;
        }
        if !self.seen.insert(bytes.clone()) {
            return false;
        }
        self.needles.push(Needle { path, kind: kind.to_string(), bytes, text });
        true
    }
    pub fn kinds(&self) -> BTreeSet<String> {
        self.needles.iter().map(|n| n.kind.clone()).collect()
    }
}

// ---------------------------------------------------------------------------
// Encodings
// ---------------------------------------------------------------------------

/// The characters of a radix-2^b encoding of `needle` that are fully determined by
/// the needle when it starts `p` bytes into an encoding group (the partial
/// characters at both ends are dropped).
fn radix_window(needle: &[u8], p: usize, bits: usize, alphabet: &[u8]) -> Vec<u8> {
    let total_bits = 8 * (p + needle.len());
    let first = (8 * p + bits - 1) / bits;
    let last = total_bits / bits; // exclusive
    let bit_at = |i: usize| -> u8 {
        let byte = i / 8;
        if byte < p {
            0
        } else {
            (needle[byte - p] >> (7 - (i % 8))) & 1
        }
    };
    let mut out = Vec::with_capacity(last.saturating_sub(first));
    for c in first..last {
        let mut v = 0usize;
        for k in 0..bits {
            v = (v << 1) | bit_at(c * bits + k) as usize;
        }
        out.push(alphabet[v]);
    }
    out
}

fn utf16(bytes: &[u8], le: bool) -> Option<Vec<u8>> {
    let s = std::str::from_utf8(bytes).ok()?;
    let mut out = vec![];
    for u in s.encode_utf16() {
        let b = if le { u.to_le_bytes() } else { u.to_be_bytes() };
        out.extend_from_slice(&b);
    }
    Some(out)
}

/// Every (encoding name, detail, byte pattern) searched for one needle.
pub fn encodings(n: &Needle) -> Vec<(&'static str, String, Vec<u8>)> {
    let mut v: Vec<(&'static str, String, Vec<u8>)> = vec![];
    v.push(("raw", String::new(), n.bytes.clone()));
    v.push(("hex-lower", String::new(), hex::encode(&n.bytes).into_bytes()));
    v.push(("hex-upper", String::new(), hex::encode_upper(&n.bytes).into_bytes()));
    for p in 0..3 {
        let std = radix_window(&n.bytes, p, 6, B64_STD);
        let url = radix_window(&n.bytes, p, 6, B64_URL);
        if std == url {
            v.push(("base64", format!("alignment {p}"), std));
        } else {
            v.push(("base64-std", format!("alignment {p}"), std));
            v.push(("base64-url", format!("alignment {p}"), url));
        }
    }
    if n.text {
        if let Some(le) = utf16(&n.bytes, true) {
            v.push(("utf16le", String::new(), le));
        }
        if let Some(be) = utf16(&n.bytes, false) {
            v.push(("utf16be", String::new(), be));
        }
    }
    // base32 (TOTP urls, some key formats); beyond the forms the statement lists
    for p in 0..5 {
        v.push(("base32", format!("alignment {p}"), radix_window(&n.bytes, p, 5, B32)));
        v.push(("base32-lower", format!("alignment {p}"), radix_window(&n.bytes, p, 5, B32_LOWER)));
    }
    v.retain(|(_, _, b)| b.len() >= 12);
    v
}

// ---------------------------------------------------------------------------
// Multi-pattern search
// ---------------------------------------------------------------------------

pub struct Pattern {
    pub needle: usize,
    pub encoding: &'static str,
    pub detail: String,
    pub bytes: Vec<u8>,
}

pub struct Matcher {
    pub patterns: Vec<Pattern>,
    /// patterns by their first two bytes
    table: Vec<Vec<u32>>,
}

#[derive(Clone, Debug)]
pub struct Hit {
    pub pattern: usize,
    pub offset: usize,
}

impl Matcher {
    pub fn new(reg: &Registry) -> Self {
        let mut patterns = vec![];
        for (i, n) in reg.needles.iter().enumerate() {
            for (encoding, detail, bytes) in encodings(n) {
                patterns.push(Pattern { needle: i, encoding, detail, bytes });
            }
        }
        let mut table: Vec<Vec<u32>> = vec![Vec::new(); 65536];
        for (i, p) in patterns.iter().enumerate() {
            let k = ((p.bytes[0] as usize) << 8) | p.bytes[1] as usize;
            table[k].push(i as u32);
        }
        Matcher { patterns, table }
    }

    /// First occurrence of every pattern that occurs in `hay`.
    pub fn find(&self, hay: &[u8]) -> Vec<Hit> {
        let mut hits: Vec<Hit> = vec![];
        if hay.len() < 2 {
            return hits;
        }
        let mut found: BTreeSet<u32> = BTreeSet::new();
        for i in 0..hay.len() - 1 {
            let k = ((hay[i] as usize) << 8) | hay[i + 1] as usize;
            let cands = &self.table[k];
            if cands.is_empty() {
                continue;
            }
            for &pi in cands {
                let p = &self.patterns[pi as usize].bytes;
                if hay.len() - i >= p.len() && &hay[i..i + p.len()] == p.as_slice() && found.insert(pi) {
                    hits.push(Hit { pattern: pi as usize, offset: i });
                }
            }
        }
        hits
    }
}

// ---------------------------------------------------------------------------
// Blobs: everything a case wrote
// ---------------------------------------------------------------------------

#[derive(Clone, Debug)]
pub struct Blob {
    /// place kind of the failure signature
    pub place: String,
    /// file path / entry name / buffer index for messages
    pub name: String,
    pub data: Vec<u8>,
}

#[derive(Clone, Copy, Debug, PartialEq, Eq)]
pub enum Side {
    Client,
    Server,
}

#[derive(Default, Debug, Clone)]
pub struct ScanStats {
    pub files: usize,
    pub bytes: u64,
    pub sqlite_files: usize,
    pub event_logs: usize,
    pub vault_files: usize,
    pub blob_files: usize,
    pub archives: usize,
    pub archive_entries: usize,
    pub wire_buffers: usize,
    pub audit_bytes: u64,
    pub tracing_bytes: u64,
    pub other_names: BTreeSet<String>,
}

impl ScanStats {
    pub fn absorb(&mut self, o: &ScanStats) {
        self.files = self.files.max(o.files);
        self.bytes += o.bytes;
        self.sqlite_files = self.sqlite_files.max(o.sqlite_files);
        self.event_logs = self.event_logs.max(o.event_logs);
        self.vault_files = self.vault_files.max(o.vault_files);
        self.blob_files = self.blob_files.max(o.blob_files);
        self.archives = self.archives.max(o.archives);
        self.archive_entries = self.archive_entries.max(o.archive_entries);
        self.wire_buffers = self.wire_buffers.max(o.wire_buffers);
        self.audit_bytes = self.audit_bytes.max(o.audit_bytes);
        self.tracing_bytes = self.tracing_bytes.max(o.tracing_bytes);
        self.other_names.extend(o.other_names.iter().cloned());
    }
}

fn is_sqlite_name(name: &str) -> bool {
    name.ends_with(".db") || name.ends_with(".db-wal") || name.ends_with(".db-shm") || name.ends_with(".db-journal") || name.ends_with(".sqlite")
}

/// Place kind of a file below a data directory.
pub fn place_of(side: Side, name: &str, data: &[u8]) -> &'static str {
    let sqlite = is_sqlite_name(name) || data.starts_with(b"SQLite format 3\0");
    if data.starts_with(b"PK\x03\x04") || name.ends_with(".zip") {
        return "archive";
    }
    match side {
        Side::Server => {
            if sqlite {
                "server-sqlite"
            } else {
                "server-fs"
            }
        }
        Side::Client => {
            if sqlite {
                "client-sqlite"
            } else if name.ends_with(".vault") || name.contains(".vault.") {
                "client-fs-vault"
            } else if name.ends_with(".events") || name.contains(".events.") {
                "client-fs-events"
            } else {
                "other-file"
            }
        }
    }
}

/// Decompressed entries of a zip archive (through the repository's reader).
pub async fn zip_entries(path: &Path) -> Result<Vec<(String, Vec<u8>)>, String> {
    let file = tokio::io::BufReader::new(sos_vfs::File::open(path).await.map_err(|e| format!("open archive: {e}"))?);
    let mut zip = sos_archive::ZipReader::new(file).await.map_err(|e| format!("ZipReader::new: {e}"))?;
    let n = zip.inner().file().entries().len();
    let mut names = vec![];
    for i in 0..n {
        let entry = zip.inner().file().entries().get(i).unwrap();
        names.push(entry.filename().as_str().map_err(|e| format!("entry name: {e}"))?.to_string());
    }
    let mut out = vec![];
    for name in names {
        let data = zip.by_name(&name).await.map_err(|e| format!("read entry {name}: {e}"))?.unwrap_or_default();
        out.push((name, data));
    }
    Ok(out)
}

/// Every file below `dir` (raw bytes) plus the decompressed entries of zip archives.
pub async fn collect_dir(dir: &Path, side: Side, label: &str, blobs: &mut Vec<Blob>, stats: &mut ScanStats) -> Result<(), String> {
    for e in walkdir::WalkDir::new(dir).follow_links(false).sort_by_file_name().into_iter().flatten() {
        if !e.file_type().is_file() {
            continue;
        }
        let rel = e.path().strip_prefix(dir).unwrap_or(e.path()).to_string_lossy().to_string();
        // a file may vanish between listing and reading (temp files): not an error
        let Ok(data) = std::fs::read(e.path()) else { continue };
        let fname = e.file_name().to_string_lossy().to_string();
        let place = place_of(side, &fname, &data);
        stats.files += 1;
        stats.bytes += data.len() as u64;
        let in_blob_dir = rel.contains("/files/") || rel.contains("/blobs/") || rel.starts_with("files/") || rel.starts_with("blobs/");
        match place {
            "client-sqlite" | "server-sqlite" => stats.sqlite_files += 1,
            "client-fs-events" => stats.event_logs += 1,
            "client-fs-vault" => stats.vault_files += 1,
            "server-fs" if fname.ends_with(".events") => stats.event_logs += 1,
            "server-fs" if fname.ends_with(".vault") => stats.vault_files += 1,
            _ => {}
        }
        if in_blob_dir {
            stats.blob_files += 1;
        } else if place == "other-file" {
            stats.other_names.insert(fname.rsplit('.').next().unwrap_or("").chars().take(12).collect());
        }
        if place == "archive" {
            stats.archives += 1;
            let entries = zip_entries(e.path()).await.map_err(|m| format!("{label}/{rel}: {m}"))?;
            for (name, d) in entries {
                stats.archive_entries += 1;
                stats.bytes += d.len() as u64;
                if is_sqlite_name(&name) || d.starts_with(b"SQLite format 3\0") {
                    stats.sqlite_files += 1;
                } else if name.ends_with(".events") {
                    stats.event_logs += 1;
                }
                blobs.push(Blob { place: "archive".into(), name: format!("{label}/{rel}!{name}"), data: d });
            }
        }
        blobs.push(Blob { place: place.into(), name: format!("{label}/{rel}"), data });
    }
    Ok(())
}

#[derive(Clone, Debug)]
pub struct Finding {
    pub signature: String,
    pub message: String,
}

/// Scan blobs for every pattern; findings are ordered (blob order, then offset).
pub fn scan(reg: &Registry, matcher: &Matcher, blobs: &[Blob], allow_kinds: &[&str]) -> Vec<Finding> {
    let mut out = vec![];
    for b in blobs {
        for h in matcher.find(&b.data) {
            let p = &matcher.patterns[h.pattern];
            let n = &reg.needles[p.needle];
            if allow_kinds.contains(&n.kind.as_str()) {
                continue;
            }
            out.push(Finding {
                signature: format!("c03/plaintext/{}/{}/{}", b.place, n.kind, p.encoding),
                message: format!(
                    "{} ({} bytes) contains the plaintext of {} ({}) as {}{} at offset {}",
                    b.name,
                    b.data.len(),
                    n.path,
                    n.kind,
                    p.encoding,
                    if p.detail.is_empty() { String::new() } else { format!(" [{}]", p.detail) },
                    h.offset
                ),
            });
        }
    }
    out
}

// ---------------------------------------------------------------------------
// Tracing capture (the product's own log output, in memory)
// ---------------------------------------------------------------------------

/// The filter the product's logger installs by default (crates/logs/src/logger.rs).
pub const PRODUCT_LOG_FILTER: &str = "sos=info,sos_net=debug,sos_bindings=debug,sos_backend=debug,sos_database=debug,sos_protocol=debug,sos_app=debug,sos_database_upgrader=debug";

static LOG_BUF: OnceLock<Arc<Mutex<Vec<u8>>>> = OnceLock::new();
static LOG_INSTALLED: OnceLock<bool> = OnceLock::new();

struct BufWriter(Arc<Mutex<Vec<u8>>>);

impl std::io::Write for BufWriter {
    fn write(&mut self, buf: &[u8]) -> std::io::Result<usize> {
        let mut g = self.0.lock().unwrap();
        // bound the memory of a run-away case; the head is what matters
        if g.len() < 64 << 20 {
            g.extend_from_slice(buf);
        }
        Ok(buf.len())
    }
    fn flush(&mut self) -> std::io::Result<()> {
        Ok(())
    }
}

/// Install the capturing subscriber unless a global default exists already.
/// Returns whether tracing output is captured in this process.
pub fn install_tracing_capture() -> bool {
    *LOG_INSTALLED.get_or_init(|| {
        let buf = LOG_BUF.get_or_init(|| Arc::new(Mutex::new(Vec::new()))).clone();
        tracing_subscriber::fmt()
            .with_env_filter(tracing_subscriber::EnvFilter::new(PRODUCT_LOG_FILTER))
            .with_ansi(false)
            .with_writer(move || BufWriter(buf.clone()))
            .try_init()
            .is_ok()
    })
}

pub fn tracing_clear() {
    if let Some(b) = LOG_BUF.get() {
        b.lock().unwrap().clear();
    }
}

pub fn tracing_take() -> Vec<u8> {
    LOG_BUF.get().map(|b| b.lock().unwrap().clone()).unwrap_or_default()
}

// ---------------------------------------------------------------------------
// Self-test
// ---------------------------------------------------------------------------

/// Plant a marker in every encoding (built with independent encoders) and check
/// that the scanner finds each one and stays silent on clear-text identifiers.
pub fn self_test(scratch: &Path) -> Result<usize, String> {
    use base64::Engine;
    let seed = 0x5e1f_7e57u64;
    let text = token(seed, "selftest.text");
    let bytes = byte_marker(seed, "selftest.bytes");
    if tokens_in(&format!("ab {text}cd")) != vec![text.clone()] {
        return Err("tokens_in does not find a token".into());
    }
    let mut reg = Registry::default();
    reg.add_text("selftest.text", "label", &text);
    reg.add_bytes("selftest.bytes", "attachment", &bytes);
    let m = Matcher::new(&reg);
    let mut planted = 0usize;
    let filler = |n: usize| -> Vec<u8> { (0..n).map(|i| b'a' + (i % 23) as u8).collect() };
    let expect = |hay: &[u8], needle: usize, enc: &[&str], what: &str| -> Result<(), String> {
        let hits = m.find(hay);
        if hits.iter().any(|h| m.patterns[h.pattern].needle == needle && enc.contains(&m.patterns[h.pattern].encoding)) {
            Ok(())
        } else {
            Err(format!("planted marker not found: {what}"))
        }
    };
    for (ni, raw) in [(0usize, text.as_bytes().to_vec()), (1usize, bytes.to_vec())] {
        for pre in 0..6usize {
            for post in 0..4usize {
                let mut plain = filler(pre);
                plain.extend_from_slice(&raw);
                plain.extend(filler(post));
                // raw
                let mut hay = filler(40);
                hay.extend_from_slice(&plain);
                expect(&hay, ni, &["raw"], &format!("raw pre={pre}"))?;
                // hex
                expect(hex::encode(&plain).as_bytes(), ni, &["hex-lower"], "hex lower")?;
                expect(hex::encode_upper(&plain).as_bytes(), ni, &["hex-upper"], "hex upper")?;
                // base64 through the base64 crate, all engines
                for (name, s) in [
                    ("std", base64::engine::general_purpose::STANDARD.encode(&plain)),
                    ("std-nopad", base64::engine::general_purpose::STANDARD_NO_PAD.encode(&plain)),
                    ("url", base64::engine::general_purpose::URL_SAFE.encode(&plain)),
                    ("url-nopad", base64::engine::general_purpose::URL_SAFE_NO_PAD.encode(&plain)),
                ] {
                    let encs: &[&str] = if name.starts_with("std") { &["base64", "base64-std"] } else { &["base64", "base64-url"] };
                    expect(s.as_bytes(), ni, encs, &format!("base64 {name} pre={pre} post={post} of needle {ni}"))?;
                    planted += 1;
                }
                planted += 3;
            }
        }
    }
    // base32 against a known vector and a planted needle
    if radix_window(b"foobar", 0, 5, B32) != b"MZXW6YTBO".to_vec() {
        return Err("base32 window of 'foobar' is wrong".into());
    }
    // UTF-16
    let le: Vec<u8> = format!("x{text}y").encode_utf16().flat_map(|u| u.to_le_bytes()).collect();
    let be: Vec<u8> = format!("x{text}y").encode_utf16().flat_map(|u| u.to_be_bytes()).collect();
    expect(&le, 0, &["utf16le"], "utf16le")?;
    expect(&be, 0, &["utf16be"], "utf16be")?;
    planted += 2;
    // negative: identifiers and names only
    let clear = b"verif-account 6f3d6e2b-8a0e-4a6c-9c57-0a54c2f8e0a1 Documents Archive 0x6d1e2a5c0b9f4e3d8a7c6b5a49382716f5e4d3c2 folder-one MK MKAAAA".to_vec();
    if !m.find(&clear).is_empty() {
        return Err("scanner fired on a buffer of names and identifiers".into());
    }
    // through the file collection, incl. a deflated zip entry
    let dir = scratch.join("c03-selftest");
    let _ = std::fs::remove_dir_all(&dir);
    std::fs::create_dir_all(dir.join("sub")).map_err(|e| e.to_string())?;
    let mut body = filler(100);
    body.extend_from_slice(text.as_bytes());
    body.extend(filler(7));
    std::fs::write(dir.join("sub").join("planted.vault"), &body).map_err(|e| e.to_string())?;
    std::fs::write(dir.join("clean.events"), filler(300)).map_err(|e| e.to_string())?;
    let zip_res: Result<(), String> = crate::framework::block_on(async {
        let mut buf: Vec<u8> = vec![];
        {
            let mut w = sos_archive::ZipWriter::new(std::io::Cursor::new(&mut buf));
            let mut entry = filler(2000);
            entry.extend_from_slice(&bytes);
            entry.extend(filler(2000));
            w.add_file("inner/entry.bin", &entry).await.map_err(|e| e.to_string())?;
            w.finish().await.map_err(|e| e.to_string())?;
        }
        std::fs::write(dir.join("backup.zip"), buf).map_err(|e| e.to_string())
    });
    zip_res?;
    let mut blobs = vec![];
    let mut stats = ScanStats::default();
    crate::framework::block_on(collect_dir(&dir, Side::Client, "selftest", &mut blobs, &mut stats))?;
    let found = scan(&reg, &m, &blobs, &[]);
    let sigs: BTreeSet<String> = found.iter().map(|f| f.signature.clone()).collect();
    if !sigs.contains("c03/plaintext/client-fs-vault/label/raw") {
        return Err(format!("planted file marker not reported: {:?}", sigs));
    }
    if !sigs.contains("c03/plaintext/archive/attachment/raw") {
        return Err(format!("planted zip entry marker not reported (entries {}): {:?}", stats.archive_entries, sigs));
    }
    if found.iter().any(|f| f.message.contains("clean.events")) {
        return Err("clean file reported".into());
    }
    planted += 2;
    let _ = std::fs::remove_dir_all(&dir);
    Ok(planted)
}

/// Histogram helper: count findings by signature.
pub fn by_signature(f: &[Finding]) -> BTreeMap<String, usize> {
    let mut m = BTreeMap::new();
    for x in f {
        *m.entry(x.signature.clone()).or_default() += 1;
    }
    m
}
