//! C06 — persisted event logs are faithful: storage, tree and order agree.
use crate::engine_evlog::*;
use crate::framework::*;
use serde_json::Value;

pub const META: PropertyMeta = PropertyMeta {
    id: "C06",
    level: "exploration",
    rule: "proptest-generated scripts (1..40 ops quick, 1..60 thorough) over 8 co-resident logs (account A: account, device, files, two folders, identity; account B: folder, account) in one directory tree / one sqlite file; ops: typed apply, apply_records with chosen times, patch_checked (matching / stale prefix / diverged / foreign / forged root / edited length), patch_unchecked, rewind (index or absent commit), clear, replace_all_events (correct / wrong checkpoints), re-open, diff_records; small per-type event pools so byte-identical events recur within and across logs. The same script runs on the file-system and the sqlite backend; after every op every log is compared with a Vec<(time, commit, bytes)> model (tree leaves/root/len, fresh instance + load_tree, forward stream, reversed reverse stream, SHA-256 of bytes) and the per-op answers of both backends are compared. Non-trivial = script contains a rewind that removed >= 2 records, or a rewind/clear that removed a record whose hash also occurs at a kept position or in another log. Distinct = distinct script.",
    assumptions: &[
        "sqlite's own durability is trusted: re-opening uses a fresh event-log instance on the same connection pool",
        "EventRecord.last_commit is not compared (the sqlite schema does not store it, by design)",
        "the order of the records returned by rewind() is not specified by the trait; both orders are accepted and classified",
        "replace_all_events with an empty patch is not generated (no caller can produce one)",
    ],
};

pub fn def() -> PropertyDef {
    PropertyDef {
        meta: META,
        shards: |_| 16,
        run,
        replay,
        timeout_s: |t| t.pick(1200, 4 * 3600),
    }
}

fn run(shard: &Shard, rep: &mut Report) {
    let t = shard.tier;
    drive(
        shard,
        rep,
        "scripts",
        shard.share(t.pick(1_500, 30_000)),
        script_strategy(false, t.pick(40, 60)),
        |s| check_script(s, false),
    );
}

fn replay(_shard: &Shard, _sub: &str, case: &Value) -> CheckResult {
    let s: Script = from_case(case).map_err(|e| Failure::new("harness", e))?;
    check_script(&s, false).1
}
