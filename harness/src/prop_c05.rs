//! C05 — merging never loses, duplicates or resurrects committed edits.
//!
//! Shares the convergence case runner of C04 and adds the multiset / order
//! oracle over the converged logs.
use crate::engine_sync::Rec;
use crate::framework::*;
use crate::prop_c04::*;
use serde_json::Value;
use std::collections::BTreeMap;

pub const META: PropertyMeta = PropertyMeta {
    id: "C05",
    level: "exploration",
    rule: "the C04 case generator biased towards divergence (every device gets 1..7 offline edits on a shared prefix; same-slot updates/deletes, renames to names from a 2-word pool, identical device / file events; clock skew and ties through the clock hook; all generated sync orders). For every case that converges, and per log (identity, account, device, files, every folder): with a = length of the common ancestor and D_d = the records device d appended offline (time, commit, bytes read from the device log before any sync), the converged suffix S must satisfy: multiplicity of each commit hash in S == max over d of its multiplicity in D_d (independent byte-identical events count once, one device's repeated events stay repeated); S contains nothing else; S is non-decreasing in time; each D_d minus the events shared with another device is a subsequence of S (a device's own events keep their relative order); the first a records are the ancestor. Sub-check merge-moves: the same oracle on cases whose shared history holds a second folder and whose edit mix adds moves of secrets between folders (delete in one folder log, create in the other) and folder creation. Non-trivial = at least two devices have non-empty suffixes for the same log and neither is a subset of the other. Distinct = distinct case.",
    assumptions: &[
        "state consequences (created on one appears on all, latest edit wins, no resurrection) follow from this log oracle together with C02 (every served folder equals the replay of its log) and C04 (all devices serve equal folders)",
        "cases that end in a reported conflict or in a tolerated known C04 finding are classified, not judged by this oracle",
        "history rewrites are excluded, as in the statement",
    ],
};

pub fn def() -> PropertyDef {
    PropertyDef {
        meta: META,
        shards: |_| 16,
        run,
        replay,
        timeout_s: |t| t.pick(2400, 6 * 3600),
    }
}

pub const K_DUP: &str = "c05/identical-independent-event-duplicated";

fn short(c: &[u8; 32]) -> String {
    hex::encode(&c[..4])
}

fn is_subsequence(d: &[Rec], s: &[Rec]) -> bool {
    let mut i = 0;
    for r in s {
        if i < d.len() && d[i].commit == r.commit {
            i += 1;
        }
    }
    i == d.len()
}

/// The C05 oracle on one converged outcome.
pub fn check_merge(out: &ConvOutcome, info: &mut CaseInfo) -> CheckResult {
    for (name, fin) in &out.final_logs {
        let Some(a) = out.ancestor_len.get(name).copied() else {
            // a log created offline (new folder): its ancestor is empty
            continue;
        };
        let kind = name.split(':').next().unwrap_or("");
        if a == 0 {
            // no shared prefix: the statement is about logs that share a common ancestor
            info.class(format!("no-common-ancestor/{kind}"));
            continue;
        }
        // ancestor intact
        let anc: Option<&Vec<Rec>> = out.offline_logs.get(0).and_then(|m| m.get(name));
        if let Some(anc) = anc {
            if fin.len() < a || anc.len() < a || fin[..a] != anc[..a] {
                return Err(Failure::new(
                    format!("c05/ancestor-changed/{kind}"),
                    format!("the first {a} records of the converged {name} log are not the common ancestor"),
                ));
            }
        }
        let s = &fin[a..];
        let suffixes: Vec<&[Rec]> = out
            .offline_logs
            .iter()
            .map(|m| m.get(name).map(|l| &l[a.min(l.len())..]).unwrap_or(&[]))
            .collect();
        let nonempty = suffixes.iter().filter(|d| !d.is_empty()).count();
        if nonempty >= 2 {
            // neither a subset of the other
            let sets: Vec<std::collections::BTreeSet<[u8; 32]>> = suffixes.iter().map(|d| d.iter().map(|r| r.commit).collect()).collect();
            let mut independent = false;
            for i in 0..sets.len() {
                for j in 0..sets.len() {
                    if i != j && !sets[i].is_empty() && !sets[j].is_empty() && !sets[i].is_subset(&sets[j]) && !sets[j].is_subset(&sets[i]) {
                        independent = true;
                    }
                }
            }
            if independent {
                info.nontrivial = true;
                info.class(format!("divergent-suffixes/{kind}"));
            }
        }
        // expected multiplicities
        let mut expect: BTreeMap<[u8; 32], usize> = BTreeMap::new();
        for d in &suffixes {
            let mut own: BTreeMap<[u8; 32], usize> = BTreeMap::new();
            for r in d.iter() {
                *own.entry(r.commit).or_default() += 1;
            }
            for (c, n) in own {
                let e = expect.entry(c).or_default();
                *e = (*e).max(n);
            }
        }
        let mut got: BTreeMap<[u8; 32], usize> = BTreeMap::new();
        for r in s {
            *got.entry(r.commit).or_default() += 1;
        }
        for (c, n) in &got {
            match expect.get(c) {
                None => {
                    return Err(Failure::new(
                        format!("c05/event-from-nowhere/{kind}"),
                        format!("the converged {name} log contains event {} that no device committed after the ancestor", short(c)),
                    ))
                }
                Some(e) if n > e => {
                    let independent = suffixes.iter().filter(|d| d.iter().any(|r| &r.commit == c)).count() >= 2;
                    return Err(Failure::new(
                        if independent { K_DUP.to_string() } else { format!("c05/event-duplicated/{kind}") },
                        format!(
                            "event {} occurs {} time(s) in the converged {name} log but at most {} time(s) on any one device{}",
                            short(c),
                            n,
                            e,
                            if independent { " (the byte-identical event was made independently on several devices and must count once)" } else { "" }
                        ),
                    ));
                }
                _ => {}
            }
        }
        for (c, e) in &expect {
            let n = got.get(c).copied().unwrap_or(0);
            if n < *e {
                return Err(Failure::new(
                    format!("c05/event-lost/{kind}"),
                    format!("event {} was committed {} time(s) on a device since the ancestor but occurs {} time(s) in the converged {name} log", short(c), e, n),
                ));
            }
        }
        // time order; an event made independently on several devices has several
        // timestamps (one per device) and counts once, so its position is not judged
        let multi: std::collections::BTreeSet<[u8; 32]> = expect
            .keys()
            .filter(|c| suffixes.iter().filter(|d| d.iter().any(|r| &r.commit == *c)).count() >= 2)
            .cloned()
            .collect();
        let judged: Vec<Rec> = s.iter().filter(|r| !multi.contains(&r.commit)).cloned().collect();
        for w in judged.windows(2) {
            if w[1].time < w[0].time {
                let show = |l: &[Rec]| l.iter().map(|r| format!("{}@{}", short(&r.commit), r.time - 1_700_000_000_000_000_000i128)).collect::<Vec<_>>().join(",");
                return Err(Failure::new(
                    format!("c05/not-in-timestamp-order/{kind}"),
                    format!("converged {name} log: event {} (t={}) precedes event {} (t={}); S=[{}]; device suffixes: {}", short(&w[0].commit), w[0].time, short(&w[1].commit), w[1].time,
                        show(s), suffixes.iter().map(|d| format!("[{}]", show(d))).collect::<Vec<_>>().join(" ")),
                ));
            }
        }
        // own order preserved
        for (d, suf) in suffixes.iter().enumerate() {
            // events that count once across devices cannot keep every device's order
            let own: Vec<Rec> = suf.iter().filter(|r| !multi.contains(&r.commit)).cloned().collect();
            if !is_subsequence(&own, &judged) {
                return Err(Failure::new(
                    format!("c05/own-order-changed/{kind}"),
                    format!("device {d}'s own events are not a subsequence of the converged {name} log"),
                ));
            }
        }
    }
    Ok(())
}

pub fn check_c05(c: &ConvCase, tol: Tolerate) -> (CaseInfo, CheckResult) {
    let mut info = CaseInfo::default();
    let (out, r) = block_on(run_conv_case(c, tol));
    fill_info(&mut info, c, &out);
    info.nontrivial = false;
    // C04 failures are C04's business: classify them here
    if let Err(f) = &r {
        info.class(format!("c04-outcome/{}", f.signature));
        if f.signature.starts_with("harness/") || f.signature.starts_with("edit/") {
            return (info, r);
        }
        return (info, Ok(()));
    }
    if !out.converged {
        info.class("not-converged");
        return (info, Ok(()));
    }
    let mut r = check_merge(&out, &mut info);
    // known root cause shared with C04 (events are addressed by hash: diff / rewind / scan look
    // for the last occurrence of a hash): once ONE device's log holds the same byte-identical
    // event twice, merges can drop one of the two - attributed to that root cause
    if out.has_repeats {
        if let Err(f) = &r {
            if f.signature.starts_with("c05/event-lost/") {
                r = Err(Failure::new(K_REPEAT_LOST, format!("[{}] {}", f.signature, f.message)));
            }
        }
    }
    (info, r)
}

pub const K_REPEAT_LOST: &str = "c05/event-lost/event-hash-repeats-within-a-log";

fn biased_case() -> impl proptest::strategy::Strategy<Value = ConvCase> {
    use proptest::prelude::*;
    case_strategy(8).prop_map(|mut c| {
        // every device edits: C05 is about divergent suffixes
        for (i, o) in c.offline.iter_mut().enumerate() {
            if o.is_empty() {
                o.push(crate::engine_sync::Edit::UpdateSecret { sec: 0, label: if i % 2 == 0 { "x".into() } else { "y".into() }, text: format!("t{i}") });
            }
        }
        c
    })
}

fn run(shard: &Shard, rep: &mut Report) {
    let t = shard.tier;
    drive(shard, rep, "merge", shard.share(t.pick(300, 5_000)), biased_case(), |c| {
        let mut tol = tolerate_for(shard, hash_of(c));
        // identical independent events are this property's subject: do not avoid them
        // unless the duplication itself is a listed finding
        if !shard.has_known(K_DUP) {
            tol.avoid = false;
        }
        check_c05(c, tol)
    });
    run_moves(shard, rep);
}

fn moves_case() -> impl proptest::strategy::Strategy<Value = ConvCase> {
    use proptest::prelude::*;
    let edits = prop_oneof![
        10 => crate::prop_c04::edit_strategy(),
        3 => (prop_oneof![Just(0u16), Just(40000u16), any::<u16>()], any::<u16>()).prop_map(|(sec, folder)| crate::engine_sync::Edit::MoveSecret { sec, folder }),
        1 => "[a-z]{1,3}".prop_map(|name| crate::engine_sync::Edit::CreateFolder { name }),
    ];
    crate::prop_c04::case_strategy_with(8, edits.boxed()).prop_map(|mut c| {
        // a second folder in the shared history so that moves have a destination
        c.pre.insert(0, crate::engine_sync::Edit::CreateFolder { name: "dest".into() });
        c
    })
}

fn run_moves(shard: &Shard, rep: &mut Report) {
    let t = shard.tier;
    drive(shard, rep, "merge-moves", shard.share(t.pick(160, 3_000)), moves_case(), |c| {
        let mut tol = tolerate_for(shard, hash_of(c));
        if !shard.has_known(K_DUP) {
            tol.avoid = false;
        }
        let (mut info, r) = check_c05(c, tol);
        if c.offline.iter().flatten().any(|e| matches!(e, crate::engine_sync::Edit::MoveSecret { .. })) {
            info.class("offline-move-between-folders");
        }
        (info, r)
    });
}

fn replay(_shard: &Shard, _sub: &str, case: &Value) -> CheckResult {
    let c: ConvCase = from_case(case).map_err(|e| Failure::new("harness", e))?;
    // tolerate the C04 known findings in replay too: this oracle only judges converged cases
    check_c05(&c, Tolerate { device_log: true, repeated_head: true, new_folder: true, avoid: false }).1
}
