//! C07 — patches apply only on the agreed base; a refused merge changes nothing.
use crate::engine_evlog::*;
use crate::framework::*;
use serde_json::Value;

pub const META: PropertyMeta = PropertyMeta {
    id: "C07",
    level: "exploration",
    rule: "storage level: the C06 script interpreter with a request-heavy op mix (patch_checked with matching / stale-prefix / diverged / foreign / forged-root / edited-length proofs, replace_all_events with correct / wrong-root / old-head / longer checkpoints, rewinds to present and absent commits) on both backends and all log types; oracle: a checked patch is applied iff the sender's view equals the log as a sequence, and after every refused or failed request every log (record stream with times and bytes, tree, fresh re-open) equals the model, which a refusal leaves unchanged. Sync level (sub-check `server-patch`): rewind-and-patch requests through the real server_helpers::event_patch and the client's AutoMerge::rewind_local against generated logs. Non-trivial = a refused checked patch in a script that also rewound >= 2 records, or a refused replace-all on a non-empty log. Distinct = distinct script.",
    assumptions: &[
        "a proof whose root equals the log's root names the current head even if its length/indices were edited (root equality is what identifies a head)",
        "replace_all_events with an empty patch is not generated (no caller can produce one)",
    ],
};

pub fn def() -> PropertyDef {
    PropertyDef {
        meta: META,
        shards: |_| 16,
        run,
        replay,
        timeout_s: |t| t.pick(1200, 4 * 3600),
    }
}

fn run(shard: &Shard, rep: &mut Report) {
    let t = shard.tier;
    drive(
        shard,
        rep,
        "scripts",
        shard.share(t.pick(1_000, 20_000)),
        script_strategy(true, t.pick(30, 50)),
        |s| check_script(s, true),
    );
    crate::prop_c07_patch::run(shard, rep);
}

fn replay(_shard: &Shard, sub: &str, case: &Value) -> CheckResult {
    match sub {
        "scripts" => {
            let s: Script = from_case(case).map_err(|e| Failure::new("harness", e))?;
            check_script(&s, true).1
        }
        "server-patch" => crate::prop_c07_patch::replay(case),
        _ => Err(Failure::new("harness", format!("unknown sub-check {sub}"))),
    }
}
