//! C07 sync-level part: rewind-and-patch requests through the real
//! `server_helpers::event_patch` and the client's `AutoMerge::rewind_local`.
//! A refused request (conflict or error) must leave the log exactly as it
//! was: same records, same order, same tree.
use crate::engine_acct::{cfg_strategy, AcctCfg};
use crate::engine_sync::*;
use crate::framework::*;
use proptest::prelude::*;
use serde::{Deserialize, Serialize};
use serde_json::Value;
use sos_account::Account;
use sos_core::{
    commit::{CommitHash, CommitProof, CommitTree},
    events::{patch::CheckedPatch, EventLogType, EventRecord, WriteEvent},
    UtcDateTime,
};
use sos_protocol::{PatchRequest, SyncClient};
use sos_remote_sync::AutoMerge;

#[derive(Clone, Debug, Serialize, Deserialize, PartialEq, Eq, Hash)]
pub enum ProofKind {
    /// head proof of the log cut at the rewind target (what a correct sender computes)
    Matching,
    /// head proof of a shorter prefix
    Shorter(u16),
    /// matching proof with a flipped root bit
    ForgedRoot(u8),
    /// head proof of the full (un-rewound) log
    FullLog,
}

#[derive(Clone, Debug, Serialize, Deserialize, PartialEq, Eq, Hash)]
pub struct PatchCase {
    pub cfg: AcctCfg,
    pub server_db: bool,
    /// extra edits so that the folder log has depth
    pub depth: u8,
    /// rewind target: fraction of the log, or None = absent commit
    pub target: Option<u16>,
    pub proof: ProofKind,
    /// number of records in the patch (synthetic SetVaultName / DeleteSecret events)
    pub patch_len: u8,
    /// send to the server (true) or run the client-side rewind_local (false)
    pub server_side: bool,
}

pub fn case_strategy() -> impl Strategy<Value = PatchCase> {
    (
        cfg_strategy(),
        any::<bool>(),
        1u8..8,
        proptest::option::weighted(0.85, any::<u16>()),
        prop_oneof![
            3 => Just(ProofKind::Matching),
            3 => any::<u16>().prop_map(ProofKind::Shorter),
            2 => any::<u8>().prop_map(ProofKind::ForgedRoot),
            2 => Just(ProofKind::FullLog),
        ],
        0u8..4,
        any::<bool>(),
    )
        .prop_map(|(cfg, server_db, depth, target, proof, patch_len, server_side)| PatchCase { cfg, server_db, depth, target, proof, patch_len, server_side })
}

fn tree_head(commits: &[[u8; 32]]) -> Option<CommitProof> {
    if commits.is_empty() {
        return None;
    }
    let mut t = CommitTree::new();
    let mut l = commits.to_vec();
    t.append(&mut l);
    t.commit();
    t.head().ok()
}

async fn synthetic_patch(n: u8) -> Vec<EventRecord> {
    let mut v = vec![];
    for i in 0..n {
        let ev = if i % 2 == 0 {
            WriteEvent::SetVaultName(format!("patched-{i}"))
        } else {
            WriteEvent::DeleteSecret(uuid::Uuid::from_bytes([0xD0 + i; 16]))
        };
        let bytes = sos_core::encode(&ev).await.unwrap();
        let commit = CommitHash(CommitTree::hash(&bytes));
        let t = time::OffsetDateTime::from_unix_timestamp(1_800_000_000 + i as i64).unwrap();
        v.push(EventRecord::new(UtcDateTime::from(t), Default::default(), commit, bytes));
    }
    v
}

pub fn check(c: &PatchCase) -> (CaseInfo, CheckResult) {
    let mut info = CaseInfo::default();
    let r = block_on(async {
        let r = run_case(c, &mut info).await;
        sos_core::verif::set_clock(None);
        r
    });
    (info, r)
}

async fn run_case(c: &PatchCase, info: &mut CaseInfo) -> CheckResult {
    let mut w = SyncWorld::new(&c.cfg, c.server_db).await?;
    apply_edit(&mut w, 0, &Edit::CreateSecret { folder: 0, label: "one".into(), text: "1".into() }).await?;
    for i in 0..c.depth {
        apply_edit(&mut w, 0, &Edit::UpdateSecret { sec: 0, label: "one".into(), text: format!("d{i}") }).await?;
    }
    for _ in 0..2 {
        w.sync(0).await.map_err(|e| Failure::new("harness/initial-sync", format!("initial sync failed: {e}")))?;
    }
    let folder_id = {
        let a = w.devices[0].account.lock().await;
        *a.default_folder().await.ok_or_else(|| Failure::new("harness/no-default-folder", "no default folder"))?.id()
    };
    let key = format!("folder:{folder_id}");
    let side = if c.server_side { "server" } else { "client" };
    let before = if c.server_side {
        let sv = w.server.read().await;
        all_logs(sv.storage.as_ref().unwrap()).await?
    } else {
        let a = w.devices[0].account.lock().await;
        all_logs(&*a).await?
    };
    let log = before.get(&key).cloned().unwrap_or_default();
    let commits: Vec<[u8; 32]> = log.iter().map(|r| r.commit).collect();
    // rewind target and the log as it is after the rewind
    let (target, cut): (CommitHash, Option<usize>) = match c.target {
        None => (CommitHash([0xAB; 32]), None),
        Some(f) => {
            let i = pick(f, commits.len());
            let last = commits.iter().rposition(|x| *x == commits[i]).unwrap();
            (CommitHash(commits[i]), Some(last + 1))
        }
    };
    let depth_removed = cut.map(|k| commits.len() - k).unwrap_or(0);
    let matching = cut.and_then(|k| tree_head(&commits[..k]));
    let (proof, label) = match &c.proof {
        ProofKind::Matching => (matching.clone(), "matching"),
        ProofKind::Shorter(f) => {
            let k = cut.unwrap_or(commits.len());
            if k < 2 {
                (matching.clone(), "matching")
            } else {
                (tree_head(&commits[..1 + pick(*f, k - 1)]), "shorter-prefix")
            }
        }
        ProofKind::ForgedRoot(bit) => {
            let mut p = matching.clone().or_else(|| tree_head(&commits));
            if let Some(p) = p.as_mut() {
                p.root.0[(*bit as usize / 8) % 32] ^= 1 << (bit % 8);
            }
            (p, "forged-root")
        }
        ProofKind::FullLog => (tree_head(&commits), "full-log"),
    };
    let Some(proof) = proof else { return Ok(()) };
    let expect_applied = cut.is_some() && matching.as_ref().map(|m| m.root == proof.root).unwrap_or(false);
    let patch = synthetic_patch(c.patch_len).await;
    info.class(format!("{side}/{label}"));
    info.class(format!("{side}/rewind-depth/{}", if depth_removed >= 2 { ">=2" } else if depth_removed == 1 { "1" } else { "0" }));

    let outcome: Result<CheckedPatch, String> = if c.server_side {
        let client = w.devices[0].bridge.client.clone();
        client
            .patch(PatchRequest { log_type: EventLogType::Folder(folder_id), commit: Some(target), proof: proof.clone(), patch: patch.clone() })
            .await
            .map(|r| r.checked_patch)
            .map_err(|e| e.to_string())
    } else {
        let bridge = w.devices[0].bridge.clone();
        w.enter(0);
        let r = bridge.rewind_local(&EventLogType::Folder(folder_id), target, proof.clone(), patch.clone()).await.map_err(|e| e.to_string());
        w.leave(0);
        r
    };
    let after = if c.server_side {
        let sv = w.server.read().await;
        all_logs(sv.storage.as_ref().unwrap()).await?
    } else {
        let a = w.devices[0].account.lock().await;
        all_logs(&*a).await?
    };
    let applied = matches!(outcome, Ok(CheckedPatch::Success(_)));
    match (&outcome, expect_applied) {
        (Ok(CheckedPatch::Success(_)), false) => {
            return Err(Failure::new(
                format!("c07/{side}/patch-applied-on-wrong-base/{label}"),
                format!("[{side}] rewind-and-patch with a {label} proof was applied (rewind target {:?}, log of {} records)", c.target, commits.len()),
            ));
        }
        (Ok(CheckedPatch::Conflict { .. }), true) | (Err(_), true) => {
            // a correct request on a non-trivial rewind must be accepted
            return Err(Failure::new(
                format!("c07/{side}/correct-request-refused"),
                format!("[{side}] rewind-and-patch with the matching proof was refused: {:?}", outcome.as_ref().map(|_| "conflict").map_err(|e| e.clone())),
            ));
        }
        _ => {}
    }
    if applied {
        // log == prefix ++ patch
        let k = cut.unwrap();
        let got = after.get(&key).cloned().unwrap_or_default();
        let mut want: Vec<[u8; 32]> = commits[..k].to_vec();
        want.extend(patch.iter().map(|r| *r.commit().as_ref()));
        if got.iter().map(|r| r.commit).collect::<Vec<_>>() != want {
            return Err(Failure::new(
                format!("c07/{side}/applied-log-not-prefix-plus-patch"),
                format!("[{side}] after an accepted rewind-and-patch the log has {} records, expected {}", got.len(), want.len()),
            ));
        }
        info.class(format!("{side}/applied"));
    } else {
        info.class(format!("{side}/refused"));
        if depth_removed >= 2 {
            info.nontrivial = true;
        }
        // refusal changes nothing, on any log
        for (name, l) in &before {
            let now = after.get(name);
            if now != Some(l) {
                let got = now.cloned().unwrap_or_default();
                let how = if got.len() == l.len() && {
                    let mut a: Vec<_> = got.iter().map(|r| r.commit).collect();
                    let mut b: Vec<_> = l.iter().map(|r| r.commit).collect();
                    a.sort();
                    b.sort();
                    a == b
                } {
                    "reordered"
                } else if got.len() < l.len() {
                    "shortened"
                } else {
                    "changed"
                };
                return Err(Failure::new(
                    format!("c07/{side}/refused-request-changed-log/{how}"),
                    format!("[{side}] a refused rewind-and-patch ({label}, rewind depth {depth_removed}, outcome {}) left the {name} log {how}: {} records before, {} after", match &outcome { Ok(_) => "conflict".to_string(), Err(e) => format!("error {}", e.chars().take(60).collect::<String>()) }, l.len(), got.len()),
                ));
            }
        }
    }
    Ok(())
}

pub fn run(shard: &Shard, rep: &mut Report) {
    let t = shard.tier;
    drive(shard, rep, "server-patch", shard.share(t.pick(300, 5_000)), case_strategy(), |c| check(c));
}

pub fn replay(case: &Value) -> CheckResult {
    let c: PatchCase = from_case(case).map_err(|e| Failure::new("harness", e))?;
    check(&c).1
}
