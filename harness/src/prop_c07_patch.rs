//! C07 sync-level part: rewind-and-patch requests through the real
//! `server_helpers::event_patch` and the client's `AutoMerge::rewind_local`.
//! A refused request (conflict or error) must leave the log exactly as it
//! was: same records, same order, same tree.
use crate::engine_acct::{cfg_strategy, AcctCfg};
use crate::engine_sync::*;
use crate::framework::*;
use proptest::prelude::*;
use serde::{Deserialize, Serialize};
use serde_json::Value;
use sos_account::Account;
use sos_core::{
    commit::{CommitHash, CommitProof, CommitTree},
    device::{DevicePublicKey, TrustedDevice},
    events::{
        patch::{AccountDiff, CheckedPatch, DeviceDiff, FileDiff, FolderDiff, Patch},
        AccountEvent, DeviceEvent, EventLogType, EventRecord, FileEvent, WriteEvent,
    },
    ExternalFileName, SecretPath, UtcDateTime,
};
use sos_protocol::{PatchRequest, SyncClient};
use sos_remote_sync::AutoMerge;
use sos_sync::{Merge, MergeOutcome};

#[derive(Clone, Debug, Serialize, Deserialize, PartialEq, Eq, Hash)]
pub enum ProofKind {
    /// head proof of the log cut at the rewind target (what a correct sender computes)
    Matching,
    /// head proof of a shorter prefix
    Shorter(u16),
    /// matching proof with a flipped root bit
    ForgedRoot(u8),
    /// head proof of the full (un-rewound) log
    FullLog,
    /// the default proof: what a sender uses for a log the receiver does not have yet
    DefaultProof,
}

#[derive(Clone, Debug, Default, Serialize, Deserialize, PartialEq, Eq, Hash)]
pub enum LogSel {
    Identity,
    Account,
    Device,
    Files,
    #[default]
    Folder,
}

#[derive(Clone, Debug, Serialize, Deserialize, PartialEq, Eq, Hash)]
pub struct PatchCase {
    pub cfg: AcctCfg,
    pub server_db: bool,
    /// extra edits so that the folder log has depth
    pub depth: u8,
    /// rewind target: fraction of the log, or None = absent commit
    pub target: Option<u16>,
    pub proof: ProofKind,
    /// number of records in the patch (synthetic SetVaultName / DeleteSecret events)
    pub patch_len: u8,
    /// send to the server (true) or run the client-side rewind_local (false)
    pub server_side: bool,
    /// which log the request addresses
    #[serde(default)]
    pub log: LogSel,
    /// plain patch request without a rewind (`commit: None`); `target` is ignored
    #[serde(default)]
    pub no_rewind: bool,
    /// file log only: number of file events planted first through an init diff
    #[serde(default)]
    pub prefill_files: u8,
    /// server only: a forced update (`PUT sync/account`, UpdateSet) that replaces the addressed log
    /// with a prefix of its own records; `proof` picks the checkpoint sent along
    #[serde(default)]
    pub force_update: bool,
}

pub fn case_strategy() -> impl Strategy<Value = PatchCase> {
    (
        cfg_strategy(),
        any::<bool>(),
        1u8..8,
        proptest::option::weighted(0.85, any::<u16>()),
        prop_oneof![
            3 => Just(ProofKind::Matching),
            3 => any::<u16>().prop_map(ProofKind::Shorter),
            2 => any::<u8>().prop_map(ProofKind::ForgedRoot),
            2 => Just(ProofKind::FullLog),
            2 => Just(ProofKind::DefaultProof),
        ],
        0u8..4,
        any::<bool>(),
        prop_oneof![
            4 => Just(LogSel::Folder),
            3 => Just(LogSel::Files),
            2 => Just(LogSel::Identity),
            2 => Just(LogSel::Account),
            2 => Just(LogSel::Device),
        ],
        prop_oneof![2 => Just(false), 1 => Just(true)],
        0u8..4,
        prop_oneof![4 => Just(false), 1 => Just(true)],
    )
        .prop_map(|(cfg, server_db, depth, target, proof, patch_len, server_side, log, no_rewind, prefill_files, force_update)| PatchCase {
            cfg,
            server_db,
            depth,
            target,
            proof,
            patch_len,
            server_side,
            log,
            no_rewind,
            prefill_files,
            force_update,
        })
}

fn tree_head(commits: &[[u8; 32]]) -> Option<CommitProof> {
    if commits.is_empty() {
        return None;
    }
    let mut t = CommitTree::new();
    let mut l = commits.to_vec();
    t.append(&mut l);
    t.commit();
    t.head().ok()
}

async fn synthetic_patch(log: &LogSel, n: u8, salt: u8) -> Vec<EventRecord> {
    let mut v = vec![];
    for i in 0..n {
        let tag = salt.wrapping_add(i);
        let bytes = match log {
            LogSel::Identity | LogSel::Folder => {
                let ev = if i % 2 == 0 { WriteEvent::SetVaultName(format!("patched-{tag}")) } else { WriteEvent::DeleteSecret(uuid::Uuid::from_bytes([tag; 16])) };
                sos_core::encode(&ev).await.unwrap()
            }
            LogSel::Account => sos_core::encode(&AccountEvent::RenameAccount(format!("patched-{tag}"))).await.unwrap(),
            LogSel::Device => {
                let key: DevicePublicKey = [tag; 32].into();
                sos_core::encode(&DeviceEvent::Trust(TrustedDevice::new(key, None, None))).await.unwrap()
            }
            LogSel::Files => {
                let path = SecretPath(uuid::Uuid::from_bytes([0xF0; 16]), uuid::Uuid::from_bytes([tag; 16]));
                let name: ExternalFileName = [tag; 32].into();
                let ev = if i % 2 == 0 { FileEvent::CreateFile(path, name) } else { FileEvent::DeleteFile(path, name) };
                sos_core::encode(&ev).await.unwrap()
            }
        };
        let commit = CommitHash(CommitTree::hash(&bytes));
        let t = time::OffsetDateTime::from_unix_timestamp(1_800_000_000 + salt as i64 * 100 + i as i64).unwrap();
        v.push(EventRecord::new(UtcDateTime::from(t), Default::default(), commit, bytes));
    }
    v
}

/// A plain merge (no rewind) on the client through the `Merge` trait, as `execute_sync` does
/// with the server's answer.
async fn client_merge(w: &SyncWorld, log_type: &EventLogType, proof: CommitProof, patch: Vec<EventRecord>) -> Result<CheckedPatch, String> {
    let mut a = w.devices[0].account.lock().await;
    let mut outcome = MergeOutcome::default();
    let es = |e: sos_account::Error| e.to_string();
    match log_type {
        EventLogType::Identity => a.merge_identity(FolderDiff { last_commit: None, checkpoint: proof, patch: Patch::new(patch) }, &mut outcome).await.map_err(es),
        EventLogType::Account => a.merge_account(AccountDiff { last_commit: None, checkpoint: proof, patch: Patch::new(patch) }, &mut outcome).await.map(|r| r.0).map_err(es),
        EventLogType::Device => a.merge_device(DeviceDiff { last_commit: None, checkpoint: proof, patch: Patch::new(patch) }, &mut outcome).await.map_err(es),
        EventLogType::Files => a.merge_files(FileDiff { last_commit: None, checkpoint: proof, patch: Patch::new(patch) }, &mut outcome).await.map_err(es),
        EventLogType::Folder(id) => a.merge_folder(id, FolderDiff { last_commit: None, checkpoint: proof, patch: Patch::new(patch) }, &mut outcome).await.map(|r| r.0).map_err(es),
    }
}

async fn logs_of(w: &SyncWorld, server_side: bool) -> Result<std::collections::BTreeMap<String, Vec<Rec>>, Failure> {
    if server_side {
        let sv = w.server.read().await;
        all_logs(sv.storage.as_ref().unwrap()).await
    } else {
        let a = w.devices[0].account.lock().await;
        all_logs(&*a).await
    }
}

pub fn check(c: &PatchCase) -> (CaseInfo, CheckResult) {
    let mut info = CaseInfo::default();
    let r = block_on(async {
        let r = run_case(c, &mut info).await;
        sos_core::verif::set_clock(None);
        r
    });
    (info, r)
}

async fn run_case(c: &PatchCase, info: &mut CaseInfo) -> CheckResult {
    let mut w = SyncWorld::new(&c.cfg, c.server_db).await?;
    apply_edit(&mut w, 0, &Edit::CreateSecret { folder: 0, label: "one".into(), text: "1".into() }).await?;
    for i in 0..c.depth {
        apply_edit(&mut w, 0, &Edit::UpdateSecret { sec: 0, label: "one".into(), text: format!("d{i}") }).await?;
    }
    // depth for the addressed log as well, so that rewinds on it remove several records
    for i in 0..(c.depth % 4) {
        let e = match c.log {
            LogSel::Device => Some(Edit::TrustDevice { key: i % 3 }),
            LogSel::Account => Some(Edit::RenameAccount { name: format!("n{i}") }),
            LogSel::Identity => Some(Edit::CreateFolder { name: format!("f{i}") }),
            // the file log gets its depth from the init-diff prefill below
            LogSel::Files | LogSel::Folder => None,
        };
        if let Some(e) = e {
            apply_edit(&mut w, 0, &e).await?;
        }
    }
    for _ in 0..2 {
        w.sync(0).await.map_err(|e| Failure::new("harness/initial-sync", format!("initial sync failed: {e}")))?;
    }
    let folder_id = {
        let a = w.devices[0].account.lock().await;
        *a.default_folder().await.ok_or_else(|| Failure::new("harness/no-default-folder", "no default folder"))?.id()
    };
    let (key, log_type) = match c.log {
        LogSel::Identity => ("identity".to_string(), EventLogType::Identity),
        LogSel::Account => ("account".to_string(), EventLogType::Account),
        LogSel::Device => ("device".to_string(), EventLogType::Device),
        LogSel::Files => ("files".to_string(), EventLogType::Files),
        LogSel::Folder => (format!("folder:{folder_id}"), EventLogType::Folder(folder_id)),
    };
    let side = if c.server_side { "server" } else { "client" };
    // file log: plant events through an init diff (the way a first file reaches a replica);
    // on the empty log this must be accepted
    if c.log == LogSel::Files && c.prefill_files > 0 {
        let pre = synthetic_patch(&c.log, c.prefill_files, 0x40).await;
        let r = if c.server_side {
            let client = w.devices[0].bridge.client.clone();
            client.patch(PatchRequest { log_type, commit: None, proof: CommitProof::default(), patch: pre.clone() }).await.map(|r| r.checked_patch).map_err(|e| e.to_string())
        } else {
            client_merge(&w, &log_type, CommitProof::default(), pre.clone()).await
        };
        if !matches!(r, Ok(CheckedPatch::Success(_))) {
            return Err(Failure::new(
                format!("c07/{side}/init-diff-on-empty-file-log-refused"),
                format!("[{side}] the init diff ({} file events, default checkpoint) on an empty file log was refused: {:?}", pre.len(), r.map(|_| "conflict")),
            ));
        }
    }
    let before = logs_of(&w, c.server_side || c.force_update).await?;
    let log = before.get(&key).cloned().unwrap_or_default();
    let commits: Vec<[u8; 32]> = log.iter().map(|r| r.commit).collect();
    if c.force_update {
        return force_update_case(c, &w, info, &key, &log_type, &log, &before).await;
    }
    // rewind target and the log as it is after the rewind
    let (target, cut): (CommitHash, Option<usize>) = match c.target {
        _ if c.no_rewind => (CommitHash([0; 32]), Some(commits.len())),
        None => (CommitHash([0xAB; 32]), None),
        Some(f) if commits.is_empty() => {
            let _ = f;
            (CommitHash([0xAB; 32]), None)
        }
        Some(f) => {
            let i = pick(f, commits.len());
            let last = commits.iter().rposition(|x| *x == commits[i]).unwrap();
            (CommitHash(commits[i]), Some(last + 1))
        }
    };
    let depth_removed = cut.map(|k| commits.len() - k).unwrap_or(0);
    let matching = cut.and_then(|k| tree_head(&commits[..k]));
    let (proof, label) = match &c.proof {
        ProofKind::Matching => (matching.clone(), "matching"),
        ProofKind::Shorter(f) => {
            let k = cut.unwrap_or(commits.len());
            if k < 2 {
                (matching.clone(), "matching")
            } else {
                (tree_head(&commits[..1 + pick(*f, k - 1)]), "shorter-prefix")
            }
        }
        ProofKind::ForgedRoot(bit) => {
            let mut p = matching.clone().or_else(|| tree_head(&commits));
            if let Some(p) = p.as_mut() {
                p.root.0[(*bit as usize / 8) % 32] ^= 1 << (bit % 8);
            }
            (p, "forged-root")
        }
        ProofKind::FullLog => (tree_head(&commits), "full-log"),
        ProofKind::DefaultProof => (Some(CommitProof::default()), "default-proof"),
    };
    // an empty log has no head: the sender's view of it is the default proof
    let (proof, label) = match proof {
        Some(p) => (p, label),
        None => (CommitProof::default(), "default-proof"),
    };
    // applied iff the sender's view equals the log after the rewind; an empty log is
    // described by the default proof (only the file log can be empty)
    let expect_applied = match (&matching, cut) {
        (Some(m), Some(_)) => m.root == proof.root && m.length == proof.length,
        (None, Some(0)) => proof == CommitProof::default() && c.log == LogSel::Files,
        _ => false,
    };
    let patch = synthetic_patch(&c.log, c.patch_len, 0xD0).await;
    let side_label = format!("{side}/{}", if c.no_rewind { "plain-patch" } else { "rewind-and-patch" });
    info.class(side_label);
    info.class(format!("{side}/log/{:?}", c.log));
    if c.log == LogSel::Files {
        info.class(format!("{side}/file-log/{}", if commits.is_empty() { "empty" } else { "non-empty" }));
    }
    info.class(format!("{side}/{label}"));
    info.class(format!("{side}/rewind-depth/{}", if depth_removed >= 2 { ">=2" } else if depth_removed == 1 { "1" } else { "0" }));

    let outcome: Result<CheckedPatch, String> = if c.server_side {
        let client = w.devices[0].bridge.client.clone();
        client
            .patch(PatchRequest { log_type, commit: if c.no_rewind { None } else { Some(target) }, proof: proof.clone(), patch: patch.clone() })
            .await
            .map(|r| r.checked_patch)
            .map_err(|e| e.to_string())
    } else if c.no_rewind {
        client_merge(&w, &log_type, proof.clone(), patch.clone()).await
    } else {
        let bridge = w.devices[0].bridge.clone();
        w.enter(0);
        let r = bridge.rewind_local(&log_type, target, proof.clone(), patch.clone()).await.map_err(|e| e.to_string());
        w.leave(0);
        r
    };
    let after = logs_of(&w, c.server_side).await?;
    let applied = matches!(outcome, Ok(CheckedPatch::Success(_)));
    match (&outcome, expect_applied) {
        (Ok(CheckedPatch::Success(_)), false) => {
            return Err(Failure::new(
                format!("c07/{side}/patch-applied-on-wrong-base/{label}"),
                format!("[{side}] rewind-and-patch with a {label} proof was applied (rewind target {:?}, log of {} records)", c.target, commits.len()),
            ));
        }
        // (an empty patch appends nothing either way: only 'unchanged' is checked for it)
        (Ok(CheckedPatch::Conflict { .. }), true) | (Err(_), true) if !patch.is_empty() => {
            // a correct request on a non-trivial rewind must be accepted
            return Err(Failure::new(
                format!("c07/{side}/correct-request-refused"),
                format!("[{side}] rewind-and-patch with the matching proof was refused: {:?}", outcome.as_ref().map(|_| "conflict").map_err(|e| e.clone())),
            ));
        }
        _ => {}
    }
    if applied {
        // log == prefix ++ patch
        let k = cut.unwrap();
        let got = after.get(&key).cloned().unwrap_or_default();
        let mut want: Vec<[u8; 32]> = commits[..k].to_vec();
        want.extend(patch.iter().map(|r| *r.commit().as_ref()));
        if got.iter().map(|r| r.commit).collect::<Vec<_>>() != want {
            return Err(Failure::new(
                format!("c07/{side}/applied-log-not-prefix-plus-patch"),
                format!("[{side}] after an accepted rewind-and-patch the log has {} records, expected {}", got.len(), want.len()),
            ));
        }
        info.class(format!("{side}/applied"));
    } else {
        info.class(format!("{side}/refused"));
        if depth_removed >= 2 {
            info.nontrivial = true;
        }
        // refusal changes nothing, on any log
        for (name, l) in &before {
            let now = after.get(name);
            if now != Some(l) {
                let got = now.cloned().unwrap_or_default();
                let how = if got.len() == l.len() && {
                    let mut a: Vec<_> = got.iter().map(|r| r.commit).collect();
                    let mut b: Vec<_> = l.iter().map(|r| r.commit).collect();
                    a.sort();
                    b.sort();
                    a == b
                } {
                    "reordered"
                } else if got.len() < l.len() {
                    "shortened"
                } else {
                    "changed"
                };
                return Err(Failure::new(
                    format!("c07/{side}/refused-request-changed-log/{how}"),
                    format!("[{side}] a refused rewind-and-patch ({label}, rewind depth {depth_removed}, outcome {}) left the {name} log {how}: {} records before, {} after", match &outcome { Ok(_) => "conflict".to_string(), Err(e) => format!("error {}", e.chars().take(60).collect::<String>()) }, l.len(), got.len()),
                ));
            }
        }
    }
    Ok(())
}

/// A forced update of one log on the server: the log is replaced by a prefix of its own
/// records. Applied iff the checkpoint is the head of the records sent; a refusal (error) must
/// leave every log of the server as it was.
async fn force_update_case(
    c: &PatchCase,
    w: &SyncWorld,
    info: &mut CaseInfo,
    key: &str,
    log_type: &EventLogType,
    log: &[Rec],
    before: &std::collections::BTreeMap<String, Vec<Rec>>,
) -> CheckResult {
    if log.is_empty() {
        return Ok(());
    }
    // the records sent: a prefix of the log (the whole log when target is None)
    let keep = match c.target {
        None => log.len(),
        Some(f) => 1 + pick(f, log.len()),
    };
    let sent: Vec<EventRecord> = log[..keep]
        .iter()
        .map(|r| {
            let t = time::OffsetDateTime::from_unix_timestamp_nanos(r.time).unwrap();
            EventRecord::new(UtcDateTime::from(t), Default::default(), CommitHash(r.commit), r.bytes.clone())
        })
        .collect();
    let sent_commits: Vec<[u8; 32]> = log[..keep].iter().map(|r| r.commit).collect();
    let correct = tree_head(&sent_commits).unwrap();
    let (checkpoint, label) = match &c.proof {
        ProofKind::Matching => (correct.clone(), "correct"),
        ProofKind::Shorter(f) => {
            if keep < 2 {
                (correct.clone(), "correct")
            } else {
                (tree_head(&sent_commits[..1 + pick(*f, keep - 1)]).unwrap(), "shorter-prefix")
            }
        }
        ProofKind::ForgedRoot(bit) => {
            let mut p = correct.clone();
            p.root.0[(*bit as usize / 8) % 32] ^= 1 << (bit % 8);
            (p, "forged-root")
        }
        ProofKind::FullLog => (tree_head(&log.iter().map(|r| r.commit).collect::<Vec<_>>()).unwrap(), if keep == log.len() { "correct" } else { "old-head" }),
        ProofKind::DefaultProof => (CommitProof::default(), "default-proof"),
    };
    let expect_applied = checkpoint == correct;
    info.class("server/force-update");
    info.class(format!("server/force-update/log/{:?}", c.log));
    info.class(format!("server/force-update/{label}"));
    let mut set = sos_sync::UpdateSet::default();
    match log_type {
        EventLogType::Identity => set.identity = Some(FolderDiff { last_commit: None, checkpoint, patch: Patch::new(sent) }),
        EventLogType::Account => set.account = Some(AccountDiff { last_commit: None, checkpoint, patch: Patch::new(sent) }),
        EventLogType::Device => set.device = Some(DeviceDiff { last_commit: None, checkpoint, patch: Patch::new(sent) }),
        EventLogType::Files => set.files = Some(FileDiff { last_commit: None, checkpoint, patch: Patch::new(sent) }),
        EventLogType::Folder(id) => {
            set.folders.insert(*id, FolderDiff { last_commit: None, checkpoint, patch: Patch::new(sent) });
        }
    }
    let client = w.devices[0].bridge.client.clone();
    let outcome = client.update_account(set).await.map_err(|e| e.to_string());
    let after = logs_of(w, true).await?;
    match (&outcome, expect_applied) {
        (Ok(()), false) => Err(Failure::new(
            format!("c07/server/force-update-applied-with-wrong-checkpoint/{label}"),
            format!("[server] a forced update of the {key} log with a {label} checkpoint was accepted"),
        )),
        (Err(e), true) => Err(Failure::new(
            "c07/server/force-update-correct-request-refused",
            format!("[server] a forced update of the {key} log with the correct checkpoint ({keep} of {} records) was refused: {e}", log.len()),
        )),
        (Ok(()), true) => {
            let got: Vec<[u8; 32]> = after.get(key).map(|l| l.iter().map(|r| r.commit).collect()).unwrap_or_default();
            if got != sent_commits {
                return Err(Failure::new(
                    "c07/server/force-update-log-differs-from-request",
                    format!("[server] after an accepted forced update the {key} log has {} records, {} were sent", got.len(), sent_commits.len()),
                ));
            }
            info.class("server/force-update/applied");
            Ok(())
        }
        (Err(e), false) => {
            info.class("server/force-update/refused");
            info.nontrivial = true;
            for (name, l) in before {
                let now = after.get(name);
                if now != Some(l) {
                    let n = now.map(|x| x.len()).unwrap_or(0);
                    return Err(Failure::new(
                        format!("c07/server/refused-force-update-changed-log/{}", if n == 0 { "emptied" } else if n < l.len() { "shortened" } else { "changed" }),
                        format!("[server] a refused forced update ({label} checkpoint, error {}) left the {name} log changed: {} records before, {} after", e.chars().take(80).collect::<String>(), l.len(), n),
                    ));
                }
            }
            Ok(())
        }
    }
}

pub fn run(shard: &Shard, rep: &mut Report) {
    let t = shard.tier;
    drive(shard, rep, "server-patch", shard.share(t.pick(400, 6_000)), case_strategy(), |c| check(c));
}

pub fn replay(case: &Value) -> CheckResult {
    let c: PatchCase = from_case(case).map_err(|e| Failure::new("harness", e))?;
    check(&c).1
}
