//! C08 — commit comparison tells the truth about who is ahead.
//!
//! Engine D: pure `CommitTree` / `CommitProof`.
//! * `exhaustive`: all ordered pairs (A, B) of leaf sequences over {a,b,c}
//!   up to a length bound; head-proof comparison and single-leaf proofs at
//!   every index of B.
//! * `random`: long pairs built as shared prefix + divergent suffixes with
//!   re-converging leaves; head proofs, single- and multi-leaf proofs.
use crate::framework::*;
use crate::{ensure, fail};
use proptest::prelude::*;
use serde::{Deserialize, Serialize};
use serde_json::{json, Value};
use sos_core::commit::{CommitTree, Comparison};

pub const META: PropertyMeta = PropertyMeta {
    id: "C08",
    level: "exploration",
    rule: "exhaustive: every ordered pair (A,B) of leaf sequences over a 3-letter alphabet with 1<=|A|,|B|<=N (N=5 quick, 6 thorough), each checked for the head proof and for a single-leaf proof at every index of B; random: pairs up to length 300 built as common prefix + divergent suffixes + re-converging equal leaves at equal indices, with head, single- and multi-leaf proofs; scan: ancestor search through the real AutoMerge::scan_proofs over a wire-encoded direct client; the server-side divergent suffix has 0..5, 30..39 or 62..71 events so that the common ancestor lies on the first, second or third page of 32 proofs; the ancestor returned must be a common prefix point and must be found whenever the logs share a prefix. Non-trivial = the pair has an equal leaf at an equal index under different prefixes, or |A| != |B| with an agreeing proven index, or B a proper prefix of A. Distinct = distinct (A,B) letter strings.",
    assumptions: &[
        "leaf hashes are SHA-256 of distinct letters (collision freedom of SHA-256 assumed)",
        "rs_merkle proof generation for the *sender's* tree is trusted; only the receiver-side decision is under test",
    ],
};

pub fn def() -> PropertyDef {
    PropertyDef {
        meta: META,
        shards: |t| t.pick(16, 16),
        run,
        replay,
        timeout_s: |t| t.pick(900, 7200),
    }
}

#[derive(Clone, Debug, Serialize, Deserialize, Hash, PartialEq, Eq)]
pub struct PairCase {
    /// local sequence (letters index the leaf alphabet)
    pub a: Vec<u16>,
    /// remote sequence
    pub b: Vec<u16>,
    /// extra multi-leaf proof indices into b (may be empty)
    #[serde(default)]
    pub multi: Vec<usize>,
}

fn leaf(x: u16) -> [u8; 32] {
    CommitTree::hash(&x.to_le_bytes())
}

fn tree_of(seq: &[u16]) -> CommitTree {
    let mut t = CommitTree::new();
    let mut leaves: Vec<[u8; 32]> = seq.iter().map(|x| leaf(*x)).collect();
    t.append(&mut leaves);
    t.commit();
    t
}

fn is_prefix(p: &[u16], s: &[u16]) -> bool {
    p.len() <= s.len() && &s[..p.len()] == p
}

/// The oracle for one pair. Returns info + result.
pub fn check_pair(case: &PairCase) -> (CaseInfo, CheckResult) {
    let mut info = CaseInfo::default();
    let r = check_pair_inner(case, &mut info);
    (info, r)
}

fn check_pair_inner(case: &PairCase, info: &mut CaseInfo) -> CheckResult {
    let a = &case.a;
    let b = &case.b;
    if a.is_empty() || b.is_empty() {
        return Ok(());
    }
    let ta = tree_of(a);
    let tb = tree_of(b);
    let la: Vec<[u8; 32]> = a.iter().map(|x| leaf(*x)).collect();

    let equal = a == b;
    let proper_prefix = b.len() < a.len() && is_prefix(b, a);
    let same_at_head = b.len() <= a.len() && a[b.len() - 1] == b[b.len() - 1];
    if proper_prefix {
        info.nontrivial = true;
        info.class("b-proper-prefix-of-a");
    }
    if same_at_head && !equal && !proper_prefix {
        info.nontrivial = true;
        info.class("equal-leaf-at-head-index-different-prefix");
    }
    if equal {
        info.class("equal");
    }

    // head proof comparison
    let head = tb.head().map_err(|e| Failure::new("harness", e.to_string()))?;
    let cmp = ta
        .compare(&head)
        .map_err(|e| Failure::new("compare-error", format!("compare returned error {e}")))?;
    info.inner_evals += 1;
    match &cmp {
        Comparison::Equal => {
            ensure!(
                equal,
                "compare/equal-but-different",
                "compare answered Equal for different sequences a={:?} b={:?}",
                a,
                b
            );
        }
        Comparison::Contains(ix) => {
            ensure!(
                proper_prefix,
                "compare/contains-but-not-prefix",
                "compare answered Contains({:?}) but b is not a proper prefix of a: a={:?} b={:?}",
                ix,
                a,
                b
            );
            ensure!(
                ix.as_slice() == [b.len() - 1],
                "compare/contains-wrong-position",
                "Contains reported {:?}, expected [{}]",
                ix,
                b.len() - 1
            );
        }
        Comparison::Unknown => {
            ensure!(
                !equal,
                "compare/unknown-but-equal",
                "compare answered Unknown for equal sequences {:?}",
                a
            );
            ensure!(
                !proper_prefix,
                "compare/unknown-but-prefix",
                "compare answered Unknown although b is a proper prefix of a: a={:?} b={:?}",
                a,
                b
            );
        }
    }
    // contains() must mirror compare()
    let contains = ta
        .contains(&head)
        .map_err(|e| Failure::new("compare-error", format!("contains returned error {e}")))?;
    ensure!(
        contains.is_some() == proper_prefix,
        "contains/mismatch",
        "contains() is_some={} but proper_prefix={} a={:?} b={:?}",
        contains.is_some(),
        proper_prefix,
        a,
        b
    );
    if let Some(p) = contains {
        // the returned proof is a proof of our own tree for that position
        let (ok, _) = p.verify_leaves(&la);
        ensure!(ok, "contains/own-proof-invalid", "proof returned by contains() does not verify against own leaves a={:?} b={:?}", a, b);
    }

    // single leaf proofs at every index of b
    for i in 0..b.len() {
        let proof = tb
            .proof(&[i])
            .map_err(|e| Failure::new("harness", e.to_string()))?;
        let agree = i < a.len() && a[i] == b[i];
        if agree && a.len() != b.len() {
            info.nontrivial = true;
            info.class("agreeing-index-different-length");
        }
        if agree && !is_prefix(&b[..=i], a) {
            info.nontrivial = true;
            info.class("agreeing-index-different-prefix");
        }
        let (verified, proved) = proof.verify_leaves(&la);
        info.inner_evals += 1;
        if agree {
            ensure!(
                verified,
                if a.len() != b.len() { "verify/agreeing-index-rejected-different-length" } else { "verify/agreeing-index-rejected" },
                "proof of index {} from b (len {}) does not verify against a (len {}) although a[{}]==b[{}]: a={:?} b={:?}",
                i, b.len(), a.len(), i, i, a, b
            );
            ensure!(
                proved.len() == 1 && proved[0] == leaf(a[i]),
                "verify/wrong-leaves-returned",
                "verify_leaves returned unexpected leaves"
            );
        } else {
            ensure!(
                !verified,
                "verify/disagreeing-index-accepted",
                "proof of index {} from b verifies against a although the leaves differ (or a is shorter): a={:?} b={:?}",
                i, a, b
            );
        }
    }

    // multi-leaf proof
    if !case.multi.is_empty() {
        let mut idx: Vec<usize> = case
            .multi
            .iter()
            .map(|i| i % b.len())
            .collect::<std::collections::BTreeSet<_>>()
            .into_iter()
            .collect();
        idx.sort();
        let proof = tb
            .proof(&idx)
            .map_err(|e| Failure::new("harness", e.to_string()))?;
        let agree = idx.iter().all(|i| *i < a.len() && a[*i] == b[*i]);
        let (verified, _) = proof.verify_leaves(&la);
        info.inner_evals += 1;
        info.class(if agree { "multi-agree" } else { "multi-disagree" });
        if agree {
            ensure!(
                verified,
                if a.len() != b.len() { "verify/agreeing-index-rejected-different-length" } else { "verify/agreeing-index-rejected" },
                "multi proof {:?} from b (len {}) rejected by a (len {}) although all positions agree: a={:?} b={:?}",
                idx, b.len(), a.len(), a, b
            );
        } else {
            ensure!(
                !verified,
                "verify/disagreeing-index-accepted",
                "multi proof {:?} accepted although a position differs: a={:?} b={:?}",
                idx, a, b
            );
        }
    }
    Ok(())
}

/// Enumerate all sequences over `alpha` letters with length 1..=n.
fn all_seqs(alpha: u16, n: usize) -> Vec<Vec<u16>> {
    let mut out = vec![];
    let mut level: Vec<Vec<u16>> = vec![vec![]];
    for _ in 0..n {
        let mut next = vec![];
        for s in &level {
            for x in 0..alpha {
                let mut t = s.clone();
                t.push(x);
                next.push(t);
            }
        }
        out.extend(next.iter().cloned());
        level = next;
    }
    out
}

fn pair_strategy(max_len: usize) -> impl Strategy<Value = PairCase> {
    // prefix, then two suffixes over a small alphabet; a "reconverge" mask
    // copies letters of suffix A into suffix B at equal indices.
    (
        proptest::collection::vec(0u16..6, 0..max_len),
        proptest::collection::vec(0u16..6, 0..12),
        proptest::collection::vec((0u16..6, any::<bool>()), 0..12),
        proptest::collection::vec(0usize..400, 0..4),
        0u8..8,
    )
        .prop_map(|(prefix, sa, sb, multi, mode)| {
            let mut a = prefix.clone();
            let mut b = prefix.clone();
            a.extend(sa.iter().copied());
            for (i, (x, copy)) in sb.iter().enumerate() {
                if *copy && i < sa.len() {
                    b.push(sa[i]);
                } else {
                    b.push(*x);
                }
            }
            match mode {
                0 => b = a.clone(),
                1 => {
                    // b proper prefix of a
                    if a.len() > 1 {
                        b = a[..a.len() / 2 + 1].to_vec();
                        if b.len() == a.len() {
                            b.pop();
                        }
                    }
                }
                _ => {}
            }
            if a.is_empty() {
                a.push(0);
            }
            if b.is_empty() {
                b.push(1);
            }
            PairCase { a, b, multi }
        })
}

fn run(shard: &Shard, rep: &mut Report) {
    // exhaustive part
    let n = shard.tier.pick(5, 6);
    let seqs = all_seqs(3, n);
    let mut complete = true;
    let mut sampled = 0;
    'outer: for (ai, a) in seqs.iter().enumerate() {
        if ai as u32 % shard.count != shard.index {
            continue;
        }
        for b in &seqs {
            let case = PairCase {
                a: a.clone(),
                b: b.clone(),
                multi: vec![],
            };
            let (info, res) = guarded(|| check_pair(&case));
            rep.record_case("exhaustive", hash_of(&case), &info);
            if info.nontrivial && sampled < 1 && rep.samples.len() < 6 && a.len() >= 3 {
                sampled += 1;
                rep.samples.push(json!({"sub":"exhaustive","nontrivial":true,"case":case}));
            }
            if let Err(f) = res {
                if shard.is_known(&f.signature) {
                    *rep.known_hits.entry(f.signature.clone()).or_default() += 1;
                    continue;
                }
                // minimal by construction order (short sequences first)
                rep.violations.push(FoundViolation {
                    sub: "exhaustive".into(),
                    signature: f.signature,
                    message: f.message,
                    case: serde_json::to_value(&case).unwrap(),
                });
                complete = false;
                break 'outer;
            }
        }
    }
    rep.exhaustive = Some(complete);
    rep.notes.push(format!(
        "exhaustive bound: alphabet 3, lengths 1..={} ({} sequences, {} ordered pairs over all shards)",
        n,
        seqs.len(),
        seqs.len() * seqs.len()
    ));

    // random part
    let cases = shard.share(shard.tier.pick(20_000, 400_000));
    drive(shard, rep, "random", cases, pair_strategy(300), |c| check_pair(c));

    // scan part (engine B)
    crate::prop_c08_scan::run(shard, rep);
}

fn replay(shard: &Shard, sub: &str, case: &Value) -> CheckResult {
    match sub {
        "exhaustive" | "random" => {
            let c: PairCase = from_case(case).map_err(|e| Failure::new("harness", e))?;
            check_pair(&c).1
        }
        "scan" => crate::prop_c08_scan::replay(shard, case),
        _ => fail!("harness", "unknown sub-check {}", sub),
    }
}
