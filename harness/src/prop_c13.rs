//! C13 — a crash at any point leaves an account that opens and is consistent.
//!
//! Engine H: for generated pre-histories and victim operations the worker
//! records the sequence of step-boundary probes the operation passes, then
//! re-executes the operation in a child process (`sv crash-child`) that arms
//! one `(probe, nth hit)` and is aborted there (no destructors run, the page
//! cache survives: process death, not power loss).  Torn writes are emulated
//! between consecutive crash states: when a file of the later state extends
//! the same file of the earlier state, every byte prefix of the appended
//! region (strided in the quick tier) is tried.  The abandoned directory is
//! then opened through the normal path and checked.
use crate::engine_acct::*;
use crate::engine_sync::{all_logs, Rec};
use crate::framework::*;
use crate::secrets::*;
use proptest::prelude::*;
use secrecy::SecretString;
use serde::{Deserialize, Serialize};
use serde_json::{json, Value};
use sos_account::{Account, LocalAccount};
use sos_client_storage::{AccessOptions, NewFolderOptions};
use sos_core::{crypto::AccessKey, AccountId, SecretId, VaultFlags, VaultId};
use std::collections::{BTreeMap, BTreeSet};
use std::path::{Path, PathBuf};

pub const META: PropertyMeta = PropertyMeta {
    id: "C13",
    level: "fault_enumeration",
    rule: "the first 22 cases of a run cover every backend x victim-kind cell once, the others are drawn freely; for each generated case (backend x cipher, a pre-history of 1..8 content operations, one victim operation out of: secret create / update / delete / move, folder rename / flags / description / create / delete, compact folder, change folder password) the victim is first executed to completion on a copy to record the pre- and post-state of every event log and the ordered list of step-boundary probes it passes (probes sit before and after every log append, inside rewind / truncate / replace-all, inside the vault file header rewrite and splice, between each vault mutation and its event append, before the compaction replace); then EVERY (probe, hit) of that list is enumerated: a child process re-executes the victim on a fresh copy and is aborted at that point. Torn writes: for each pair of consecutive crash states, every file of the later state that extends the earlier one is truncated to byte prefixes of the appended region (first 6 and last 3 lengths plus a stride of 1/8 of the region in quick, every length for regions up to 4 KiB in thorough). System-call boundaries (file-system backend): the victim is also run under `strace -f` with a path filter on the account's event-log and vault files; a reference run lists the file-modifying system calls it issues (write, pwrite64, writev, ftruncate, rename*, unlink*; all file I/O of the child runs on one blocking thread so that the per-thread ordinals are stable), then one child per listed call is killed by an injected SIGKILL on ENTERING that call - the state between two system calls, which no probe marks when a change splits one write into several. Oracle on each abandoned directory through new_unauthenticated + sign_in: the account opens; every event log equals its pre- or its post-state; stored commits are the SHA-256 of their records; every served folder equals the replay of its log and its persisted mirror. Non-trivial = a crash point strictly inside the victim (not before its first or after its last write) or a truncation strictly inside an appended region. Distinct = distinct (case, crash point).",
    assumptions: &[
        "models process death (abort at a step boundary, page cache survives), not power loss: un-fsynced or reordered pages are out of scope",
        "crash points are the instrumented step boundaries plus byte prefixes of appended regions; a crash between two uninstrumented statements that both precede the next write is equivalent to the preceding boundary",
        "sqlite transactions are trusted to be atomic (crash points are after commit only)",
        "account password changes are not victims (the sign-in credential must be known to the parent); folder password changes are",
    ],
};

pub fn def() -> PropertyDef {
    PropertyDef {
        meta: META,
        shards: |_| 16,
        run,
        replay,
        timeout_s: |t| t.pick(2400, 8 * 3600),
    }
}

// ---------------------------------------------------------------------------
// Victims
// ---------------------------------------------------------------------------

#[derive(Clone, Debug, Serialize, Deserialize, PartialEq, Eq, Hash)]
pub enum Victim {
    CreateSecret { folder: u16, spec: SecretSpec },
    UpdateSecret { sec: u16, spec: SecretSpec },
    DeleteSecret { sec: u16 },
    MoveSecret { sec: u16, to: u16 },
    RenameFolder { folder: u16, name: String },
    SetFlags { folder: u16, flags: u8 },
    SetDescription { folder: u16, text: String },
    CreateFolder { name: String },
    DeleteFolder { folder: u16 },
    CompactFolder { folder: u16 },
    ChangeFolderPassword { folder: u16 },
}

/// A victim resolved to concrete identifiers (what the child executes).
#[derive(Clone, Debug, Serialize, Deserialize)]
pub enum Concrete {
    CreateSecret { folder: VaultId, spec: SecretSpec },
    UpdateSecret { folder: VaultId, id: SecretId, spec: SecretSpec },
    DeleteSecret { folder: VaultId, id: SecretId },
    MoveSecret { from: VaultId, id: SecretId, to: VaultId },
    RenameFolder { folder: VaultId, name: String },
    SetFlags { folder: VaultId, flags: u64 },
    SetDescription { folder: VaultId, text: String },
    CreateFolder { name: String, xchacha: bool, balloon: bool },
    DeleteFolder { folder: VaultId },
    CompactFolder { folder: VaultId },
    ChangeFolderPassword { folder: VaultId, password: String },
}

impl Concrete {
    pub fn kind(&self) -> &'static str {
        match self {
            Concrete::CreateSecret { .. } => "create-secret",
            Concrete::UpdateSecret { .. } => "update-secret",
            Concrete::DeleteSecret { .. } => "delete-secret",
            Concrete::MoveSecret { .. } => "move-secret",
            Concrete::RenameFolder { .. } => "rename-folder",
            Concrete::SetFlags { .. } => "set-flags",
            Concrete::SetDescription { .. } => "set-description",
            Concrete::CreateFolder { .. } => "create-folder",
            Concrete::DeleteFolder { .. } => "delete-folder",
            Concrete::CompactFolder { .. } => "compact-folder",
            Concrete::ChangeFolderPassword { .. } => "change-folder-password",
        }
    }
}

fn resolve(w: &AcctWorld, v: &Victim) -> Option<Concrete> {
    let m = &w.model;
    let flat = m.flat();
    let user: Vec<usize> = m.folders.iter().enumerate().filter(|(_, f)| !f.builtin).map(|(i, _)| i).collect();
    Some(match v {
        Victim::CreateSecret { folder, spec } => Concrete::CreateSecret { folder: m.folders[pick(*folder, m.folders.len())].id, spec: spec.clone() },
        Victim::UpdateSecret { sec, spec } => {
            if flat.is_empty() {
                return None;
            }
            let (fi, si) = flat[pick(*sec, flat.len())];
            Concrete::UpdateSecret { folder: m.folders[fi].id, id: m.folders[fi].secrets[si].id, spec: spec.clone() }
        }
        Victim::DeleteSecret { sec } => {
            if flat.is_empty() {
                return None;
            }
            let (fi, si) = flat[pick(*sec, flat.len())];
            Concrete::DeleteSecret { folder: m.folders[fi].id, id: m.folders[fi].secrets[si].id }
        }
        Victim::MoveSecret { sec, to } => {
            if flat.is_empty() || m.folders.len() < 2 {
                return None;
            }
            let (fi, si) = flat[pick(*sec, flat.len())];
            let mut ti = pick(*to, m.folders.len());
            if ti == fi {
                ti = (ti + 1) % m.folders.len();
            }
            Concrete::MoveSecret { from: m.folders[fi].id, id: m.folders[fi].secrets[si].id, to: m.folders[ti].id }
        }
        Victim::RenameFolder { folder, name } => Concrete::RenameFolder { folder: m.folders[pick(*folder, m.folders.len())].id, name: name.clone() },
        Victim::SetFlags { folder, flags } => {
            if user.is_empty() {
                return None;
            }
            Concrete::SetFlags { folder: m.folders[user[pick(*folder, user.len())]].id, flags: FLAG_CHOICES[(*flags % 4) as usize] }
        }
        Victim::SetDescription { folder, text } => Concrete::SetDescription { folder: m.folders[pick(*folder, m.folders.len())].id, text: text.clone() },
        Victim::CreateFolder { name } => Concrete::CreateFolder { name: name.clone(), xchacha: w.cfg.xchacha, balloon: w.cfg.balloon },
        Victim::DeleteFolder { folder } => {
            if user.is_empty() {
                return None;
            }
            Concrete::DeleteFolder { folder: m.folders[user[pick(*folder, user.len())]].id }
        }
        Victim::CompactFolder { folder } => Concrete::CompactFolder { folder: m.folders[pick(*folder, m.folders.len())].id },
        Victim::ChangeFolderPassword { folder } => Concrete::ChangeFolderPassword { folder: m.folders[pick(*folder, m.folders.len())].id, password: "crash-test-new-folder-password".into() },
    })
}

pub async fn execute(account: &mut LocalAccount, op: &Concrete) -> Result<(), String> {
    let e = |x: sos_account::Error| x.to_string();
    match op {
        Concrete::CreateSecret { folder, spec } => {
            let (m, s) = build_secret(spec);
            account.create_secret(m, s, AccessOptions { folder: Some(*folder), ..Default::default() }).await.map_err(e)?;
        }
        Concrete::UpdateSecret { folder, id, spec } => {
            let (m, s) = build_secret(spec);
            account.update_secret(id, m, Some(s), AccessOptions { folder: Some(*folder), ..Default::default() }).await.map_err(e)?;
        }
        Concrete::DeleteSecret { folder, id } => {
            account.delete_secret(id, AccessOptions { folder: Some(*folder), ..Default::default() }).await.map_err(e)?;
        }
        Concrete::MoveSecret { from, id, to } => {
            account.move_secret(id, from, to, Default::default()).await.map_err(e)?;
        }
        Concrete::RenameFolder { folder, name } => {
            account.rename_folder(folder, name.clone()).await.map_err(e)?;
        }
        Concrete::SetFlags { folder, flags } => {
            account.update_folder_flags(folder, VaultFlags::from_bits(*flags).unwrap_or_default()).await.map_err(e)?;
        }
        Concrete::SetDescription { folder, text } => {
            account.set_folder_description(folder, text).await.map_err(e)?;
        }
        Concrete::CreateFolder { name, xchacha, balloon } => {
            let cfg = AcctCfg { db: false, xchacha: *xchacha, balloon: *balloon };
            account
                .create_folder(NewFolderOptions { name: name.clone(), flags: None, key: None, cipher: Some(cfg.cipher()), kdf: Some(cfg.kdf()) })
                .await
                .map_err(e)?;
        }
        Concrete::DeleteFolder { folder } => {
            account.delete_folder(folder).await.map_err(e)?;
        }
        Concrete::CompactFolder { folder } => {
            account.compact_folder(folder).await.map_err(e)?;
        }
        Concrete::ChangeFolderPassword { folder, password } => {
            let key: AccessKey = SecretString::from(password.clone()).into();
            account.change_folder_password(folder, key).await.map_err(e)?;
        }
    }
    Ok(())
}

// ---------------------------------------------------------------------------
// Case
// ---------------------------------------------------------------------------

#[derive(Clone, Debug, Serialize, Deserialize, PartialEq, Eq, Hash)]
pub struct Case {
    pub history: History,
    pub victim: Victim,
}

#[derive(Clone, Debug, Serialize, Deserialize)]
pub enum Point {
    /// abort at the nth hit of a probe; `seq` is its position in the recorded trace
    Probe { name: String, nth: u64, seq: usize },
    /// state at trace position `seq` with `file` (relative) cut to `len` bytes of the state at `seq + 1`
    Torn { seq: usize, file: String, len: u64 },
    /// the child is killed (SIGKILL injected by strace) on entering the `nth` file-modifying
    /// system call the victim issues on a file of the account (counted from the victim's start)
    Syscall { nth: usize },
}

#[derive(Clone, Debug, Serialize, Deserialize)]
pub struct PointCase {
    pub case: Case,
    pub point: Point,
}

fn copy_dir(src: &Path, dst: &Path) -> std::io::Result<()> {
    std::fs::create_dir_all(dst)?;
    for e in std::fs::read_dir(src)? {
        let e = e?;
        let to = dst.join(e.file_name());
        if e.file_type()?.is_dir() {
            copy_dir(&e.path(), &to)?;
        } else {
            std::fs::copy(e.path(), &to)?;
        }
    }
    Ok(())
}

fn list_files(root: &Path) -> BTreeMap<String, PathBuf> {
    fn walk(root: &Path, dir: &Path, out: &mut BTreeMap<String, PathBuf>) {
        if let Ok(rd) = std::fs::read_dir(dir) {
            for e in rd.flatten() {
                let p = e.path();
                if p.is_dir() {
                    walk(root, &p, out);
                } else if let Ok(rel) = p.strip_prefix(root) {
                    out.insert(rel.to_string_lossy().to_string(), p.clone());
                }
            }
        }
    }
    let mut out = BTreeMap::new();
    walk(root, root, &mut out);
    out
}

/// Clock installed right before the victim runs (reference run and children alike).
const VICTIM_CLOCK: (i128, i128) = (1_700_000_500i128 * 1_000_000_000, 1_000_003);

struct Prepared {
    base: tempfile::TempDir,
    cfg: AcctCfg,
    account_id: AccountId,
    password: String,
    op: Concrete,
    pre: BTreeMap<String, Vec<Rec>>,
    post: BTreeMap<String, Vec<Rec>>,
    trace: Vec<String>,
}

async fn open(dir: &Path, db: bool, account_id: AccountId, password: &str) -> Result<LocalAccount, String> {
    let target = make_target(dir, db).await.map_err(|f| f.message)?;
    let mut a = LocalAccount::new_unauthenticated(account_id, target).await.map_err(|e| format!("new_unauthenticated: {e}"))?;
    let key: AccessKey = SecretString::from(password.to_string()).into();
    a.sign_in(&key).await.map_err(|e| format!("sign_in: {e}"))?;
    Ok(a)
}

async fn prepare(c: &Case) -> Result<Option<Prepared>, Failure> {
    sos_core::verif::set_clock(Some((1_700_000_000i128 * 1_000_000_000, 1_000_003)));
    let mut w = AcctWorld::new(&c.history.cfg).await?;
    for op in &c.history.ops {
        w.apply(op).await?;
    }
    let Some(op) = resolve(&w, &c.victim) else {
        return Ok(None);
    };
    let pre = all_logs(&w.account).await?;
    let account_id = w.account_id;
    let password = {
        use secrecy::ExposeSecret;
        w.password.expose_secret().to_string()
    };
    w.account.sign_out().await.map_err(hf("harness/sign-out", "sign_out"))?;
    let base = tempfile::Builder::new().prefix("sv-crash-base-").tempdir().map_err(hf("harness/tempdir", "tempdir"))?;
    copy_dir(w.temp.path(), base.path()).map_err(hf("harness/copy", "copy base"))?;
    let cfg = c.history.cfg.clone();
    drop(w);
    // reference run in-process with the trace on
    let refdir = tempfile::Builder::new().prefix("sv-crash-ref-").tempdir().map_err(hf("harness/tempdir", "tempdir"))?;
    copy_dir(base.path(), refdir.path()).map_err(hf("harness/copy", "copy ref"))?;
    let mut a = open(refdir.path(), cfg.db, account_id, &password).await.map_err(|e| Failure::new("harness/open-reference", e))?;
    sos_core::verif::set_clock(Some(VICTIM_CLOCK));
    sos_core::verif::start_trace();
    let r = execute(&mut a, &op).await;
    let trace: Vec<String> = sos_core::verif::take_trace().into_iter().map(|s| s.to_string()).collect();
    if let Err(e) = r {
        return Err(Failure::new("harness/victim-failed", format!("victim {:?} failed without a crash: {e}", op.kind())));
    }
    let post = all_logs(&a).await?;
    Ok(Some(Prepared { base, cfg, account_id, password, op, pre, post, trace }))
}

/// Produce the abandoned directory for a probe point by aborting a child there.
fn crash_child(p: &Prepared, name: &str, nth: u64) -> Result<Option<tempfile::TempDir>, Failure> {
    let dir = tempfile::Builder::new().prefix("sv-crash-").tempdir().map_err(hf("harness/tempdir", "tempdir"))?;
    copy_dir(p.base.path(), dir.path()).map_err(hf("harness/copy", "copy crash dir"))?;
    let exe = std::env::current_exe().map_err(hf("harness/exe", "current_exe"))?;
    let st = std::process::Command::new(exe)
        .arg("crash-child")
        .arg(dir.path())
        .arg(if p.cfg.db { "1" } else { "0" })
        .arg(p.account_id.to_string())
        .arg(&p.password)
        .arg(name)
        .arg(nth.to_string())
        .arg(serde_json::to_string(&p.op).unwrap())
        .stdin(std::process::Stdio::null())
        .stdout(std::process::Stdio::null())
        .stderr(std::process::Stdio::null())
        .status()
        .map_err(hf("harness/spawn", "spawn crash child"))?;
    use std::os::unix::process::ExitStatusExt;
    if st.signal() == Some(6) {
        Ok(Some(dir))
    } else {
        // the probe was not reached (or the child failed differently): not a crash state
        Ok(None)
    }
}


// ---------------------------------------------------------------------------
// Crash points at system-call boundaries (file-system backend)
// ---------------------------------------------------------------------------
//
// The probes sit where the code was written to have step boundaries. A change that splits one
// write into several (or re-orders writes) creates crash states no probe marks. For the
// file-system backend the child is therefore also run under `strace -f` with a path filter on
// the account's files: a reference run lists the file-modifying system calls the victim issues
// (write, pwrite64, writev, ftruncate, rename*, unlink*), then one child per listed call is
// killed on ENTERING that call (`-e inject=<call>:signal=SIGKILL:when=<n>`), which leaves
// exactly the state between two system calls. The child runs all file I/O on a single blocking
// thread so that the per-thread call ordinals strace counts are the same in every run.

const SYS_CALLS: &str = "write,pwrite64,writev,ftruncate,rename,renameat,renameat2,unlink,unlinkat";
const SYS_MARKER: &str = ".sv-victim-start";

#[derive(Clone, Debug)]
struct SysEvent {
    call: String,
    /// ordinal of this call name on its thread, counted from the start of the process
    ordinal: usize,
    /// file the call addresses (relative to the data dir), when strace could name it
    file: String,
}

fn strace_available() -> bool {
    static OK: std::sync::OnceLock<bool> = std::sync::OnceLock::new();
    *OK.get_or_init(|| {
        std::process::Command::new("strace")
            .args(["-f", "-o", "/dev/null", "-e", "trace=write", "-e", "inject=write:signal=SIGKILL:when=60000", "true"])
            .stdin(std::process::Stdio::null())
            .stdout(std::process::Stdio::null())
            .stderr(std::process::Stdio::null())
            .status()
            .map(|s| s.success())
            .unwrap_or(false)
    })
}

fn tracked_files(dir: &Path) -> Vec<PathBuf> {
    let mut v: Vec<PathBuf> = list_files(dir).into_iter().filter(|(rel, _)| rel.ends_with(".events") || rel.ends_with(".vault") || rel.ends_with(SYS_MARKER)).map(|(_, p)| p).collect();
    v.sort();
    v
}

fn sys_child_command(p: &Prepared, dir: &Path, strace_args: &[String]) -> std::process::Command {
    let exe = std::env::current_exe().unwrap_or_else(|_| PathBuf::from("sv"));
    let mut c = std::process::Command::new("strace");
    c.arg("-f").arg("-y").arg("-qq");
    for a in strace_args {
        c.arg(a);
    }
    for f in tracked_files(dir) {
        c.arg("-P").arg(f);
    }
    c.arg(exe)
        .arg("crash-child-sys")
        .arg(dir)
        .arg(p.account_id.to_string())
        .arg(&p.password)
        .arg(serde_json::to_string(&p.op).unwrap())
        .stdin(std::process::Stdio::null())
        .stdout(std::process::Stdio::null())
        .stderr(std::process::Stdio::null());
    c
}

/// Reference run under strace: the victim's file-modifying system calls in order.
fn sys_reference(p: &Prepared) -> Result<Option<Vec<SysEvent>>, Failure> {
    let dir = tempfile::Builder::new().prefix("sv-sys-ref-").tempdir().map_err(hf("harness/tempdir", "tempdir"))?;
    copy_dir(p.base.path(), dir.path()).map_err(hf("harness/copy", "copy sys ref dir"))?;
    std::fs::write(dir.path().join(SYS_MARKER), b"").map_err(hf("harness/write", "marker"))?;
    let log = dir.path().join(".sv-strace.log");
    let st = sys_child_command(p, dir.path(), &["-o".into(), log.to_string_lossy().to_string(), "-e".into(), format!("trace={SYS_CALLS}")])
        .status()
        .map_err(hf("harness/spawn", "spawn strace reference"))?;
    if !st.success() {
        return Ok(None);
    }
    let text = std::fs::read_to_string(&log).unwrap_or_default();
    let root = dir.path().to_string_lossy().to_string();
    let mut per_thread: BTreeMap<(String, String), usize> = BTreeMap::new();
    let mut events: Vec<(String, SysEvent)> = vec![];
    let mut started = false;
    for line in text.lines() {
        // "<pid> <call>(<args>" ; unfinished/resumed pairs: count the entering line only
        let mut it = line.splitn(2, ' ');
        let (Some(pid), Some(rest)) = (it.next(), it.next()) else { continue };
        let rest = rest.trim_start();
        if rest.starts_with("<...") || rest.starts_with("+++") || rest.starts_with("---") {
            continue;
        }
        let Some(par) = rest.find('(') else { continue };
        let call = rest[..par].to_string();
        if !SYS_CALLS.split(',').any(|c| c == call) {
            continue;
        }
        let n = {
            let e = per_thread.entry((pid.to_string(), call.clone())).or_default();
            *e += 1;
            *e
        };
        // first path below the data dir named on the line
        let file = rest.find(&root).map(|i| rest[i + root.len()..].trim_start_matches('/').split(|c| c == '>' || c == '"' || c == ',').next().unwrap_or("").to_string()).unwrap_or_default();
        if file.ends_with(SYS_MARKER) {
            started = true;
            events.clear();
            continue;
        }
        if started {
            events.push((pid.to_string(), SysEvent { call, ordinal: n, file }));
        }
    }
    if !started {
        return Ok(None);
    }
    // ordinals are per thread: only usable when one thread issued every call
    let threads: BTreeSet<&String> = events.iter().map(|(pid, _)| pid).collect();
    if threads.len() > 1 {
        return Ok(None);
    }
    Ok(Some(events.into_iter().map(|(_, e)| e).collect()))
}

/// The abandoned directory of a child killed on entering `ev`.
fn sys_crash_child(p: &Prepared, ev: &SysEvent) -> Result<Option<tempfile::TempDir>, Failure> {
    let dir = tempfile::Builder::new().prefix("sv-sys-").tempdir().map_err(hf("harness/tempdir", "tempdir"))?;
    copy_dir(p.base.path(), dir.path()).map_err(hf("harness/copy", "copy sys crash dir"))?;
    std::fs::write(dir.path().join(SYS_MARKER), b"").map_err(hf("harness/write", "marker"))?;
    let st = sys_child_command(
        p,
        dir.path(),
        &["-o".into(), "/dev/null".into(), "-e".into(), format!("trace={}", ev.call), "-e".into(), format!("inject={}:signal=SIGKILL:when={}", ev.call, ev.ordinal)],
    )
    .status()
    .map_err(hf("harness/spawn", "spawn strace child"))?;
    let _ = std::fs::remove_file(dir.path().join(SYS_MARKER));
    // strace exits with 128+9 (or is itself killed) when the tracee died of SIGKILL
    use std::os::unix::process::ExitStatusExt;
    if st.code() == Some(137) || st.signal() == Some(9) {
        Ok(Some(dir))
    } else {
        Ok(None)
    }
}

/// `sv crash-child-sys <dir> <account_id> <password> <op-json>`: file-system backend, every file
/// operation on one blocking thread; writes the marker file right before the victim starts.
pub fn crash_child_sys_main(args: &[String]) -> i32 {
    if args.len() < 4 {
        return 2;
    }
    init_process();
    let dir = PathBuf::from(&args[0]);
    let account_id: AccountId = match args[1].parse() {
        Ok(a) => a,
        Err(_) => return 2,
    };
    let password = args[2].clone();
    let op: Concrete = match serde_json::from_str(&args[3]) {
        Ok(o) => o,
        Err(_) => return 2,
    };
    let rt = match tokio::runtime::Builder::new_current_thread().enable_all().max_blocking_threads(1).build() {
        Ok(rt) => rt,
        Err(_) => return 2,
    };
    rt.block_on(async move {
        sos_core::verif::set_clock(Some((1_700_000_100i128 * 1_000_000_000, 1_000_003)));
        let mut a = match open(&dir, false, account_id, &password).await {
            Ok(a) => a,
            Err(_) => return 3,
        };
        sos_core::verif::set_clock(Some(VICTIM_CLOCK));
        if tokio::fs::write(dir.join(SYS_MARKER), b"go").await.is_err() {
            return 3;
        }
        match execute(&mut a, &op).await {
            Ok(()) => 0,
            Err(_) => 4,
        }
    })
}

fn short_probe(name: &str) -> String {
    name.to_string()
}

fn kind_of(r: &Rec) -> u16 {
    if r.bytes.len() >= 2 {
        u16::from_le_bytes([r.bytes[0], r.bytes[1]])
    } else {
        0
    }
}

fn kinds(l: &[Rec]) -> Vec<u16> {
    l.iter().map(kind_of).collect()
}

/// `l` is the post-state up to run-to-run randomness (fresh uuids, nonces, salts):
/// same length, same sequence of event kinds, and the records it shares with the
/// pre-state are byte-identical.
fn post_equivalent(l: &[Rec], pre: Option<&Vec<Rec>>, post: &[Rec]) -> bool {
    if l.len() != post.len() || kinds(l) != kinds(post) {
        return false;
    }
    if let Some(pre) = pre {
        let shared = pre.len().min(post.len());
        let extends = post[..shared] == pre[..shared];
        if extends && l[..shared] != pre[..shared] {
            return false;
        }
    }
    true
}

/// The oracle on an abandoned directory.
async fn check_dir(p: &Prepared, dir: &Path, what: &str, sigpart: &str, at_end: bool) -> CheckResult {
    let be = if p.cfg.db { "sqlite" } else { "fs" };
    let kind = p.op.kind();
    // the crash point goes into the message; the signature is violation x victim (x torn file kind)
    let tail = if let Some(t) = sigpart.strip_prefix("torn:") { format!("{kind}/torn-{t}") } else { kind.to_string() };
    // a kill between two system calls inside the vault writer is the same root cause as a torn
    // vault write: the vault file is rewritten in place
    let sigpart = if sigpart == "sys:vault" { "torn:vault" } else { sigpart };
    let a = match open(dir, p.cfg.db, p.account_id, &p.password).await {
        Ok(a) => a,
        Err(e) => {
            let sig = if sigpart == "torn:event-log" {
                format!("c13/{be}/torn-event-log-record-breaks-open")
            } else if sigpart == "torn:vault" || sigpart.starts_with("at:fs.vault.") {
                format!("c13/{be}/vault-file-rewritten-in-place-breaks-open")
            } else if kind == "change-folder-password" {
                format!("c13/{be}/folder-rekeyed-before-delegated-password-saved")
            } else {
                format!("c13/{be}/account-does-not-open/{tail}")
            };
            return Err(Failure::new(sig, format!("[{be}] {kind} interrupted at {what}: the account no longer opens: {e}")));
        }
    };
    let logs = all_logs(&a).await.map_err(|f| Failure::new(format!("c13/{be}/log-unreadable/{tail}"), format!("[{be}] {kind} interrupted at {what}: {}", f.message)))?;
    // logs the operation creates (not in the pre-state); their names differ from run to run
    let new_post: Vec<&Vec<Rec>> = p.post.iter().filter(|(k, _)| !p.pre.contains_key(*k)).map(|(_, v)| v).collect();
    for (name, l) in &logs {
        let lk = name.split(':').next().unwrap_or("");
        let pre = p.pre.get(name);
        let is_pre = pre.map(|x| x == l).unwrap_or(false);
        let is_post = match p.post.get(name) {
            Some(post) => post_equivalent(l, pre, post),
            None => pre.is_none() && new_post.iter().any(|post| post_equivalent(l, None, post)),
        };
        if !is_pre && !is_post {
            let how = match (pre, p.post.get(name)) {
                (Some(pre), Some(post)) => {
                    if l.len() > pre.len() && l.len() < post.len() && l[..pre.len()] == pre[..] {
                        "partial-operation"
                    } else if l.is_empty() {
                        "emptied"
                    } else if l.len() < pre.len() && l[..] == pre[..l.len()] {
                        "shortened"
                    } else if l.len() < post.len() && kinds(l)[..] == kinds(post)[..l.len()] {
                        "partial-rewrite"
                    } else {
                        "other"
                    }
                }
                (Some(_), None) => "log-of-deleted-folder-changed",
                (None, _) => {
                    if new_post.iter().any(|post| l.len() < post.len() && kinds(l)[..] == kinds(post)[..l.len()]) {
                        "partial-new-log"
                    } else {
                        "other-new-log"
                    }
                }
            };
            return Err(Failure::new(
                format!("c13/{be}/log-neither-pre-nor-post/{lk}/{how}/{tail}"),
                format!("[{be}] {kind} interrupted at {what}: the {name} log has {} records {:?}, pre-state {:?}, post-state {:?} ({how})", l.len(), kinds(l), pre.map(|x| x.len()), p.post.get(name).map(|x| x.len())),
            ));
        }
        for r in l {
            if sos_core::commit::CommitTree::hash(&r.bytes) != r.commit {
                return Err(Failure::new(format!("c13/{be}/commit-not-hash-of-record/{tail}"), format!("[{be}] {kind} interrupted at {what}: a record of {name} does not hash to its commit")));
            }
        }
    }
    // every pre-state log must still exist unless the post-state dropped it
    for name in p.pre.keys() {
        if !logs.contains_key(name) && p.post.contains_key(name) {
            return Err(Failure::new(
                format!("c13/{be}/log-missing/{tail}"),
                format!("[{be}] {kind} interrupted at {what}: the {name} log is no longer served"),
            ));
        }
    }
    if let Err(f) = crate::prop_merge::replay_views_equal(&a, what).await {
        let which = if f.signature.contains("replay-vs-memory") {
            "replay-vs-memory"
        } else if f.signature.contains("replay-vs-mirror") {
            "replay-vs-mirror"
        } else if f.signature.contains("password-missing") {
            "folder-password-missing"
        } else if f.signature.contains("undecryptable") {
            "undecryptable"
        } else {
            "error"
        };
        let sig = if which == "folder-password-missing" && kind == "create-folder" {
            format!("c13/{be}/folder-created-before-password-saved")
        } else if which == "folder-password-missing" && kind == "delete-folder" {
            format!("c13/{be}/folder-password-removed-before-folder-deleted")
        } else if (which == "replay-vs-memory" || which == "replay-vs-mirror") && !at_end {
            format!("c13/{be}/vault-written-before-event-appended")
        } else {
            format!("c13/{be}/folder-differs-from-replay/{which}/{tail}{}", if at_end { "/after-last-write" } else { "" })
        };
        return Err(Failure::new(sig, format!("[{be}] {kind} interrupted at {what}: {}", f.message)));
    }
    Ok(())
}

fn torn_lengths(from: u64, to: u64, exhaustive_limit: u64) -> Vec<u64> {
    // lengths strictly inside (from, to)
    let n = to - from;
    if n <= 1 {
        return vec![];
    }
    if n <= exhaustive_limit {
        return (from + 1..to).collect();
    }
    let mut v: BTreeSet<u64> = BTreeSet::new();
    for i in 1..=6u64 {
        v.insert(from + i);
    }
    for i in 1..=3u64 {
        v.insert(to - i);
    }
    let step = (n / 8).max(1);
    let mut x = from + 6;
    while x < to {
        v.insert(x);
        x += step;
    }
    v.into_iter().filter(|l| *l > from && *l < to).collect()
}

struct Tally<'a> {
    shard: &'a Shard,
    rep: &'a mut Report,
    seen_sigs: BTreeSet<String>,
}

impl<'a> Tally<'a> {
    fn record(&mut self, pc: &PointCase, info: &CaseInfo, res: CheckResult) {
        let jv = serde_json::to_value(pc).unwrap_or(Value::Null);
        self.rep.record_case("crash-points", hash_json(&json!([hash_json(&serde_json::to_value(&pc.case).unwrap_or(Value::Null)), pc.point])), info);
        if self.rep.samples.len() < 5 && (info.nontrivial || self.rep.samples.is_empty()) {
            self.rep.samples.push(json!({"sub": "crash-points", "nontrivial": info.nontrivial, "point": pc.point, "victim": pc.case.victim, "history_ops": pc.case.history.ops.len(), "cfg": pc.case.history.cfg}));
        }
        if let Err(f) = res {
            if self.shard.is_known(&f.signature) {
                *self.rep.known_hits.entry(f.signature.clone()).or_default() += 1;
                self.rep.known_examples.entry(f.signature.clone()).or_insert(json!({"message": f.message, "point": pc.point, "victim": pc.case.victim}));
            } else if self.seen_sigs.insert(f.signature.clone()) {
                self.rep.violations.push(FoundViolation { sub: "crash-points".into(), signature: f.signature, message: f.message, case: jv });
            }
        }
    }
}

/// Enumerate every crash point of a case.
async fn run_case(c: &Case, tally: &mut Tally<'_>, exhaustive_limit: u64) -> Result<(), Failure> {
    let Some(p) = prepare(c).await? else {
        return Ok(());
    };
    let be = if p.cfg.db { "sqlite" } else { "fs" };
    // hit counters per probe along the trace
    let mut counts: BTreeMap<String, u64> = BTreeMap::new();
    let mut states: Vec<Option<tempfile::TempDir>> = vec![];
    let n = p.trace.len();
    for (seq, name) in p.trace.iter().enumerate() {
        let k = {
            let e = counts.entry(name.clone()).or_default();
            *e += 1;
            *e
        };
        let dir = crash_child(&p, name, k)?;
        let mut info = CaseInfo::default();
        info.class(format!("{be}/{}", p.op.kind()));
        info.class(format!("probe/{}", short_probe(name)));
        info.nontrivial = seq > 0 && seq + 1 < n;
        let pc = PointCase { case: c.clone(), point: Point::Probe { name: name.clone(), nth: k, seq } };
        match &dir {
            None => {
                info.class("probe-not-reached-in-child");
                tally.record(&pc, &info, Ok(()));
            }
            Some(d) => {
                let res = check_dir(&p, d.path(), &format!("probe {name} (hit {k})"), &format!("at:{name}"), seq + 1 == n).await;
                tally.record(&pc, &info, res);
            }
        }
        states.push(dir);
    }
    // torn writes between consecutive states
    for seq in 0..states.len().saturating_sub(1) {
        let (Some(d0), Some(d1)) = (&states[seq], &states[seq + 1]) else { continue };
        let f0 = list_files(d0.path());
        let f1 = list_files(d1.path());
        for (rel, path1) in &f1 {
            if rel.ends_with("-wal") || rel.ends_with("-shm") || rel.ends_with(".db") {
                continue;
            }
            let b1 = std::fs::read(path1).unwrap_or_default();
            let b0 = f0.get(rel).map(|p| std::fs::read(p).unwrap_or_default()).unwrap_or_default();
            if b1.len() <= b0.len() || b1[..b0.len()] != b0[..] {
                continue;
            }
            let fkind = if rel.ends_with(".events") { "event-log" } else if rel.ends_with(".vault") { "vault" } else { "other" };
            for len in torn_lengths(b0.len() as u64, b1.len() as u64, exhaustive_limit) {
                let t = tempfile::Builder::new().prefix("sv-torn-").tempdir().map_err(hf("harness/tempdir", "tempdir"))?;
                copy_dir(d0.path(), t.path()).map_err(hf("harness/copy", "copy torn dir"))?;
                let target = t.path().join(rel);
                if let Some(parent) = target.parent() {
                    let _ = std::fs::create_dir_all(parent);
                }
                std::fs::write(&target, &b1[..len as usize]).map_err(hf("harness/write", "write torn file"))?;
                let mut info = CaseInfo::default();
                info.class(format!("{be}/{}", p.op.kind()));
                info.class(format!("torn/{fkind}"));
                info.nontrivial = true;
                let what = format!("a torn write of {rel}: {} of {} appended bytes reached the file (after probe {})", len - b0.len() as u64, b1.len() - b0.len(), p.trace[seq]);
                let res = check_dir(&p, t.path(), &what, &format!("torn:{fkind}"), false).await;
                let pc = PointCase { case: c.clone(), point: Point::Torn { seq, file: rel.clone(), len } };
                tally.record(&pc, &info, res);
            }
        }
    }
    // crash points at system-call boundaries (file-system backend)
    if !p.cfg.db && strace_available() {
        match sys_reference(&p)? {
            None => {
                *tally.rep.classes.entry("syscall-enumeration-skipped".into()).or_default() += 1;
            }
            Some(events) => {
                let total = events.len();
                for (i, ev) in events.iter().enumerate() {
                    let Some(d) = sys_crash_child(&p, ev)? else {
                        *tally.rep.classes.entry("syscall-point-not-reached-in-child".into()).or_default() += 1;
                        continue;
                    };
                    let fkind = if ev.file.ends_with(".events") { "event-log" } else if ev.file.ends_with(".vault") { "vault" } else { "other" };
                    let mut info = CaseInfo::default();
                    info.class(format!("{be}/{}", p.op.kind()));
                    info.class(format!("syscall/{}/{fkind}", ev.call));
                    info.nontrivial = i > 0;
                    let what = format!("system call #{} of {total} of the victim ({} on {}), killed on entering it", i + 1, ev.call, ev.file);
                    let res = check_dir(&p, d.path(), &what, &format!("sys:{fkind}"), false).await;
                    let pc = PointCase { case: c.clone(), point: Point::Syscall { nth: i } };
                    tally.record(&pc, &info, res);
                }
            }
        }
    }
    Ok(())
}

// ---------------------------------------------------------------------------
// Generators / entry points
// ---------------------------------------------------------------------------

fn victim_strategy() -> impl Strategy<Value = Victim> {
    prop_oneof![
        3 => (any::<u16>(), spec_strategy()).prop_map(|(folder, spec)| Victim::CreateSecret { folder, spec }),
        3 => (any::<u16>(), spec_strategy()).prop_map(|(sec, spec)| Victim::UpdateSecret { sec, spec }),
        3 => any::<u16>().prop_map(|sec| Victim::DeleteSecret { sec }),
        2 => (any::<u16>(), any::<u16>()).prop_map(|(sec, to)| Victim::MoveSecret { sec, to }),
        2 => (any::<u16>(), "[a-z]{1,8}").prop_map(|(folder, name)| Victim::RenameFolder { folder, name }),
        1 => (any::<u16>(), 0u8..4).prop_map(|(folder, flags)| Victim::SetFlags { folder, flags }),
        2 => (any::<u16>(), "[ -~]{0,20}").prop_map(|(folder, text)| Victim::SetDescription { folder, text }),
        2 => "[a-z]{1,8}".prop_map(|name| Victim::CreateFolder { name }),
        1 => any::<u16>().prop_map(|folder| Victim::DeleteFolder { folder }),
        2 => any::<u16>().prop_map(|folder| Victim::CompactFolder { folder }),
        2 => any::<u16>().prop_map(|folder| Victim::ChangeFolderPassword { folder }),
    ]
}

fn case_strategy() -> impl Strategy<Value = Case> {
    (history_strategy(Mix::Content, 8), victim_strategy()).prop_map(|(mut history, victim)| {
        // large payloads make directory copies slow and add nothing here
        for op in history.ops.iter_mut() {
            if let Op::CreateSecret { spec, .. } | Op::UpdateSecret { spec, .. } = op {
                if spec.big > 4096 {
                    spec.big = 300;
                }
            }
        }
        // make sure there is something to edit
        history.ops.insert(0, Op::CreateSecret { folder: 0, spec: SecretSpec { kind: 0, label: "seed".into(), tags: vec![], favorite: false, a: "seed".into(), b: String::new(), big: 0, comment: None, recovery: None, fields: 0, opt: false } });
        history.ops.insert(1, Op::CreateFolder { name: "user".into(), flags: 0 });
        Case { history, victim }
    })
}

fn victim_kind(v: &Victim) -> usize {
    match v {
        Victim::CreateSecret { .. } => 0,
        Victim::UpdateSecret { .. } => 1,
        Victim::DeleteSecret { .. } => 2,
        Victim::MoveSecret { .. } => 3,
        Victim::RenameFolder { .. } => 4,
        Victim::SetFlags { .. } => 5,
        Victim::SetDescription { .. } => 6,
        Victim::CreateFolder { .. } => 7,
        Victim::DeleteFolder { .. } => 8,
        Victim::CompactFolder { .. } => 9,
        Victim::ChangeFolderPassword { .. } => 10,
    }
}
const VICTIM_KINDS: usize = 11;

fn run(shard: &Shard, rep: &mut Report) {
    let t = shard.tier;
    let cases = shard.share(t.pick(48, 1_200));
    let limit = t.pick(0u64, 4096u64);
    let mut tally = Tally { shard, rep, seen_sigs: BTreeSet::new() };
    for i in 0..cases {
        let mut c = sample_one(shard, &format!("case-{i}"), &case_strategy());
        // stratified: the first 2 x 11 cases of a run (over all shards) cover every
        // backend x victim-kind cell once, the rest is drawn freely
        let g = shard.index as usize + shard.count as usize * i as usize;
        if g < 2 * VICTIM_KINDS {
            let kind = g / 2;
            c.history.cfg.db = g % 2 == 1;
            c.victim = sample_one(shard, &format!("victim-{i}"), &victim_strategy().prop_filter("kind", move |v| victim_kind(v) == kind));
            *tally.rep.classes.entry("stratified-backend-x-victim-cell".into()).or_default() += 1;
        }
        let r = block_on(run_case(&c, &mut tally, limit));
        sos_core::verif::set_clock(None);
        if let Err(f) = r {
            if f.signature.starts_with("harness/") {
                tally.rep.notes.push(format!("case {i}: {} {}", f.signature, f.message.chars().take(160).collect::<String>()));
                *tally.rep.classes.entry(format!("skipped/{}", f.signature)).or_default() += 1;
            } else if tally.seen_sigs.insert(f.signature.clone()) {
                // a failure while building the pre-history is not a crash finding but still worth a line
                tally.rep.notes.push(format!("case {i}: pre-history failed: {} {}", f.signature, f.message.chars().take(160).collect::<String>()));
            }
        }
    }
    rep.exhaustive = Some(true);
    rep.notes.push("exhaustive over (probe, hit) of every generated case; torn-write lengths are strided in the quick tier".into());
}

fn replay(_shard: &Shard, _sub: &str, case: &Value) -> CheckResult {
    let pc: PointCase = from_case(case).map_err(|e| Failure::new("harness", e))?;
    block_on(async {
        let r = replay_point(&pc).await;
        sos_core::verif::set_clock(None);
        r
    })
}

async fn replay_point(pc: &PointCase) -> CheckResult {
    let Some(p) = prepare(&pc.case).await? else {
        return Err(Failure::new("harness/victim-not-applicable", "victim not applicable to the pre-history"));
    };
    match &pc.point {
        Point::Probe { name, nth, .. } => {
            let Some(d) = crash_child(&p, name, *nth)? else {
                return Err(Failure::new("harness/probe-not-reached", "the child did not reach the probe"));
            };
            let at_end = p.trace.len() > 0 && matches!(&pc.point, Point::Probe { seq, .. } if *seq + 1 == p.trace.len());
            check_dir(&p, d.path(), &format!("probe {name} (hit {nth})"), &format!("at:{name}"), at_end).await
        }
        Point::Torn { seq, file, len } => {
            // rebuild the two states around the torn write
            let mut counts: BTreeMap<String, u64> = BTreeMap::new();
            let mut dirs = vec![];
            for (i, name) in p.trace.iter().enumerate() {
                let e = counts.entry(name.clone()).or_default();
                *e += 1;
                if i == *seq || i == *seq + 1 {
                    dirs.push(crash_child(&p, name, *e)?);
                }
            }
            let (Some(Some(d0)), Some(Some(d1))) = (dirs.get(0), dirs.get(1)) else {
                return Err(Failure::new("harness/probe-not-reached", "cannot rebuild the states around the torn write"));
            };
            let b1 = std::fs::read(d1.path().join(file)).map_err(hf("harness/read", "read later state"))?;
            let t = tempfile::Builder::new().prefix("sv-torn-").tempdir().map_err(hf("harness/tempdir", "tempdir"))?;
            copy_dir(d0.path(), t.path()).map_err(hf("harness/copy", "copy"))?;
            std::fs::write(t.path().join(file), &b1[..(*len as usize).min(b1.len())]).map_err(hf("harness/write", "write"))?;
            let fkind = if file.ends_with(".events") { "event-log" } else if file.ends_with(".vault") { "vault" } else { "other" };
            check_dir(&p, t.path(), &format!("a torn write of {file} at {len} bytes"), &format!("torn:{fkind}"), false).await
        }
        Point::Syscall { nth } => {
            let Some(events) = sys_reference(&p)? else {
                return Err(Failure::new("harness/syscall-reference", "the reference run under strace did not yield a single-thread call list"));
            };
            let Some(ev) = events.get(*nth) else {
                return Err(Failure::new("harness/syscall-not-listed", format!("the victim issues {} file-modifying system calls, #{nth} asked", events.len())));
            };
            let Some(d) = sys_crash_child(&p, ev)? else {
                return Err(Failure::new("harness/probe-not-reached", "the child was not killed at the system call"));
            };
            let fkind = if ev.file.ends_with(".events") { "event-log" } else if ev.file.ends_with(".vault") { "vault" } else { "other" };
            check_dir(&p, d.path(), &format!("system call #{} ({} on {}), killed on entering it", nth + 1, ev.call, ev.file), &format!("sys:{fkind}"), false).await
        }
    }
}

/// `sv crash-child <dir> <db> <account_id> <password> <probe> <nth> <op-json>`
pub fn crash_child_main(args: &[String]) -> i32 {
    if args.len() < 7 {
        return 2;
    }
    init_process();
    let dir = PathBuf::from(&args[0]);
    let db = args[1] == "1";
    let account_id: AccountId = match args[2].parse() {
        Ok(a) => a,
        Err(_) => return 2,
    };
    let password = args[3].clone();
    let probe = args[4].clone();
    let nth: u64 = args[5].parse().unwrap_or(1);
    let op: Concrete = match serde_json::from_str(&args[6]) {
        Ok(o) => o,
        Err(_) => return 2,
    };
    block_on(async move {
        sos_core::verif::set_clock(Some((1_700_000_100i128 * 1_000_000_000, 1_000_003)));
        let mut a = match open(&dir, db, account_id, &password).await {
            Ok(a) => a,
            Err(_) => return 3,
        };
        sos_core::verif::set_clock(Some(VICTIM_CLOCK));
        sos_core::verif::arm_crash(&probe, nth);
        match execute(&mut a, &op).await {
            Ok(()) => 0,
            Err(_) => 4,
        }
    })
}
