//! C18 — backup archives restore the same account and cannot escape their target.
use crate::engine_acct::*;
use crate::framework::*;
use crate::ensure;
use crate::prop_c16::{create_file_secret, file_bytes, FileSpec};
use crate::secrets::*;
use futures::FutureExt;
use proptest::prelude::*;
use serde::{Deserialize, Serialize};
use serde_json::Value;
use sha2::{Digest, Sha256};
use sos_account::{Account, LocalAccount};
use sos_core::{crypto::AccessKey, AccountId, ExternalFile};
use sos_sync::StorageEventLogs;
use std::collections::{BTreeMap, BTreeSet};
use std::path::{Path, PathBuf};

pub const META: PropertyMeta = PropertyMeta {
    id: "C18",
    level: "exploration",
    rule: "account built by a proptest-generated content history (in 3 of 4 cases preceded by create_folder(name, flags) + set_folder_description on it; then 1..12 (round trip) / 1..6 (mutants) account-level ops of the C01 set; then 1..3 appended creates; an external file attachment of 1..4 KiB in ~15% of the cases) on a forced backend: fs exports a v2 archive, sqlite a v3 archive, through Account::export_backup_archive. Sub-checks roundtrip/<backend>: import into an empty target of the same backend in a second directory, LocalAccount::new_unauthenticated + sign_in with the same password, then the C01 read oracle against the source model (folder set, names, flags, descriptions, secret ids, decrypted meta and values, deleted ids absent), canonical file sets equal, blob bytes equal and download_file == the attached plaintext. Sub-checks mutant/<v2|v3>/<class>: 1..3 single mutations of the exported archive (repacked with sos_archive::ZipWriter), each imported into its own empty target: flip-entry (xor one byte of a manifest-covered entry: identity vault, folder vault, device vault, event logs, json, sqlite db), manifest-checksum (one hex digit of one manifest checksum), manifest-account-id (v2), drop-entry (a manifest-covered entry or the manifest), duplicate-entry (second entry with an existing name and altered content, before or after the original), hostile-name (an added or renamed blob entry named ../x, an absolute path inside the case sandbox, C:\\x, a\\..\\..\\x, files/<uuid>/../../x and friends, backslash-separated blob paths; 1..8 levels up). Oracles: flip-entry / manifest-checksum / drop-entry / manifest-account-id: import returns an error (a panic is reported under its own signature) and BackendTarget::list_accounts of the target stays empty; every mutant: the tree (paths + sha256) of the case sandbox outside the import target is unchanged (the process cwd is parked four levels deep inside the sandbox so that cwd-relative writes are seen); Err => no account listed. Non-trivial = the account lists a user-created folder, a flag or description was set, and it holds >= 1 secret. Distinct = distinct case.",
    assumptions: &[
        "blob entries are not covered by a manifest checksum in either archive version, so altered blob content is not required to be rejected",
        "files left under the import target by a rejected archive (v2 extracts blobs before verifying checksums) are recorded as a class, not as a failure: the statement only forbids creating an account",
        "escapes that climb out of the sandbox root itself (more than the nesting depth) are seen only through their shallower siblings",
    ],
};

pub fn def() -> PropertyDef {
    PropertyDef {
        meta: META,
        shards: |_| 16,
        run,
        replay,
        timeout_s: |t| t.pick(1500, 5 * 3600),
    }
}

// ---------------------------------------------------------------------------
// Case data
// ---------------------------------------------------------------------------

#[derive(Clone, Debug, Serialize, Deserialize, PartialEq, Eq, Hash)]
pub struct Source {
    pub history: History,
    pub extra: Vec<(u16, SecretSpec)>,
    pub attach: Option<FileSpec>,
}

#[derive(Clone, Copy, Debug, Serialize, Deserialize, PartialEq, Eq, Hash)]
pub enum Class {
    FlipEntry,
    ManifestChecksum,
    ManifestAccountId,
    DropEntry,
    DuplicateEntry,
    HostileName,
}

impl Class {
    pub fn name(&self) -> &'static str {
        match self {
            Class::FlipEntry => "flip-entry",
            Class::ManifestChecksum => "manifest-checksum",
            Class::ManifestAccountId => "manifest-account-id",
            Class::DropEntry => "drop-entry",
            Class::DuplicateEntry => "duplicate-entry",
            Class::HostileName => "hostile-name",
        }
    }
    fn must_reject(&self) -> bool {
        matches!(self, Class::FlipEntry | Class::ManifestChecksum | Class::ManifestAccountId | Class::DropEntry)
    }
}

#[derive(Clone, Debug, Serialize, Deserialize, PartialEq, Eq, Hash)]
pub struct ArchMut {
    /// which entry / checksum
    pub sel: u16,
    /// which byte / hex digit
    pub pos: u16,
    pub mask: u8,
    /// hostile-name pattern, duplicate placement
    pub pattern: u8,
    /// levels up (1..=8)
    pub ups: u8,
    /// rename an existing blob instead of adding an entry
    pub rename: bool,
}

#[derive(Clone, Debug, Serialize, Deserialize, PartialEq, Eq, Hash)]
pub struct MutCase {
    pub class: Class,
    pub source: Source,
    pub muts: Vec<ArchMut>,
}

// ---------------------------------------------------------------------------
// Archive repacking
// ---------------------------------------------------------------------------

type Entries = Vec<(String, Vec<u8>)>;

async fn read_archive(path: &Path) -> Result<Entries, Failure> {
    let file = tokio::io::BufReader::new(sos_vfs::File::open(path).await.map_err(hf("harness/zip-open", "open archive"))?);
    let mut zip = sos_archive::ZipReader::new(file).await.map_err(hf("harness/zip-read", "ZipReader::new"))?;
    let n = zip.inner().file().entries().len();
    let mut names = vec![];
    for i in 0..n {
        let entry = zip.inner().file().entries().get(i).unwrap();
        let name = entry.filename().as_str().map_err(hf("harness/zip-name", "entry name"))?.to_string();
        names.push(name);
    }
    let mut out = vec![];
    for name in names {
        let data = zip.by_name(&name).await.map_err(hf("harness/zip-entry", "read entry"))?.unwrap_or_default();
        out.push((name, data));
    }
    Ok(out)
}

async fn write_archive(path: &Path, entries: &Entries) -> Result<(), Failure> {
    let mut buf: Vec<u8> = vec![];
    {
        let mut w = sos_archive::ZipWriter::new(std::io::Cursor::new(&mut buf));
        for (name, data) in entries {
            w.add_file(name, data).await.map_err(hf("harness/zip-write", &format!("add_file({name:?})")))?;
        }
        w.finish().await.map_err(hf("harness/zip-write", "finish"))?;
    }
    std::fs::write(path, buf).map_err(hf("harness/zip-write", "write archive"))
}

const MANIFEST: &str = sos_archive::ARCHIVE_MANIFEST;

fn entry_kind(name: &str, account_id: &AccountId) -> &'static str {
    if name == MANIFEST {
        "manifest"
    } else if name.starts_with("files/") || name.starts_with("blobs/") {
        "blob"
    } else if name == "accounts.db" {
        "database"
    } else if name == format!("{account_id}.vault") {
        "identity-vault"
    } else if name == "devices.vault" {
        "device-vault"
    } else if name.ends_with(".vault") {
        "folder-vault"
    } else if name.ends_with(".events") {
        "event-log"
    } else if name.ends_with(".json") {
        "json"
    } else {
        "other"
    }
}

/// JSON pointers to every 64-hex-digit string of the manifest.
fn checksum_pointers(v: &Value, at: String, out: &mut Vec<String>) {
    match v {
        Value::String(s) if s.len() == 64 && s.chars().all(|c| c.is_ascii_hexdigit()) => out.push(at),
        Value::Array(a) => {
            for (i, x) in a.iter().enumerate() {
                checksum_pointers(x, format!("{at}/{i}"), out);
            }
        }
        Value::Object(m) => {
            let mut keys: Vec<&String> = m.keys().collect();
            keys.sort();
            for k in keys {
                checksum_pointers(&m[k], format!("{at}/{k}"), out);
            }
        }
        _ => {}
    }
}

fn other_hex(c: char, mask: u8) -> char {
    let d = c.to_digit(16).unwrap_or(0);
    let delta = 1 + (mask as u32 % 15);
    std::char::from_digit((d + delta) % 16, 16).unwrap()
}

struct Applied {
    entries: Entries,
    what: String,
    kind: String,
    /// hostile-name mutants: the raw entry name
    hostile: Option<String>,
}

fn apply_mutation(class: Class, m: &ArchMut, entries: &Entries, account_id: &AccountId, sandbox: &Path, v3: bool) -> Result<Option<Applied>, Failure> {
    let covered: Vec<usize> = entries.iter().enumerate().filter(|(_, (n, _))| !matches!(entry_kind(n, account_id), "manifest" | "blob")).map(|(i, _)| i).collect();
    let blobs: Vec<usize> = entries.iter().enumerate().filter(|(_, (n, _))| entry_kind(n, account_id) == "blob").map(|(i, _)| i).collect();
    let manifest_ix = entries.iter().position(|(n, _)| n == MANIFEST).ok_or_else(|| Failure::new("c18/export-without-manifest", "exported archive has no manifest"))?;
    let mask = if m.mask == 0 { 1 } else { m.mask };
    let mut out = entries.clone();
    match class {
        Class::FlipEntry => {
            let ix = covered[pick(m.sel, covered.len())];
            let len = out[ix].1.len();
            if len == 0 {
                return Ok(None);
            }
            let off = pick(m.pos, len);
            out[ix].1[off] ^= mask;
            let kind = entry_kind(&out[ix].0, account_id);
            Ok(Some(Applied { what: format!("xor {mask:#04x} at byte {off} of entry {} ({kind}, {len} bytes)", out[ix].0), kind: kind.into(), entries: out, hostile: None }))
        }
        Class::ManifestChecksum => {
            let mut v: Value = serde_json::from_slice(&out[manifest_ix].1).map_err(hf("harness/manifest-json", "parse manifest"))?;
            let mut ptrs = vec![];
            checksum_pointers(&v, String::new(), &mut ptrs);
            if ptrs.is_empty() {
                return Err(Failure::new("harness/manifest-no-checksum", "manifest has no checksum"));
            }
            let p = ptrs[pick(m.sel, ptrs.len())].clone();
            let s = v.pointer(&p).and_then(|x| x.as_str()).unwrap().to_string();
            let at = pick(m.pos, s.len());
            let mut chars: Vec<char> = s.chars().collect();
            chars[at] = other_hex(chars[at], mask);
            *v.pointer_mut(&p).unwrap() = Value::String(chars.into_iter().collect());
            out[manifest_ix].1 = serde_json::to_vec_pretty(&v).unwrap();
            let field = p.split('/').nth(1).unwrap_or("").to_string();
            Ok(Some(Applied { what: format!("changed hex digit {at} of manifest checksum {p}"), kind: format!("checksum:{}", if field == "vaults" { "vaults" } else { &field }), entries: out, hostile: None }))
        }
        Class::ManifestAccountId => {
            let mut v: Value = serde_json::from_slice(&out[manifest_ix].1).map_err(hf("harness/manifest-json", "parse manifest"))?;
            let Some(addr) = v.get("address").and_then(|a| a.as_str()).map(|s| s.to_string()) else {
                return Ok(None);
            };
            let mut chars: Vec<char> = addr.chars().collect();
            let at = 2 + pick(m.pos, chars.len() - 2);
            chars[at] = other_hex(chars[at], mask);
            let new: String = chars.into_iter().collect();
            v["address"] = Value::String(new.clone());
            out[manifest_ix].1 = serde_json::to_vec_pretty(&v).unwrap();
            Ok(Some(Applied { what: format!("manifest address {addr} -> {new}"), kind: "address".into(), entries: out, hostile: None }))
        }
        Class::DropEntry => {
            let mut cands = covered.clone();
            cands.push(manifest_ix);
            let ix = cands[pick(m.sel, cands.len())];
            let (name, _) = out.remove(ix);
            let kind = entry_kind(&name, account_id);
            Ok(Some(Applied { what: format!("dropped entry {name} ({kind})"), kind: kind.into(), entries: out, hostile: None }))
        }
        Class::DuplicateEntry => {
            let ix = covered[pick(m.sel, covered.len())];
            let (name, mut data) = out[ix].clone();
            if data.is_empty() {
                return Ok(None);
            }
            let off = pick(m.pos, data.len());
            data[off] ^= mask;
            let first = m.pattern % 2 == 0;
            if first {
                out.insert(0, (name.clone(), data));
            } else {
                out.insert(manifest_ix, (name.clone(), data));
            }
            let kind = entry_kind(&name, account_id);
            Ok(Some(Applied { what: format!("second entry named {name} ({kind}) with byte {off} altered, placed {} the original", if first { "before" } else { "after" }), kind: format!("{kind}/{}", if first { "first" } else { "last" }), entries: out, hostile: None }))
        }
        Class::HostileName => {
            let ups = 1 + (m.ups % 8) as usize;
            let up = "../".repeat(ups);
            let upb = "..\\".repeat(ups);
            let tag = format!("sv-escape-{}-{}.txt", m.pattern % 12, ups);
            let dir = if v3 { format!("blobs/{account_id}") } else { "files".to_string() };
            // ids of a real blob when there is one, otherwise made-up ones
            let (vault, secret, fname) = blobs
                .first()
                .map(|ix| {
                    let parts: Vec<&str> = entries[*ix].0.split('/').collect();
                    let n = parts.len();
                    (parts[n - 3].to_string(), parts[n - 2].to_string(), parts[n - 1].to_string())
                })
                .unwrap_or_else(|| ("6f3d6e2b-8a0e-4a6c-9c57-0a54c2f8e0a1".into(), "0d0f2c5e-7b1a-4e39-8f60-31c6a7e0b9d2".into(), hex::encode(Sha256::digest(b"sv-escape"))));
            let (pname, name) = match m.pattern % 12 {
                0 => ("dotdot", format!("{up}{tag}")),
                1 => ("absolute", sandbox.join("escaped").join(&tag).to_string_lossy().to_string()),
                2 => ("drive", format!("C:\\{tag}")),
                3 => ("backslash-dotdot", format!("a\\{upb}{tag}")),
                4 => ("blobdir-dotdot", format!("{dir}/{vault}/{up}{tag}")),
                5 => ("blobpath-dotdot", format!("{dir}/{vault}/{secret}/{up}{tag}")),
                6 => ("blobdir-backslash-dotdot", format!("{dir}/{vault}\\{upb}{tag}")),
                7 => ("backslash-blob-path", format!("{}\\{vault}\\{secret}\\{fname}", dir.replace('/', "\\"))),
                8 => ("blobdir-absolute", format!("{dir}/{vault}/{}", sandbox.join("escaped").join(&tag).to_string_lossy())),
                9 => ("dir-dotdot-first", format!("{}/{up}{tag}", dir.split('/').next().unwrap())),
                10 => ("dot-segments", format!("{dir}/{vault}/./{up}./{tag}")),
                _ => ("double-slash-absolute", format!("{dir}/{vault}//{}", sandbox.join("escaped").join(&tag).to_string_lossy())),
            };
            let content = format!("escaped through entry name {name}").into_bytes();
            let how;
            if m.rename && !blobs.is_empty() {
                let ix = blobs[pick(m.sel, blobs.len())];
                how = format!("renamed blob entry {} to", out[ix].0);
                out[ix].0 = name.clone();
            } else {
                how = "added an entry named".to_string();
                out.insert(manifest_ix, (name.clone(), content));
            }
            Ok(Some(Applied { what: format!("{how} {name:?}"), kind: pname.into(), entries: out, hostile: Some(name) }))
        }
    }
}

// ---------------------------------------------------------------------------
// Sandbox observation
// ---------------------------------------------------------------------------

fn tree(root: &Path, skip: &Path) -> BTreeMap<String, String> {
    let mut out = BTreeMap::new();
    let mut it = walkdir::WalkDir::new(root).follow_links(false).sort_by_file_name().into_iter();
    while let Some(e) = it.next() {
        let Ok(e) = e else { continue };
        if e.path() == skip {
            it.skip_current_dir();
            continue;
        }
        let rel = e.path().strip_prefix(root).unwrap_or(e.path()).to_string_lossy().to_string();
        let v = if e.file_type().is_dir() {
            "dir".to_string()
        } else if e.file_type().is_file() {
            std::fs::read(e.path()).map(|b| hex::encode(&Sha256::digest(&b)[..8])).unwrap_or_else(|_| "unreadable".into())
        } else {
            "other".to_string()
        };
        out.insert(rel, v);
    }
    out
}

fn tree_diff(a: &BTreeMap<String, String>, b: &BTreeMap<String, String>) -> Option<String> {
    for (k, v) in b {
        match a.get(k) {
            None => return Some(format!("created {k}")),
            Some(o) if o != v => return Some(format!("changed {k}")),
            _ => {}
        }
    }
    for k in a.keys() {
        if !b.contains_key(k) {
            return Some(format!("removed {k}"));
        }
    }
    None
}

struct CwdGuard(Option<PathBuf>);
impl CwdGuard {
    fn park(dir: &Path) -> Self {
        let old = std::env::current_dir().ok();
        let _ = std::env::set_current_dir(dir);
        CwdGuard(old)
    }
}
impl Drop for CwdGuard {
    fn drop(&mut self) {
        let back = self.0.clone().filter(|p| p.exists()).unwrap_or_else(|| PathBuf::from("/"));
        let _ = std::env::set_current_dir(back);
    }
}

struct Sandbox {
    root: tempfile::TempDir,
    nest: PathBuf,
}

fn sandbox() -> Result<Sandbox, Failure> {
    let root = tempfile::Builder::new().prefix("sv-c18-").tempdir().map_err(hf("harness/tempdir", "sandbox"))?;
    let nest = root.path().join("l1").join("l2").join("l3").join("l4");
    std::fs::create_dir_all(&nest).map_err(hf("harness/tempdir", "nest"))?;
    std::fs::create_dir_all(root.path().join("cwd/a/b/c")).map_err(hf("harness/tempdir", "cwd"))?;
    std::fs::write(root.path().join("canary.txt"), b"canary").map_err(hf("harness/tempdir", "canary"))?;
    std::fs::write(nest.join("canary.txt"), b"canary").map_err(hf("harness/tempdir", "canary"))?;
    Ok(Sandbox { root, nest })
}

// ---------------------------------------------------------------------------
// Source account
// ---------------------------------------------------------------------------

struct Built {
    w: AcctWorld,
    attachment: Option<(ExternalFile, Vec<u8>)>,
}

async fn build_source(s: &Source) -> Result<Built, Failure> {
    let mut w = AcctWorld::new(&s.history.cfg).await?;
    for (i, op) in s.history.ops.iter().enumerate() {
        w.apply(op).await.map_err(|f| Failure::new(f.signature, format!("history op #{i} {}: {}", crate::prop_c01::op_label(op), f.message)))?;
    }
    for (folder, spec) in &s.extra {
        let op = Op::CreateSecret { folder: *folder, spec: spec.clone() };
        w.apply(&op).await.map_err(|f| Failure::new(f.signature, format!("appended create: {}", f.message)))?;
    }
    let mut attachment = None;
    if let Some(fs) = &s.attach {
        let fi = pick(fs.folder, w.model.folders.len());
        let bytes = file_bytes(fs);
        let (_, file) = create_file_secret(&mut w, fi, &bytes).await.map_err(|f| Failure::new(f.signature.replace("c16/", "c18/source/"), f.message))?;
        attachment = Some((file, bytes));
    }
    Ok(Built { w, attachment })
}

fn source_rule(w: &AcctWorld) -> bool {
    let user = w.model.folders.iter().any(|f| !f.builtin);
    let flagged = w.stats.flags_or_desc_changed || w.model.folders.iter().any(|f| !f.builtin && f.flags != 0);
    let secrets: usize = w.model.folders.iter().map(|f| f.secrets.len()).sum();
    user && flagged && secrets >= 1
}

fn note_source(info: &mut CaseInfo, b: &Built) {
    info.class(b.w.cfg.label());
    info.class(format!("listed-folders/{}", b.w.model.folders.len().min(5)));
    if b.attachment.is_some() {
        info.class("with-attachment");
    }
    if b.w.model.folders.iter().any(|f| !f.builtin && f.flags != 0) {
        info.class("user-folder-with-flags");
    }
    if b.w.stats.flags_or_desc_changed {
        info.class("flags-or-description-edited");
    }
    if !b.w.model.deleted_folders.is_empty() {
        info.class("deleted-folder");
    }
}

fn remap(f: Failure, be: &str, stage: &str) -> Failure {
    let last = f.signature.rsplit('/').next().unwrap_or("").to_string();
    Failure::new(format!("c18/{be}/{stage}/{last}"), f.message)
}

// ---------------------------------------------------------------------------
// Round trip
// ---------------------------------------------------------------------------

pub fn check_roundtrip(s: &Source) -> (CaseInfo, CheckResult) {
    let mut info = CaseInfo::default();
    let r = block_on(async {
        sos_core::verif::set_clock(Some((1_700_000_000i128 * 1_000_000_000, 1_000_003)));
        let res = run_roundtrip(s, &mut info).await;
        sos_core::verif::set_clock(None);
        res
    });
    (info, r)
}

async fn run_roundtrip(s: &Source, info: &mut CaseInfo) -> CheckResult {
    let mut b = build_source(s).await?;
    let be = if b.w.cfg.db { "sqlite" } else { "fs" };
    note_source(info, &b);
    info.nontrivial = source_rule(&b.w);
    info.inner_evals = b.w.stats.steps as u64;
    // the source itself serves what was written (otherwise the comparison below blames the import)
    b.w.check_reads("building the source account").await.map_err(|f| remap(f, be, "source-account"))?;

    let sb = sandbox()?;
    let archive = sb.root.path().join("backup.zip");
    b.w.account.export_backup_archive(&archive).await.map_err(hf(&format!("c18/{be}/export-error"), "export_backup_archive"))?;
    let entries = read_archive(&archive).await?;
    info.class(format!("archive-entries/{}", (entries.len() / 4) * 4));

    let target_dir = tempfile::Builder::new().prefix("target-").tempdir_in(&sb.nest).map_err(hf("harness/tempdir", "target"))?;
    let target = make_target(target_dir.path(), b.w.cfg.db).await?;
    let outside_before = tree(sb.root.path(), target_dir.path());
    let imported = LocalAccount::import_backup_archive(&archive, &target).await.map_err(hf(&format!("c18/{be}/import-of-own-export-refused"), "import_backup_archive of a freshly exported archive into empty storage"))?;
    ensure!(
        imported.len() == 1 && imported[0].account_id() == &b.w.account_id,
        format!("c18/{be}/imported-identity-differs"),
        "[{be}] import returned identities {:?}, exported account is {}",
        imported.iter().map(|i| i.account_id().to_string()).collect::<Vec<_>>(),
        b.w.account_id
    );
    if let Some(d) = tree_diff(&outside_before, &tree(sb.root.path(), target_dir.path())) {
        return Err(Failure::new(format!("c18/{be}/import-wrote-outside-target"), format!("[{be}] importing the untouched archive {d} outside the import target")));
    }
    let listed = target.list_accounts().await.map_err(hf(&format!("c18/{be}/list-accounts-error"), "list_accounts on the import target"))?;
    ensure!(listed.iter().any(|i| i.account_id() == &b.w.account_id), format!("c18/{be}/imported-account-not-listed"), "[{be}] list_accounts of the import target does not contain the imported account");

    let target2 = make_target(target_dir.path(), b.w.cfg.db).await?;
    let mut account = LocalAccount::new_unauthenticated(b.w.account_id, target2)
        .await
        .map_err(hf(&format!("c18/{be}/roundtrip/open-failed"), "new_unauthenticated on the imported storage"))?;
    let key: AccessKey = b.w.password.clone().into();
    account.sign_in(&key).await.map_err(hf(&format!("c18/{be}/roundtrip/sign-in-failed"), "sign_in with the same password on the imported account"))?;

    let mut w2 = AcctWorld {
        temp: target_dir.into(),
        cfg: b.w.cfg.clone(),
        account,
        account_id: b.w.account_id,
        password: b.w.password.clone(),
        model: b.w.model.clone(),
        stats: HistStats::default(),
        avoid: BTreeSet::new(),
        old_keys: vec![],
        search: false,
    };
    w2.check_reads("import of the exported archive").await.map_err(|f| remap(f, be, "roundtrip"))?;

    // attachments
    let src_files: BTreeSet<String> = b.w.account.canonical_files().await.map_err(hf("harness/canonical-files", "source canonical_files"))?.iter().map(|f| f.to_string()).collect();
    let dst_files: BTreeSet<String> = w2.account.canonical_files().await.map_err(hf(&format!("c18/{be}/roundtrip/canonical-files-error"), "imported canonical_files"))?.iter().map(|f| f.to_string()).collect();
    ensure!(src_files == dst_files, format!("c18/{be}/roundtrip/file-set-differs"), "[{be}] canonical files of the source {:?} vs imported {:?}", src_files, dst_files);
    if let Some((file, plain)) = &b.attachment {
        let src_blob = b.w.target().await.with_account_id(&b.w.account_id).paths().into_file_path(file);
        let dst_blob = w2.target().await.with_account_id(&w2.account_id).paths().into_file_path(file);
        let a = std::fs::read(&src_blob).map_err(hf("harness/source-blob", "read source blob"))?;
        let d = std::fs::read(&dst_blob).map_err(hf(&format!("c18/{be}/roundtrip/blob-missing"), &format!("blob {file} in the imported storage")))?;
        ensure!(a == d, format!("c18/{be}/roundtrip/blob-differs"), "[{be}] blob {file} differs after the round trip ({} vs {} bytes)", a.len(), d.len());
        let got = crate::engine_acct::download_file_retry(&w2.account, file.vault_id(), file.secret_id(), file.file_name())
            .await
            .map_err(hf(&format!("c18/{be}/roundtrip/attachment-undecryptable"), "download_file on the imported account"))?;
        ensure!(&got == plain, format!("c18/{be}/roundtrip/attachment-differs"), "[{be}] decrypted attachment differs after the round trip ({} vs {} bytes)", got.len(), plain.len());
    }
    // a fresh instance on the imported storage still signs in
    w2.reopen().await.map_err(|f| remap(f, be, "roundtrip"))?;
    Ok(())
}

// ---------------------------------------------------------------------------
// Mutated archives
// ---------------------------------------------------------------------------

pub fn check_mutants(c: &MutCase) -> (CaseInfo, CheckResult) {
    let mut info = CaseInfo::default();
    let r = block_on(async {
        sos_core::verif::set_clock(Some((1_700_000_000i128 * 1_000_000_000, 1_000_003)));
        let res = run_mutants(c, &mut info).await;
        sos_core::verif::set_clock(None);
        res
    });
    (info, r)
}

fn target_has_identity(target_dir: &Path) -> bool {
    // file system: an identity vault anywhere below the target
    walkdir::WalkDir::new(target_dir).into_iter().flatten().any(|e| {
        let p = e.path();
        p.extension().map(|x| x == "vault").unwrap_or(false) && p.parent().and_then(|d| d.file_name()).map(|n| n == "identity").unwrap_or(false)
    })
}

async fn run_mutants(c: &MutCase, info: &mut CaseInfo) -> CheckResult {
    let b = build_source(&c.source).await?;
    let db = b.w.cfg.db;
    let be = if db { "sqlite" } else { "fs" };
    let ver = if db { "v3" } else { "v2" };
    note_source(info, &b);
    info.class(format!("{ver}/{}", c.class.name()));
    info.nontrivial = source_rule(&b.w);

    let sb = sandbox()?;
    let archive = sb.root.path().join("backup.zip");
    b.w.account.export_backup_archive(&archive).await.map_err(hf(&format!("c18/{be}/export-error"), "export_backup_archive"))?;
    let entries = read_archive(&archive).await?;
    let _cwd = CwdGuard::park(&sb.root.path().join("cwd/a/b/c"));

    for (mi, m) in c.muts.iter().enumerate() {
        let Some(applied) = apply_mutation(c.class, m, &entries, &b.w.account_id, sb.root.path(), db)? else {
            info.class("mutation-not-applicable");
            continue;
        };
        info.class(format!("{ver}/{}/{}", c.class.name(), applied.kind));
        let mutant = sb.root.path().join(format!("mutant-{mi}.zip"));
        write_archive(&mutant, &applied.entries).await?;
        let target_dir = tempfile::Builder::new().prefix("target-").tempdir_in(&sb.nest).map_err(hf("harness/tempdir", "target"))?;
        let target = make_target(target_dir.path(), db).await?;
        let accounts_before = target.list_accounts().await.map_err(hf("harness/list-accounts", "list_accounts before import"))?;
        ensure!(accounts_before.is_empty(), "harness/target-not-empty", "fresh target lists accounts");
        let outside_before = tree(sb.root.path(), target_dir.path());
        let inside_before = tree(target_dir.path(), Path::new("/nonexistent"));

        LAST_PANIC.with(|l| l.borrow_mut().clear());
        let res = std::panic::AssertUnwindSafe(LocalAccount::import_backup_archive(&mutant, &target)).catch_unwind().await;
        info.inner_evals += 1;
        let what = &applied.what;

        // 1. nothing outside the target was touched
        if let Some(d) = tree_diff(&outside_before, &tree(sb.root.path(), target_dir.path())) {
            return Err(Failure::new(
                format!("c18/{ver}/write-outside-target/{}", applied.kind),
                format!("[{ver}] mutant #{mi}: {what}; the import {d} in the case sandbox outside the import target ({})", match &res { Ok(Ok(_)) => "import returned Ok".to_string(), Ok(Err(e)) => format!("import returned Err: {e}"), Err(_) => "import panicked".to_string() }),
            ));
        }
        // 2. panics
        let res = match res {
            Ok(r) => r,
            Err(_) => {
                let site = LAST_PANIC.with(|l| l.borrow().clone());
                let file = site.split(':').next().unwrap_or("").to_string();
                let sig = if file.ends_with("archive/import.rs") {
                    let krate = if file.contains("database") { "database" } else { "filesystem" };
                    match c.class {
                        Class::HostileName => format!("c18/{ver}/import-panics-on-entry-name@{krate}/archive/import.rs"),
                        _ => format!("c18/{ver}/import-panics-on-missing-entry@{krate}/archive/import.rs"),
                    }
                } else {
                    format!("c18/{ver}/import-panic@{site}")
                };
                return Err(Failure::new(sig, format!("[{ver}] mutant #{mi}: {what}; import_backup_archive panicked at {site} instead of returning an error")));
            }
        };
        // 3. rejection and no account
        let accounts_after = target.list_accounts().await.map_err(hf(&format!("c18/{ver}/list-accounts-error-after-import"), &format!("mutant #{mi}: {what}; list_accounts on the target after the import")))?;
        match &res {
            Ok(ids) => {
                if c.class.must_reject() {
                    return Err(Failure::new(
                        format!("c18/{ver}/mismatch-accepted/{}", applied.kind),
                        format!("[{ver}] mutant #{mi}: {what}; import_backup_archive returned Ok({:?})", ids.iter().map(|i| i.account_id().to_string()).collect::<Vec<_>>()),
                    ));
                }
                info.class(format!("{ver}/{}/accepted", c.class.name()));
            }
            Err(e) => {
                info.class(format!("{ver}/{}/rejected", c.class.name()));
                let leftover_identity = !db && target_has_identity(target_dir.path());
                // "rejected without creating an account" is stated for checksum mismatches;
                // for the other mutant classes (hostile names, duplicates) only the escape
                // oracle applies and a partial import is classified
                if (!accounts_after.is_empty() || leftover_identity) && !c.class.must_reject() {
                    info.class(format!("{ver}/{}/rejected-after-partial-import", c.class.name()));
                } else if !accounts_after.is_empty() || leftover_identity {
                    return Err(Failure::new(
                        format!("c18/{ver}/rejected-archive-created-account/{}", applied.kind),
                        format!("[{ver}] mutant #{mi}: {what}; import returned Err({e}) but the target now lists {} account(s){}", accounts_after.len(), if leftover_identity { " and holds an identity vault" } else { "" }),
                    ));
                }
                if tree_diff(&inside_before, &tree(target_dir.path(), Path::new("/nonexistent"))).is_some() {
                    info.class(format!("{ver}/rejected-import-left-files-in-target"));
                }
            }
        }
        let _ = applied.hostile;
    }
    Ok(())
}

// ---------------------------------------------------------------------------
// Strategies, run, replay
// ---------------------------------------------------------------------------

fn prefix_strategy() -> impl Strategy<Value = Vec<Op>> {
    prop_oneof![
        1 => Just(vec![]),
        3 => ("[a-z]{1,8}", 0u8..8, "[ -~]{1,20}").prop_map(|(name, flags, text)| vec![
            Op::CreateFolder { name, flags },
            Op::SetDescription { folder: u16::MAX, text },
        ]),
    ]
}

fn source_strategy(db: bool, max_ops: usize, attach_weight: f64) -> impl Strategy<Value = Source> {
    (
        prefix_strategy(),
        history_strategy(Mix::Content, max_ops),
        proptest::collection::vec((any::<u16>(), spec_strategy()), 1..4),
        proptest::option::weighted(attach_weight, (any::<u16>(), any::<u16>(), any::<u8>())),
    )
        .prop_map(move |(prefix, mut history, extra, attach)| {
            history.cfg.db = db;
            let mut ops = prefix;
            ops.extend(history.ops);
            history.ops = ops;
            Source { history, extra, attach: attach.map(|(folder, len, seed)| FileSpec { folder, len, seed, boundary: 0 }) }
        })
}

fn arch_mut_strategy() -> impl Strategy<Value = ArchMut> {
    (any::<u16>(), any::<u16>(), 1u8..=255, any::<u8>(), 0u8..8, any::<bool>()).prop_map(|(sel, pos, mask, pattern, ups, rename)| ArchMut { sel, pos, mask, pattern, ups, rename })
}

fn mut_case_strategy(class: Class, db: bool) -> impl Strategy<Value = MutCase> {
    let attach = if class == Class::HostileName { 0.3 } else { 0.1 };
    (proptest::collection::vec(arch_mut_strategy(), 1..=3), source_strategy(db, 6, attach)).prop_map(move |(muts, source)| MutCase { class, source, muts })
}

pub const CLASSES: [Class; 6] = [Class::FlipEntry, Class::ManifestChecksum, Class::ManifestAccountId, Class::DropEntry, Class::DuplicateEntry, Class::HostileName];

/// real evaluations spent on shrinking one failing sub-check (cases cost ~0.5-1 s)
const SHRINK_BUDGET: u32 = 10;

fn run(shard: &Shard, rep: &mut Report) {
    let t = shard.tier;
    for db in [false, true] {
        let be = if db { "sqlite" } else { "fs" };
        let ver = if db { "v3" } else { "v2" };
        drive(shard, rep, &format!("roundtrip/{be}"), shard.share(t.pick(50, 750)), source_strategy(db, 12, 0.15), with_shrink_budget(shard, SHRINK_BUDGET, |s| check_roundtrip(s)));
        for class in CLASSES {
            if db && class == Class::ManifestAccountId {
                continue; // the v3 manifest has no account id
            }
            let n = if class == Class::HostileName { t.pick(32, 1000) } else { t.pick(14, 420) };
            drive(shard, rep, &format!("mutant/{ver}/{}", class.name()), shard.share(n), mut_case_strategy(class, db), with_shrink_budget(shard, SHRINK_BUDGET, |c| check_mutants(c)));
        }
    }
}

fn replay(_shard: &Shard, sub: &str, case: &Value) -> CheckResult {
    if sub.starts_with("roundtrip/") {
        let s: Source = from_case(case).map_err(|e| Failure::new("harness", e))?;
        check_roundtrip(&s).1
    } else {
        let c: MutCase = from_case(case).map_err(|e| Failure::new("harness", e))?;
        check_mutants(&c).1
    }
}
