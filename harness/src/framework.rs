//! Shared machinery: sharded proptest driver, reports, known findings,
//! replay files and evidence.
use proptest::strategy::{Strategy, ValueTree};
use proptest::test_runner::{
    Config, RngAlgorithm, TestCaseError, TestError, TestRng, TestRunner,
};
use serde::{de::DeserializeOwned, Deserialize, Serialize};
use serde_json::{json, Value};
use std::collections::{BTreeMap, BTreeSet, HashSet};
use std::hash::{Hash, Hasher};
use std::path::{Path, PathBuf};
use std::time::Instant;

/// Root of the verification tree (evidence, replays, known findings).
pub fn verif_dir() -> PathBuf {
    PathBuf::from(std::env::var("VERIF_DIR").unwrap_or_else(|_| "/verif".to_string()))
}

#[derive(Clone, Copy, Debug, PartialEq, Eq, Serialize, Deserialize)]
#[serde(rename_all = "lowercase")]
pub enum Tier {
    Quick,
    Thorough,
}

impl Tier {
    pub fn pick<T>(&self, quick: T, thorough: T) -> T {
        match self {
            Tier::Quick => quick,
            Tier::Thorough => thorough,
        }
    }
    pub fn name(&self) -> &'static str {
        self.pick("quick", "thorough")
    }
}

/// A failed check on one case.
#[derive(Clone, Debug, Serialize, Deserialize)]
pub struct Failure {
    /// Root-cause class (matched against known findings).
    pub signature: String,
    pub message: String,
}

impl Failure {
    pub fn new(signature: impl Into<String>, message: impl Into<String>) -> Self {
        Self {
            signature: signature.into(),
            message: message.into(),
        }
    }
}

pub type CheckResult = Result<(), Failure>;

#[macro_export]
macro_rules! fail {
    ($sig:expr, $($arg:tt)*) => {
        return Err($crate::framework::Failure::new($sig, format!($($arg)*)))
    };
}

#[macro_export]
macro_rules! ensure {
    ($cond:expr, $sig:expr, $($arg:tt)*) => {
        if !($cond) {
            return Err($crate::framework::Failure::new($sig, format!($($arg)*)));
        }
    };
}

/// What one evaluated case reports besides pass/fail.
#[derive(Default, Debug, Clone)]
pub struct CaseInfo {
    pub nontrivial: bool,
    pub classes: Vec<String>,
    /// Known-finding shapes that were excluded by construction.
    pub excluded: Vec<String>,
    /// Extra sub-evaluations inside the case (e.g. steps checked).
    pub inner_evals: u64,
}

impl CaseInfo {
    pub fn class(&mut self, c: impl Into<String>) {
        self.classes.push(c.into());
    }
}

#[derive(Clone, Debug, Serialize, Deserialize)]
pub struct FoundViolation {
    pub sub: String,
    pub signature: String,
    pub message: String,
    pub case: Value,
}

/// Per-shard (and merged) report.
#[derive(Default, Debug, Serialize, Deserialize)]
pub struct Report {
    pub evaluations: u64,
    pub inner_evaluations: u64,
    pub nontrivial_hashes: BTreeSet<u64>,
    pub classes: BTreeMap<String, u64>,
    pub excluded: BTreeMap<String, u64>,
    pub known_hits: BTreeMap<String, u64>,
    pub known_examples: BTreeMap<String, Value>,
    pub samples: Vec<Value>,
    pub violations: Vec<FoundViolation>,
    pub notes: Vec<String>,
    pub exhaustive: Option<bool>,
    pub inconclusive: Vec<String>,
    pub sub_evals: BTreeMap<String, u64>,
    /// harness-level hiccups of single cases (a local HTTP request that failed under machine
    /// load, a settle watchdog): the case is skipped and counted; the run only becomes
    /// inconclusive when they are more than a few (see `run_check`)
    #[serde(default)]
    pub transient: Vec<String>,
}

impl Report {
    pub fn merge(&mut self, other: Report) {
        self.evaluations += other.evaluations;
        self.inner_evaluations += other.inner_evaluations;
        self.nontrivial_hashes.extend(other.nontrivial_hashes);
        for (k, v) in other.classes {
            *self.classes.entry(k).or_default() += v;
        }
        for (k, v) in other.excluded {
            *self.excluded.entry(k).or_default() += v;
        }
        for (k, v) in other.known_hits {
            *self.known_hits.entry(k).or_default() += v;
        }
        for (k, v) in other.known_examples {
            self.known_examples.entry(k).or_insert(v);
        }
        for (k, v) in other.sub_evals {
            *self.sub_evals.entry(k).or_default() += v;
        }
        for s in other.samples {
            if self.samples.len() < 6 {
                self.samples.push(s);
            }
        }
        self.violations.extend(other.violations);
        self.notes.extend(other.notes);
        self.inconclusive.extend(other.inconclusive);
        self.transient.extend(other.transient);
        self.exhaustive = match (self.exhaustive, other.exhaustive) {
            (Some(a), Some(b)) => Some(a && b),
            (a, None) => a,
            (None, b) => b,
        };
    }

    pub fn class(&mut self, c: &str, n: u64) {
        *self.classes.entry(c.to_string()).or_default() += n;
    }

    /// Record one case explicitly (for enumerations that do not go through
    /// the proptest driver).
    pub fn record_case(&mut self, sub: &str, hash: u64, info: &CaseInfo) {
        self.evaluations += 1;
        *self.sub_evals.entry(sub.to_string()).or_default() += 1;
        self.inner_evaluations += info.inner_evals;
        if info.nontrivial {
            self.nontrivial_hashes.insert(hash);
        }
        for c in &info.classes {
            *self.classes.entry(c.clone()).or_default() += 1;
        }
        for c in &info.excluded {
            *self.excluded.entry(c.clone()).or_default() += 1;
        }
    }
}

pub fn hash_of<T: Hash>(v: &T) -> u64 {
    let mut h = std::collections::hash_map::DefaultHasher::new();
    v.hash(&mut h);
    h.finish()
}

pub fn hash_json(v: &Value) -> u64 {
    hash_of(&v.to_string())
}

/// Shard context handed to property code.
#[derive(Clone, Debug)]
pub struct Shard {
    pub property: String,
    pub tier: Tier,
    pub seed: u64,
    pub index: u32,
    pub count: u32,
    pub known: Vec<KnownFinding>,
    pub strict: bool,
}

impl Shard {
    /// Split a total case count over shards.
    pub fn share(&self, total: u64) -> u64 {
        let base = total / self.count as u64;
        let extra = if (self.index as u64) < total % self.count as u64 {
            1
        } else {
            0
        };
        base + extra
    }

    pub fn rng_seed(&self, sub: &str) -> [u8; 32] {
        use sha2::{Digest, Sha256};
        let mut h = Sha256::new();
        h.update(self.seed.to_le_bytes());
        h.update(self.property.as_bytes());
        h.update(sub.as_bytes());
        h.update(self.index.to_le_bytes());
        h.finalize().into()
    }

    pub fn is_known(&self, signature: &str) -> bool {
        !self.strict
            && self
                .known
                .iter()
                .any(|k| k.status == "known" && k.signature == signature)
    }

    pub fn has_known(&self, signature: &str) -> bool {
        self.known
            .iter()
            .any(|k| k.status == "known" && k.signature == signature)
    }
}

/// Run `check` and convert a panic into a failure.
pub fn guarded<F: FnOnce() -> (CaseInfo, CheckResult)>(
    f: F,
) -> (CaseInfo, CheckResult) {
    match std::panic::catch_unwind(std::panic::AssertUnwindSafe(f)) {
        Ok(r) => r,
        Err(e) => {
            let msg = if let Some(s) = e.downcast_ref::<&str>() {
                s.to_string()
            } else if let Some(s) = e.downcast_ref::<String>() {
                s.clone()
            } else {
                "panic".to_string()
            };
            let site = LAST_PANIC.with(|l| l.borrow().clone());
            (
                CaseInfo::default(),
                Err(Failure::new(
                    format!("panic@{}", site),
                    format!("panic: {} at {}", msg, site),
                )),
            )
        }
    }
}

thread_local! {
    pub static LAST_PANIC: std::cell::RefCell<String> = std::cell::RefCell::new(String::new());
}

/// Install a panic hook that records the panic location quietly.
pub fn install_quiet_panic_hook() {
    std::panic::set_hook(Box::new(|info| {
        let loc = info
            .location()
            .map(|l| {
                let f = l.file();
                let f = f.strip_prefix("/repo/").unwrap_or(f);
                format!("{}:{}", f, l.line())
            })
            .unwrap_or_default();
        LAST_PANIC.with(|l| *l.borrow_mut() = loc.clone());
        if std::env::var("VERIF_VERBOSE_PANIC").is_ok() {
            eprintln!("panic: {}", info);
        }
    }));
}

/// Drive a proptest strategy for a fixed number of cases.
///
/// `check` is executed once per generated case (plus shrink re-runs, which
/// are not counted).  Failures whose signature is a *known finding* are
/// counted and do not stop the search.
pub fn drive<S, F>(
    shard: &Shard,
    rep: &mut Report,
    sub: &str,
    cases: u64,
    strategy: S,
    mut check: F,
) where
    S: Strategy,
    S::Value: Serialize + Clone + std::fmt::Debug,
    F: FnMut(&S::Value) -> (CaseInfo, CheckResult),
{
    if cases == 0 {
        return;
    }
    // debugging aid: run a single sub-check
    if let Ok(only) = std::env::var("VERIF_ONLY_SUB") {
        if only != sub {
            return;
        }
    }
    let config = Config {
        cases: cases as u32,
        failure_persistence: None,
        max_shrink_iters: 2000,
        max_shrink_time: 240_000,
        ..Config::default()
    };
    let rng = TestRng::from_seed(RngAlgorithm::ChaCha, &shard.rng_seed(sub));
    let mut runner = TestRunner::new_with_rng(config, rng);
    struct St<'a, F> {
        failed: bool,
        last_failure: Option<Failure>,
        n: u64,
        had_nontrivial_sample: bool,
        rep: &'a mut Report,
        check: F,
    }
    let sample_every = std::cmp::max(1, cases / 3);
    let st = std::cell::RefCell::new(St {
        failed: false,
        last_failure: None,
        n: 0,
        had_nontrivial_sample: false,
        rep: &mut *rep,
        check: &mut check,
    });

    let result = runner.run(&strategy, |value| {
        let mut guard = st.borrow_mut();
        let st = &mut *guard;
        let (info, res) = guarded(|| (st.check)(&value));
        if !st.failed {
            let jv = serde_json::to_value(&value).unwrap_or(Value::Null);
            st.rep.record_case(sub, hash_json(&jv), &info);
            st.n += 1;
            let want_sample = st.n == 1
                || st.n % sample_every == 1
                || (info.nontrivial && !st.had_nontrivial_sample);
            if want_sample && st.rep.samples.len() < 6 {
                if info.nontrivial {
                    st.had_nontrivial_sample = true;
                }
                st.rep.samples.push(json!({
                    "sub": sub,
                    "nontrivial": info.nontrivial,
                    "case": truncate_json(&jv, 2000),
                }));
            }
        }
        match res {
            Ok(()) => Ok(()),
            Err(f) => {
                if shard.is_known(&f.signature) {
                    if !st.failed {
                        *st.rep
                            .known_hits
                            .entry(f.signature.clone())
                            .or_default() += 1;
                        if !st.rep.known_examples.contains_key(&f.signature) {
                            st.rep.known_examples.insert(
                                f.signature.clone(),
                                json!({"message": f.message, "case": truncate_json(&serde_json::to_value(&value).unwrap_or(Value::Null), 1500)}),
                            );
                        }
                    }
                    Ok(())
                } else {
                    st.failed = true;
                    st.last_failure = Some(f.clone());
                    Err(TestCaseError::fail(f.message))
                }
            }
        }
    });
    let last_failure = st.into_inner().last_failure;
    match result {
        Ok(()) => {}
        Err(TestError::Fail(_, value)) => {
            // re-run on the minimal value to get its own signature
            let (_, res) = guarded(|| check(&value));
            let f = match res {
                Err(f) => f,
                Ok(()) => last_failure.unwrap_or(Failure::new(
                    "unstable",
                    "minimal case did not fail again",
                )),
            };
            rep.violations.push(FoundViolation {
                sub: sub.to_string(),
                signature: f.signature,
                message: f.message,
                case: serde_json::to_value(&value).unwrap_or(Value::Null),
            });
        }
        Err(TestError::Abort(reason)) => {
            rep.inconclusive
                .push(format!("{}: proptest aborted: {}", sub, reason));
        }
    }
}

/// Generate one value from a strategy with the shard's deterministic rng
/// (for building fixtures).
pub fn sample_one<S: Strategy>(shard: &Shard, sub: &str, s: &S) -> S::Value {
    let rng = TestRng::from_seed(RngAlgorithm::ChaCha, &shard.rng_seed(sub));
    let mut runner = TestRunner::new_with_rng(Config::default(), rng);
    s.new_tree(&mut runner).unwrap().current()
}

pub fn truncate_json(v: &Value, max: usize) -> Value {
    let s = v.to_string();
    if s.len() <= max {
        v.clone()
    } else {
        let mut end = max;
        while !s.is_char_boundary(end) {
            end -= 1;
        }
        json!({"truncated_json": &s[..end], "full_len": s.len()})
    }
}

/// Monotone index mapping (shrinks toward earlier slots).
pub fn pick(i: u16, len: usize) -> usize {
    if len == 0 {
        0
    } else {
        ((i as usize) * len) >> 16
    }
}

// ---------------------------------------------------------------------------
// Known findings
// ---------------------------------------------------------------------------

#[derive(Clone, Debug, Serialize, Deserialize)]
pub struct KnownFinding {
    pub property: String,
    #[serde(default)]
    pub signature: String,
    pub status: String,
    #[serde(default)]
    pub commit: Option<String>,
    pub what: String,
    #[serde(default)]
    pub line: Option<String>,
}

#[derive(Clone, Debug, Serialize, Deserialize, Default)]
pub struct KnownFile {
    pub findings: Vec<KnownFinding>,
}

pub fn load_known(property: &str) -> Vec<KnownFinding> {
    let p = verif_dir().join("known_findings.json");
    let Ok(s) = std::fs::read_to_string(&p) else {
        return vec![];
    };
    let f: KnownFile = serde_json::from_str(&s).unwrap_or_default();
    f.findings
        .into_iter()
        .filter(|k| k.property == property)
        .collect()
}

// ---------------------------------------------------------------------------
// Replay files
// ---------------------------------------------------------------------------

#[derive(Clone, Debug, Serialize, Deserialize)]
pub struct ReplayFile {
    pub property: String,
    pub sub: String,
    pub signature: String,
    pub message: String,
    pub seed: u64,
    pub tier: String,
    pub case: Value,
}

pub fn write_replay(
    property: &str,
    tier: Tier,
    seed: u64,
    v: &FoundViolation,
) -> PathBuf {
    let dir = verif_dir().join("replays").join(property);
    let _ = std::fs::create_dir_all(&dir);
    let name = format!(
        "{}-{}-{:016x}.json",
        v.sub.replace('/', "_"),
        sanitize(&v.signature),
        hash_json(&v.case)
    );
    let path = dir.join(name);
    let file = ReplayFile {
        property: property.to_string(),
        sub: v.sub.clone(),
        signature: v.signature.clone(),
        message: v.message.clone(),
        seed,
        tier: tier.name().to_string(),
        case: v.case.clone(),
    };
    let _ = std::fs::write(&path, serde_json::to_vec_pretty(&file).unwrap());
    path
}

fn sanitize(s: &str) -> String {
    s.chars()
        .map(|c| if c.is_ascii_alphanumeric() { c } else { '_' })
        .take(60)
        .collect()
}

pub fn from_case<T: DeserializeOwned>(v: &Value) -> Result<T, String> {
    serde_json::from_value(v.clone()).map_err(|e| format!("bad replay case: {e}"))
}

// ---------------------------------------------------------------------------
// Evidence
// ---------------------------------------------------------------------------

pub struct PropertyMeta {
    pub id: &'static str,
    pub level: &'static str,
    pub rule: &'static str,
    pub assumptions: &'static [&'static str],
}

pub fn write_evidence(
    meta: &PropertyMeta,
    tier: Tier,
    seed: u64,
    rep: &Report,
    wall_s: f64,
    new_violations: usize,
) -> std::io::Result<()> {
    let dir = verif_dir().join("evidence");
    std::fs::create_dir_all(&dir)?;
    let repo_head = std::process::Command::new("git")
        .args(["-C", "/repo", "rev-parse", "HEAD"])
        .output()
        .ok()
        .map(|o| String::from_utf8_lossy(&o.stdout).trim().to_string())
        .unwrap_or_default();
    let repo_dirty = std::process::Command::new("git")
        .args(["-C", "/repo", "status", "--porcelain", "--untracked-files=no"])
        .output()
        .ok()
        .map(|o| !o.stdout.is_empty())
        .unwrap_or(false);
    let mut coverage = json!({
        "evaluations": rep.evaluations,
        "distinct_nontrivial": rep.nontrivial_hashes.len(),
        "rule": meta.rule,
        "samples": rep.samples,
        "inner_evaluations": rep.inner_evaluations,
        "per_check_evaluations": rep.sub_evals,
        "classes": rep.classes,
        "excluded_known_shapes": rep.excluded,
        "known_finding_hits": rep.known_hits,
        "known_finding_examples": rep.known_examples,
        "notes": rep.notes,
        "inconclusive": rep.inconclusive,
    });
    if let Some(e) = rep.exhaustive {
        coverage["exhaustive"] = json!(e);
    }
    let ev = json!({
        "property_id": meta.id,
        "tier": tier.name(),
        "seed": seed,
        "level": meta.level,
        "coverage": coverage,
        "assumptions": meta.assumptions,
        "wall_s": wall_s,
        "violations": new_violations,
        "repo_head": repo_head,
        "repo_dirty": repo_dirty,
    });
    std::fs::write(
        dir.join(format!("{}.json", meta.id)),
        serde_json::to_vec_pretty(&ev).unwrap(),
    )
}

// ---------------------------------------------------------------------------
// Orchestration
// ---------------------------------------------------------------------------

pub struct PropertyDef {
    pub meta: PropertyMeta,
    /// Number of worker processes wanted for a tier.
    pub shards: fn(Tier) -> u32,
    /// Run one shard.
    pub run: fn(&Shard, &mut Report),
    /// Re-execute one saved case (strict: known findings also fail).
    pub replay: fn(&Shard, &str, &Value) -> CheckResult,
    /// Per-run watchdog in seconds.
    pub timeout_s: fn(Tier) -> u64,
}

pub fn seed_from_env() -> u64 {
    std::env::var("VERIF_SEED")
        .ok()
        .and_then(|s| s.trim().parse::<u64>().ok())
        .unwrap_or(20260925)
}

/// Parent: spawn workers, merge, print, write evidence. Returns exit code.
pub fn run_check(def: &PropertyDef, tier: Tier, seed: u64) -> i32 {
    let start = Instant::now();
    let id = def.meta.id;
    let n = (def.shards)(tier).max(1);
    let exe = std::env::current_exe().expect("current exe");
    let tmp = tempfile::Builder::new()
        .prefix(&format!("sv-{}-", id))
        .tempdir()
        .expect("tempdir");
    // every temporary directory of the workers, replays and their children goes below this
    // run's directory (TMPDIR is inherited), so that it is removed with it - also what
    // aborted crash children and killed workers leave behind
    let scratch = tmp.path().join("tmp");
    let _ = std::fs::create_dir_all(&scratch);
    std::env::set_var("TMPDIR", &scratch);
    let mut children = vec![];
    for i in 0..n {
        let out = tmp.path().join(format!("shard-{i}.json"));
        let child = std::process::Command::new(&exe)
            .arg("worker")
            .arg(id)
            .arg(tier.name())
            .arg(seed.to_string())
            .arg(i.to_string())
            .arg(n.to_string())
            .arg(&out)
            .stdin(std::process::Stdio::null())
            .spawn()
            .expect("spawn worker");
        children.push((i, child, out));
    }
    let deadline = start + std::time::Duration::from_secs((def.timeout_s)(tier));
    let mut merged = Report::default();
    // replay tier: saved regression inputs, each in its own process
    let (reg_run, reg_failed) = run_regressions(id, &exe);
    merged.notes.push(format!(
        "regression replays executed: {} (failed: {})",
        reg_run,
        reg_failed.len()
    ));
    let mut inconclusive: Vec<String> = vec![];
    for (i, mut child, out) in children {
        let status = loop {
            match child.try_wait() {
                Ok(Some(st)) => break Some(st),
                Ok(None) => {
                    if Instant::now() > deadline {
                        let _ = child.kill();
                        let _ = child.wait();
                        break None;
                    }
                    std::thread::sleep(std::time::Duration::from_millis(50));
                }
                Err(_) => break None,
            }
        };
        match status {
            None => inconclusive.push(format!("shard {i}: watchdog timeout")),
            Some(st) => {
                match std::fs::read(&out)
                    .ok()
                    .and_then(|b| serde_json::from_slice::<Report>(&b).ok())
                {
                    Some(r) => merged.merge(r),
                    None => inconclusive.push(format!(
                        "shard {i}: no report (exit status {st})"
                    )),
                }
            }
        }
    }
    inconclusive.extend(merged.inconclusive.iter().cloned());
    // skipped cases: tolerated while they are few (at most 2, or 5% of the evaluations)
    if !merged.transient.is_empty() {
        let n = merged.transient.len() as u64;
        if n > 2 && n * 20 > merged.evaluations {
            inconclusive.extend(merged.transient.iter().cloned());
        } else {
            *merged.classes.entry("skipped/harness-level-error".into()).or_default() += n;
            for t in merged.transient.iter().take(4) {
                merged.notes.push(format!("case skipped on a harness-level error: {}", t.chars().take(300).collect::<String>()));
            }
        }
    }

    let known = load_known(id);
    // known findings that reproduced
    for k in known.iter().filter(|k| k.status == "known") {
        if let Some(c) = merged.known_hits.get(&k.signature) {
            println!(
                "KNOWN-FINDING: property={} {} [signature={} reproduced in {} case(s)]",
                id, k.what, k.signature, c
            );
        } else {
            println!(
                "KNOWN-FINDING: property={} {} [signature={} listed; not re-triggered by this run]",
                id, k.what, k.signature
            );
        }
    }
    // de-duplicate violations by signature
    let mut seen = HashSet::new();
    let mut new_violations = 0usize;
    for v in &merged.violations {
        if !seen.insert((v.sub.clone(), v.signature.clone())) {
            continue;
        }
        new_violations += 1;
        let path = write_replay(id, tier, seed, v);
        println!("VIOLATION property={} replay={}", id, path.display());
        println!("  check={} signature={} : {}", v.sub, v.signature, first_line(&v.message, 600));
    }
    for (path, out) in &reg_failed {
        new_violations += 1;
        println!("VIOLATION property={} replay={}", id, path.display());
        println!("  regression replay failed: {}", first_line(out, 600));
    }
    let wall = start.elapsed().as_secs_f64();
    merged.inconclusive = inconclusive.clone();
    if let Err(e) =
        write_evidence(&def.meta, tier, seed, &merged, wall, new_violations)
    {
        eprintln!("cannot write evidence: {e}");
        return 2;
    }
    println!(
        "[{}] tier={} seed={} evaluations={} distinct_nontrivial={} violations={} known_hits={} wall={:.1}s",
        id,
        tier.name(),
        seed,
        merged.evaluations,
        merged.nontrivial_hashes.len(),
        new_violations,
        merged.known_hits.values().sum::<u64>(),
        wall
    );
    if new_violations > 0 {
        1
    } else if !inconclusive.is_empty() {
        for m in &inconclusive {
            eprintln!("INCONCLUSIVE property={} {}", id, m);
        }
        2
    } else {
        0
    }
}

/// Run every saved regression input of a property (`regressions/<ID>/*.json`)
/// through `sv replay` in a fresh process. Returns (executed, failures).
fn run_regressions(id: &str, exe: &Path) -> (usize, Vec<(PathBuf, String)>) {
    let dir = verif_dir().join("regressions").join(id);
    let mut files: Vec<PathBuf> = std::fs::read_dir(&dir)
        .map(|rd| {
            rd.filter_map(|e| e.ok().map(|e| e.path()))
                .filter(|p| p.extension().map(|x| x == "json").unwrap_or(false))
                .collect()
        })
        .unwrap_or_default();
    files.sort();
    let known: Vec<String> = load_known(id)
        .into_iter()
        .filter(|k| k.status == "known")
        .map(|k| k.signature)
        .collect();
    let mut failed = vec![];
    for f in &files {
        // a saved input that demonstrates a *known* finding is expected to
        // fail with exactly that signature
        let expected_known: Option<String> = std::fs::read(f)
            .ok()
            .and_then(|b| serde_json::from_slice::<ReplayFile>(&b).ok())
            .map(|r| r.signature)
            .filter(|s| known.contains(s));
        let out = std::process::Command::new(exe)
            .arg("replay")
            .arg(f)
            .stdin(std::process::Stdio::null())
            .output();
        match out {
            Ok(o) if o.status.code() == Some(0) => {
                if let Some(sig) = &expected_known {
                    println!(
                        "NOTE property={} saved input {} no longer reproduces known finding {}",
                        id,
                        f.display(),
                        sig
                    );
                }
            }
            Ok(o) => {
                let text = String::from_utf8_lossy(&o.stdout).to_string();
                let detail = text
                    .lines()
                    .find(|l| l.trim_start().starts_with("signature="))
                    .unwrap_or("")
                    .trim()
                    .to_string();
                // a failure whose signature is a listed known finding is tolerated
                if known.iter().any(|sig| detail.starts_with(&format!("signature={} ", sig))) {
                    continue;
                }
                failed.push((f.clone(), format!("exit {:?} {}", o.status.code(), detail)));
            }
            Err(e) => failed.push((f.clone(), format!("cannot run: {e}"))),
        }
    }
    (files.len(), failed)
}

fn first_line(s: &str, max: usize) -> String {
    let l = s.lines().next().unwrap_or("");
    l.chars().take(max).collect()
}

static PROCESS_DIR: std::sync::OnceLock<tempfile::TempDir> = std::sync::OnceLock::new();

/// Per-process scratch directory (removed at normal process exit is not
/// guaranteed for statics, so workers remove it explicitly).
pub fn process_dir() -> &'static Path {
    PROCESS_DIR
        .get_or_init(|| {
            tempfile::Builder::new()
                .prefix("sv-proc-")
                .tempdir()
                .expect("process tempdir")
        })
        .path()
}

/// File the process-global audit trail provider appends to.
pub fn audit_file_path() -> PathBuf {
    process_dir().join("audit.dat")
}

/// Process-wide initialisation shared by workers and replays.
pub fn init_process() {
    install_quiet_panic_hook();
    if let Ok(filter) = std::env::var("VERIF_TRACE") {
        let _ = tracing_subscriber::fmt()
            .with_env_filter(tracing_subscriber::EnvFilter::new(filter))
            .with_writer(std::io::stderr)
            .try_init();
    }
    // production builds (debug assertions off) require an audit provider
    sos_backend::audit::init_providers(vec![sos_backend::audit::new_fs_provider(
        audit_file_path(),
    )]);
}

fn cleanup_process() {
    if let Some(d) = PROCESS_DIR.get() {
        let _ = std::fs::remove_dir_all(d.path());
    }
}

pub fn run_worker(def: &PropertyDef, args: &[String]) -> i32 {
    init_process();
    let tier = if args[0] == "thorough" {
        Tier::Thorough
    } else {
        Tier::Quick
    };
    let seed: u64 = args[1].parse().unwrap();
    let index: u32 = args[2].parse().unwrap();
    let count: u32 = args[3].parse().unwrap();
    let out = PathBuf::from(&args[4]);
    let shard = Shard {
        property: def.meta.id.to_string(),
        tier,
        seed,
        index,
        count,
        known: load_known(def.meta.id),
        strict: false,
    };
    let mut rep = Report::default();
    (def.run)(&shard, &mut rep);
    std::fs::write(&out, serde_json::to_vec(&rep).unwrap()).unwrap();
    cleanup_process();
    0
}

pub fn run_replay(def: &PropertyDef, file: &Path) -> i32 {
    init_process();
    let Ok(bytes) = std::fs::read(file) else {
        eprintln!("cannot read {}", file.display());
        return 2;
    };
    let rf: ReplayFile = match serde_json::from_slice(&bytes) {
        Ok(r) => r,
        Err(e) => {
            eprintln!("bad replay file: {e}");
            return 2;
        }
    };
    let shard = Shard {
        property: def.meta.id.to_string(),
        tier: Tier::Quick,
        seed: rf.seed,
        index: 0,
        count: 1,
        known: load_known(def.meta.id),
        strict: true,
    };
    let sub = rf.sub.clone();
    let case = rf.case.clone();
    let (_, res) = guarded(|| (CaseInfo::default(), (def.replay)(&shard, &sub, &case)));
    cleanup_process();
    match res {
        Ok(()) => {
            println!("replay passed: {}", file.display());
            0
        }
        Err(f) => {
            println!("VIOLATION property={} replay={}", def.meta.id, file.display());
            println!("  signature={} : {}", f.signature, f.message);
            1
        }
    }
}

/// Build a current-thread runtime and block on a future.
pub fn block_on<F: std::future::Future>(f: F) -> F::Output {
    tokio::runtime::Builder::new_current_thread()
        .enable_all()
        .build()
        .expect("runtime")
        .block_on(f)
}

/// Wrap a check so that shrinking a failing case costs at most `budget` real
/// evaluations (for checks whose cases cost ~1 s, where proptest's own limits
/// of 2000 iterations / 240 s are far too generous).  Before the first
/// non-known failure every case is evaluated.  Afterwards (= while proptest
/// shrinks) the first `budget` candidates are evaluated for real; later
/// candidates are answered "passes" without running, except the last really
/// failing case, which is answered from the cache so that `drive`'s final
/// re-run of the minimal value sees its failure.
pub fn with_shrink_budget<'a, T, F>(
    shard: &'a Shard,
    budget: u32,
    mut check: F,
) -> impl FnMut(&T) -> (CaseInfo, CheckResult) + 'a
where
    T: Serialize,
    F: FnMut(&T) -> (CaseInfo, CheckResult) + 'a,
{
    let mut failed = false;
    let mut spent = 0u32;
    let mut last: Option<(u64, Failure)> = None;
    move |case: &T| {
        let h = hash_json(&serde_json::to_value(case).unwrap_or(Value::Null));
        if failed {
            if let Some((lh, f)) = &last {
                if *lh == h {
                    return (CaseInfo::default(), Err(f.clone()));
                }
            }
            if spent >= budget {
                return (CaseInfo::default(), Ok(()));
            }
            spent += 1;
        }
        let (info, res) = guarded(|| check(case));
        if let Err(f) = &res {
            if !shard.is_known(&f.signature) {
                failed = true;
                last = Some((h, f.clone()));
            }
        }
        (info, res)
    }
}
