//! Counting global allocator used for the "no allocation out of proportion
//! to the input" part of C15.
//!
//! The `sv` binary installs [`Counting`] as `#[global_allocator]`.  Outside a
//! *guard* it only keeps two counters (current / peak live heap bytes).  A
//! decoder worker process brackets one decode call with [`guard_begin`] /
//! [`guard_end`]: while the guard is armed, a request that would push the
//! live heap above `baseline + limit` is *not* served.  Instead the allocator
//! writes one fixed-size response frame to the trip file descriptor (the
//! worker's reply pipe) and aborts the process.  That keeps a
//! `Vec::with_capacity(u32::MAX)`-style request deterministic (it neither
//! depends on the overcommit policy of the machine nor lets sixteen workers
//! touch gigabytes of page tables) and makes the cause visible to the parent.
use std::alloc::{GlobalAlloc, Layout, System};
use std::sync::atomic::{AtomicI32, AtomicUsize, Ordering::Relaxed};

pub struct Counting;

static CUR: AtomicUsize = AtomicUsize::new(0);
static PEAK: AtomicUsize = AtomicUsize::new(0);
static LIMIT: AtomicUsize = AtomicUsize::new(usize::MAX);
static BASE: AtomicUsize = AtomicUsize::new(0);
static TRIP_FD: AtomicI32 = AtomicI32::new(-1);
/// When >= 0: a trip writes one text line (`ALLOC-TRIP request=<n> extra=<n>`) to this
/// descriptor instead of the binary frame (used by the libFuzzer targets, which have no reply pipe).
static TRIP_TEXT_FD: AtomicI32 = AtomicI32::new(-1);

/// Status byte of the frame written when the guard trips.
pub const STATUS_ALLOC_TRIP: u8 = 4;

/// Live heap bytes right now.
pub fn current() -> usize {
    CUR.load(Relaxed)
}

/// Highest value of [`current`] since the last [`reset_peak`] / [`guard_begin`].
pub fn peak() -> usize {
    PEAK.load(Relaxed)
}

pub fn reset_peak() {
    PEAK.store(CUR.load(Relaxed), Relaxed);
}

/// File descriptor that receives the trip frame (worker reply pipe).
pub fn set_trip_fd(fd: i32) {
    TRIP_FD.store(fd, Relaxed);
}

/// File descriptor that receives a one-line text notice when the guard trips (fuzz targets: 2).
pub fn set_trip_text_fd(fd: i32) {
    TRIP_TEXT_FD.store(fd, Relaxed);
}

/// Decimal rendering without heap use.
fn put_dec(buf: &mut [u8], pos: &mut usize, mut v: u64) {
    let mut tmp = [0u8; 20];
    let mut n = 0;
    loop {
        tmp[n] = b'0' + (v % 10) as u8;
        n += 1;
        v /= 10;
        if v == 0 {
            break;
        }
    }
    while n > 0 && *pos < buf.len() {
        n -= 1;
        buf[*pos] = tmp[n];
        *pos += 1;
    }
}

fn put_str(buf: &mut [u8], pos: &mut usize, s: &[u8]) {
    for b in s {
        if *pos < buf.len() {
            buf[*pos] = *b;
            *pos += 1;
        }
    }
}

/// Arm the guard: at most `limit_extra` bytes above the current live heap.
pub fn guard_begin(limit_extra: usize) {
    let base = CUR.load(Relaxed);
    BASE.store(base, Relaxed);
    PEAK.store(base, Relaxed);
    LIMIT.store(base.saturating_add(limit_extra), Relaxed);
}

/// Disarm the guard and return the peak number of bytes above the baseline.
pub fn guard_end() -> usize {
    LIMIT.store(usize::MAX, Relaxed);
    PEAK.load(Relaxed).saturating_sub(BASE.load(Relaxed))
}

#[cold]
#[inline(never)]
fn trip(request: usize, would_be: usize) -> ! {
    // disarm so that nothing below can trip again
    LIMIT.store(usize::MAX, Relaxed);
    let fd = TRIP_FD.load(Relaxed);
    if fd >= 0 {
        // frame: [u32 len][u8 status][u64 peak_extra][u64 request]  (no heap use)
        let extra = would_be.saturating_sub(BASE.load(Relaxed)) as u64;
        let mut buf = [0u8; 4 + 1 + 8 + 8];
        buf[0..4].copy_from_slice(&(17u32).to_le_bytes());
        buf[4] = STATUS_ALLOC_TRIP;
        buf[5..13].copy_from_slice(&extra.to_le_bytes());
        buf[13..21].copy_from_slice(&(request as u64).to_le_bytes());
        use std::io::Write;
        use std::os::fd::FromRawFd;
        let f = std::mem::ManuallyDrop::new(unsafe { std::fs::File::from_raw_fd(fd) });
        let _ = (&*f).write_all(&buf);
    }
    let tfd = TRIP_TEXT_FD.load(Relaxed);
    if tfd >= 0 {
        let extra = would_be.saturating_sub(BASE.load(Relaxed)) as u64;
        let mut buf = [0u8; 96];
        let mut pos = 0;
        put_str(&mut buf, &mut pos, b"ALLOC-TRIP request=");
        put_dec(&mut buf, &mut pos, request as u64);
        put_str(&mut buf, &mut pos, b" extra=");
        put_dec(&mut buf, &mut pos, extra);
        put_str(&mut buf, &mut pos, b"\n");
        use std::io::Write;
        use std::os::fd::FromRawFd;
        let f = std::mem::ManuallyDrop::new(unsafe { std::fs::File::from_raw_fd(tfd) });
        let _ = (&*f).write_all(&buf[..pos]);
    }
    std::process::abort()
}

#[inline]
fn add(n: usize) {
    let cur = CUR.fetch_add(n, Relaxed).wrapping_add(n);
    if cur > LIMIT.load(Relaxed) {
        trip(n, cur);
    }
    PEAK.fetch_max(cur, Relaxed);
}

unsafe impl GlobalAlloc for Counting {
    unsafe fn alloc(&self, layout: Layout) -> *mut u8 {
        add(layout.size());
        System.alloc(layout)
    }
    unsafe fn alloc_zeroed(&self, layout: Layout) -> *mut u8 {
        add(layout.size());
        System.alloc_zeroed(layout)
    }
    unsafe fn dealloc(&self, ptr: *mut u8, layout: Layout) {
        CUR.fetch_sub(layout.size(), Relaxed);
        System.dealloc(ptr, layout)
    }
    unsafe fn realloc(&self, ptr: *mut u8, layout: Layout, new_size: usize) -> *mut u8 {
        let old = layout.size();
        if new_size > old {
            add(new_size - old);
        } else {
            CUR.fetch_sub(old - new_size, Relaxed);
        }
        System.realloc(ptr, layout, new_size)
    }
}
