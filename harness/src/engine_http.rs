//! Engine G: the real `sos_server::Server` in-process on 127.0.0.1:0 plus
//! hand-built HTTP requests (raw `reqwest`) with hand-signed bearer tokens.
//!
//! Nothing here uses `sos_protocol::network_client::HttpClient`: the token
//! format (`Bearer base58(ed25519 signature)` + `X-SOS-ACCOUNT-ID` header,
//! signature over the body, or over the URL path for body-less and file
//! requests) is re-implemented so that every credential form can be forged.
//!
//! Reusable parts:
//! * [`spawn_server`] / [`TestServerHandle`] (url, data dir, shutdown,
//!   direct access to the server's `ServerState` / `ServerBackend`),
//! * [`DeviceKey`] (ed25519 key, `token()`),
//! * [`RawRequest`], [`Credential`], [`send`],
//! * [`ClientAccount`] (a `LocalAccount` that produces valid request bodies),
//! * [`snapshot`] (observable server state: per account sync status, folders,
//!   trusted devices; the file tree below the data dir; websocket count).
use secrecy::SecretString;
use serde::{Deserialize, Serialize};
use sha2::{Digest, Sha256};
use sos_account::{Account, LocalAccount};
use sos_backend::BackendTarget;
use sos_core::{
    commit::{CommitHash, CommitProof},
    crypto::AccessKey,
    device::DevicePublicKey,
    events::{EventLog, EventLogType, EventRecord},
    AccountId, Paths, VaultId,
};
use sos_protocol::{
    constants::{MIME_TYPE_PROTOBUF, X_SOS_ACCOUNT_ID},
    PatchRequest, WireEncodeDecode,
};
use sos_server::{
    AccessControlConfig, Server, ServerBackend, ServerConfig, ServerState,
    State, UriOrPath,
};
use sos_server_storage::ServerAccountStorage;
use sos_signer::ed25519::{Ed25519Signer, Signature, SigningKey};
use sos_sync::{
    StorageEventLogs, SyncPacket, SyncStatus, SyncStorage, UpdateSet,
};
use std::{
    collections::{BTreeMap, HashMap},
    net::SocketAddr,
    path::{Path, PathBuf},
    sync::Arc,
    time::Duration,
};
use tokio::sync::RwLock;

pub type EResult<T> = Result<T, String>;

fn es<E: std::fmt::Display>(ctx: &'static str) -> impl Fn(E) -> String {
    move |e| format!("{ctx}: {e}")
}

/// Multi-thread runtime (2 workers) for a worker process: the server keeps
/// running on it while the harness makes requests.
pub fn block_on_mt<F: std::future::Future>(f: F) -> F::Output {
    tokio::runtime::Builder::new_multi_thread()
        .worker_threads(2)
        .enable_all()
        .build()
        .expect("runtime")
        .block_on(f)
}

/// Send this process's stdout to /dev/null (the server prints a start-up
/// banner with `println!`; workers report through a file).
pub fn silence_stdout() {
    if let Ok(f) = std::fs::OpenOptions::new().write(true).open("/dev/null") {
        use std::os::fd::AsRawFd;
        // SAFETY: plain dup2 on two valid descriptors.
        unsafe {
            libc::dup2(f.as_raw_fd(), 1);
        }
    }
}

/// Configure the process-global audit trail (required when debug assertions
/// are off, see `sos_backend::audit::append_audit_events`): one file provider
/// in a temp dir outside every server data dir, like `sos-server`'s `main`.
pub fn init_audit() {
    if sos_backend::audit::providers().is_some() {
        // already configured by framework::init_process
        return;
    }
    static DIR: std::sync::OnceLock<tempfile::TempDir> = std::sync::OnceLock::new();
    let dir = DIR.get_or_init(|| {
        tempfile::Builder::new()
            .prefix("sv-http-audit-")
            .tempdir()
            .expect("tempdir")
    });
    if sos_backend::audit::providers().is_none() {
        let provider =
            sos_backend::audit::new_fs_provider(dir.path().join("audit.dat"));
        sos_backend::audit::init_providers(vec![provider]);
    }
}

/// Run `f` with stdout pointing to /dev/null and restore it afterwards
/// (replay mode prints its verdict on stdout after the case ran).
pub fn with_silenced_stdout<T>(f: impl FnOnce() -> T) -> T {
    use std::io::Write;
    use std::os::fd::AsRawFd;
    let _ = std::io::stdout().flush();
    let devnull = std::fs::OpenOptions::new().write(true).open("/dev/null");
    // SAFETY: dup/dup2/close on descriptors owned by this process.
    let saved = unsafe { libc::dup(1) };
    if let (Ok(f), true) = (&devnull, saved >= 0) {
        unsafe {
            libc::dup2(f.as_raw_fd(), 1);
        }
    }
    let r = f();
    let _ = std::io::stdout().flush();
    if saved >= 0 {
        unsafe {
            libc::dup2(saved, 1);
            libc::close(saved);
        }
    }
    r
}

// ---------------------------------------------------------------------------
// Server
// ---------------------------------------------------------------------------

/// Access lists as plain data (serialisable in cases).
#[derive(Clone, Debug, Default, PartialEq, Eq, Serialize, Deserialize)]
pub struct AccessLists {
    pub allow: Option<Vec<String>>,
    pub deny: Option<Vec<String>>,
}

impl AccessLists {
    pub fn to_config(&self) -> EResult<AccessControlConfig> {
        let conv = |v: &Option<Vec<String>>| -> EResult<Option<std::collections::HashSet<AccountId>>> {
            match v {
                None => Ok(None),
                Some(l) => {
                    let mut s = std::collections::HashSet::new();
                    for a in l {
                        s.insert(a.parse::<AccountId>().map_err(es("account id"))?);
                    }
                    Ok(Some(s))
                }
            }
        };
        Ok(AccessControlConfig {
            allow: conv(&self.allow)?,
            deny: conv(&self.deny)?,
        })
    }

    fn to_toml(&self) -> String {
        let list = |l: &Vec<String>| {
            l.iter()
                .map(|a| format!("\"{a}\""))
                .collect::<Vec<_>>()
                .join(", ")
        };
        let mut s = String::from("\n[access]\n");
        if let Some(a) = &self.allow {
            s.push_str(&format!("allow = [{}]\n", list(a)));
        }
        if let Some(d) = &self.deny {
            s.push_str(&format!("deny = [{}]\n", list(d)));
        }
        s
    }
}

#[derive(Clone, Debug, Default)]
pub struct ServerOptions {
    /// Existing data directory (restart); a fresh temp dir when `None`.
    pub data_dir: Option<PathBuf>,
    /// Access lists, written to the generated `config.toml` (the server
    /// reads them through `ServerConfig::load`, as in production).
    pub access: Option<AccessLists>,
    /// Use the sqlite backend (`<data_dir>/accounts.db`).
    pub sqlite: bool,
}

/// A running in-process server.
pub struct TestServerHandle {
    pub url: url::Url,
    pub addr: SocketAddr,
    pub data_dir: PathBuf,
    pub sqlite: bool,
    /// The server's own state (config incl. access lists, websocket map).
    pub state: ServerState,
    /// The server's own backend (accounts in memory).
    pub backend: ServerBackend,
    handle: axum_server::Handle,
    join: Option<tokio::task::JoinHandle<Result<(), String>>>,
    tmp: Option<tempfile::TempDir>,
}

impl TestServerHandle {
    /// Stop serving. Returns the temp dir guard (if this handle created the
    /// directory) so that a restart can keep using the data.
    pub async fn shutdown(mut self) -> Option<tempfile::TempDir> {
        self.handle.graceful_shutdown(Some(Duration::from_millis(200)));
        if let Some(j) = self.join.take() {
            let _ = tokio::time::timeout(Duration::from_secs(5), j).await;
        }
        self.tmp.take()
    }

    /// Replace the access lists of the *running* server (what
    /// `authenticate_endpoint` reads on every request).
    pub async fn set_access(&self, access: Option<&AccessLists>) -> EResult<()> {
        let cfg = match access {
            None => None,
            Some(a) => Some(a.to_config()?),
        };
        let mut w = self.state.write().await;
        w.config.access = cfg;
        Ok(())
    }

    pub fn join_url(&self, path_and_query: &str) -> String {
        format!(
            "http://{}:{}{}",
            self.addr.ip(),
            self.addr.port(),
            path_and_query
        )
    }
}

impl Drop for TestServerHandle {
    fn drop(&mut self) {
        self.handle.shutdown();
    }
}

/// Start the real server on 127.0.0.1:0 with a generated `config.toml`.
pub async fn spawn_server(opts: ServerOptions) -> EResult<TestServerHandle> {
    init_audit();
    let (data_dir, tmp) = match &opts.data_dir {
        Some(d) => (d.clone(), None),
        None => {
            let t = tempfile::Builder::new()
                .prefix("sv-http-")
                .tempdir()
                .map_err(es("tempdir"))?;
            let d = t.path().join("server");
            std::fs::create_dir_all(&d).map_err(es("mkdir"))?;
            (d, Some(t))
        }
    };
    let data_dir = data_dir.canonicalize().map_err(es("canonicalize"))?;
    let cfg_dir = data_dir.parent().unwrap_or(&data_dir).to_path_buf();
    let cfg_path = cfg_dir.join(format!(
        "config-{}.toml",
        data_dir.file_name().and_then(|s| s.to_str()).unwrap_or("s")
    ));
    let mut toml = format!("[storage]\npath = \"{}\"\n", data_dir.display());
    if let Some(a) = &opts.access {
        toml.push_str(&a.to_toml());
    }
    std::fs::write(&cfg_path, toml).map_err(es("write config"))?;

    let mut config = ServerConfig::load(&cfg_path)
        .await
        .map_err(es("ServerConfig::load"))?;
    if opts.sqlite {
        config.storage.database_uri =
            Some(UriOrPath::Path(data_dir.join("accounts.db")));
    }
    config.set_bind_address("127.0.0.1:0".parse().unwrap());
    let backend = config.backend().await.map_err(es("config.backend"))?;
    let state: ServerState = Arc::new(RwLock::new(State::new(config)));
    let backend: ServerBackend = Arc::new(RwLock::new(backend));
    let handle = axum_server::Handle::new();

    let (s2, b2, h2) = (state.clone(), backend.clone(), handle.clone());
    let join = tokio::spawn(async move {
        let server = Server::new().await.map_err(|e| e.to_string())?;
        server.start(s2, b2, h2).await.map_err(|e| e.to_string())
    });
    let addr = match tokio::time::timeout(
        Duration::from_secs(20),
        handle.listening(),
    )
    .await
    {
        Ok(Some(a)) => a,
        Ok(None) => {
            let why = match join.await {
                Ok(Err(e)) => e,
                _ => "server task ended".into(),
            };
            return Err(format!("server did not start: {why}"));
        }
        Err(_) => return Err("server did not start listening in 20 s".into()),
    };
    let url = url::Url::parse(&format!("http://{}:{}", addr.ip(), addr.port()))
        .map_err(es("url"))?;
    Ok(TestServerHandle {
        url,
        addr,
        data_dir,
        sqlite: opts.sqlite,
        state,
        backend,
        handle,
        join: Some(join),
        tmp,
    })
}

// ---------------------------------------------------------------------------
// Signing
// ---------------------------------------------------------------------------

/// An ed25519 device key built from 32 seed bytes.
#[derive(Clone)]
pub struct DeviceKey(pub SigningKey);

impl DeviceKey {
    pub fn from_seed(seed: [u8; 32]) -> Self {
        Self(SigningKey::from_bytes(&seed))
    }
    pub fn public_key(&self) -> DevicePublicKey {
        DevicePublicKey::from(self.0.verifying_key().as_bytes())
    }
    pub fn sign(&self, bytes: &[u8]) -> Signature {
        self.0.sign(bytes)
    }
    /// Bearer token (without the `Bearer ` prefix) for a signature over
    /// `bytes`: base58 of the 64 raw signature bytes.
    pub fn token(&self, bytes: &[u8]) -> String {
        token_of(&self.sign(bytes))
    }
}

pub fn token_of(sig: &Signature) -> String {
    bs58::encode(sig.to_bytes()).into_string()
}

pub fn bearer(token: &str) -> String {
    format!("Bearer {token}")
}

/// What a request's headers claim.
#[derive(Clone, Debug, Default, Serialize, Deserialize)]
pub struct Credential {
    /// Complete `Authorization` header value (None = header absent).
    pub authorization: Option<String>,
    /// `X-SOS-ACCOUNT-ID` header value (None = header absent).
    pub account_header: Option<String>,
}

impl Credential {
    pub fn signed(key: &DeviceKey, account: &AccountId, bytes: &[u8]) -> Self {
        Self {
            authorization: Some(bearer(&key.token(bytes))),
            account_header: Some(account.to_string()),
        }
    }
}

/// A request described as plain data.
#[derive(Clone, Debug)]
pub struct RawRequest {
    pub method: http::Method,
    /// URL path, e.g. `/api/v1/sync/account`.
    pub path: String,
    pub query: Vec<(String, String)>,
    pub body: Option<Vec<u8>>,
    pub content_type: Option<&'static str>,
    /// Extra headers (websocket upgrade).
    pub headers: Vec<(&'static str, String)>,
    /// The bytes the server verifies the signature over for this route.
    pub sign_over_path: bool,
}

impl RawRequest {
    pub fn new(method: http::Method, path: &str) -> Self {
        Self {
            method,
            path: path.to_string(),
            query: vec![("connection_id".into(), "sv-harness".into())],
            body: None,
            content_type: None,
            headers: vec![],
            sign_over_path: true,
        }
    }
    /// Body request whose signature covers the body.
    pub fn with_signed_body(mut self, body: Vec<u8>) -> Self {
        self.body = Some(body);
        self.content_type = Some(MIME_TYPE_PROTOBUF);
        self.sign_over_path = false;
        self
    }
    /// Body request whose signature covers the path (file routes).
    pub fn with_unsigned_body(mut self, body: Vec<u8>, ct: &'static str) -> Self {
        self.body = Some(body);
        self.content_type = Some(ct);
        self.sign_over_path = true;
        self
    }
    pub fn query(mut self, k: &str, v: &str) -> Self {
        self.query.push((k.into(), v.into()));
        self
    }
    /// The bytes the real client signs for this request.
    pub fn signed_bytes(&self) -> Vec<u8> {
        if self.sign_over_path {
            self.path.as_bytes().to_vec()
        } else {
            self.body.clone().unwrap_or_default()
        }
    }
    pub fn path_and_query(&self) -> String {
        if self.query.is_empty() {
            self.path.clone()
        } else {
            let mut ser = url::form_urlencoded::Serializer::new(String::new());
            for (k, v) in &self.query {
                ser.append_pair(k, v);
            }
            format!("{}?{}", self.path, ser.finish())
        }
    }
}

#[derive(Debug)]
pub struct RawResponse {
    pub status: u16,
    pub content_type: Option<String>,
    pub body: Vec<u8>,
    /// For a `101 Switching Protocols` answer: the open connection. The
    /// websocket stays registered on the server until this is dropped.
    pub upgraded: Option<reqwest::Response>,
}

impl RawResponse {
    pub fn is_2xx(&self) -> bool {
        (200..300).contains(&self.status)
    }
    /// Accepted = the server acted for the request: 2xx, or 101 for the
    /// websocket upgrade.
    pub fn accepted(&self) -> bool {
        self.is_2xx() || self.status == 101
    }
}

pub fn http_client() -> reqwest::Client {
    reqwest::Client::builder()
        .no_proxy()
        .pool_max_idle_per_host(4)
        .connect_timeout(Duration::from_secs(5))
        .timeout(Duration::from_secs(30))
        .build()
        .expect("reqwest client")
}

/// Send a request with exactly the given credential headers.
pub async fn send(
    client: &reqwest::Client,
    server: &TestServerHandle,
    req: &RawRequest,
    cred: &Credential,
) -> EResult<RawResponse> {
    let url = server.join_url(&req.path_and_query());
    let mut rb = client.request(req.method.clone(), url);
    if let Some(ct) = req.content_type {
        rb = rb.header(reqwest::header::CONTENT_TYPE, ct);
    }
    for (k, v) in &req.headers {
        rb = rb.header(*k, v);
    }
    if let Some(a) = &cred.account_header {
        rb = rb.header(X_SOS_ACCOUNT_ID, a);
    }
    if let Some(a) = &cred.authorization {
        let v = reqwest::header::HeaderValue::from_bytes(a.as_bytes())
            .map_err(es("authorization header value"))?;
        rb = rb.header(reqwest::header::AUTHORIZATION, v);
    }
    if let Some(b) = &req.body {
        rb = rb.body(b.clone());
    }
    let resp = rb.send().await.map_err(es("http send"))?;
    let status = resp.status().as_u16();
    let content_type = resp
        .headers()
        .get(reqwest::header::CONTENT_TYPE)
        .and_then(|v| v.to_str().ok())
        .map(|s| s.to_string());
    if status == 101 {
        return Ok(RawResponse {
            status,
            content_type,
            body: vec![],
            upgraded: Some(resp),
        });
    }
    let body = if req.method == http::Method::HEAD {
        vec![]
    } else {
        resp.bytes().await.map_err(es("http body"))?.to_vec()
    };
    Ok(RawResponse {
        status,
        content_type,
        body,
        upgraded: None,
    })
}

/// Send correctly signed (what the real client does).
pub async fn send_signed(
    client: &reqwest::Client,
    server: &TestServerHandle,
    req: &RawRequest,
    key: &DeviceKey,
    account: &AccountId,
) -> EResult<RawResponse> {
    let cred = Credential::signed(key, account, &req.signed_bytes());
    send(client, server, req, &cred).await
}

pub mod routes {
    pub const ACCOUNT: &str = "/api/v1/sync/account";
    pub const STATUS: &str = "/api/v1/sync/account/status";
    pub const EVENTS: &str = "/api/v1/sync/account/events";
    pub const FILES: &str = "/api/v1/sync/files";
    pub const FILE: &str = "/api/v1/sync/file";
    pub const CHANGES: &str = "/api/v1/sync/changes";
    pub const CONNECTIONS: &str = "/api/v1/sync/connections";
}

// ---------------------------------------------------------------------------
// Client account (produces valid bodies)
// ---------------------------------------------------------------------------

/// A real `LocalAccount` in its own temp dir, plus its device key in a form
/// the harness can sign with.
pub struct ClientAccount {
    pub account: LocalAccount,
    pub account_id: AccountId,
    pub device: DeviceKey,
    pub password: SecretString,
    pub default_folder: VaultId,
    _dir: tempfile::TempDir,
}

pub type NetErr = sos_net::Error;

impl ClientAccount {
    pub async fn create(name: &str, password: &str) -> EResult<Self> {
        init_audit();
        let dir = tempfile::Builder::new()
            .prefix("sv-http-client-")
            .tempdir()
            .map_err(es("tempdir"))?;
        let data_dir = dir.path().to_path_buf();
        let paths = Paths::new_client(&data_dir);
        Paths::scaffold(paths.documents_dir())
            .await
            .map_err(es("scaffold"))?;
        let target = BackendTarget::FileSystem(paths);
        let password: SecretString = password.to_string().into();
        let mut account = LocalAccount::new_account(
            name.to_string(),
            password.clone(),
            target,
        )
        .await
        .map_err(es("new_account"))?;
        let key: AccessKey = password.clone().into();
        account.sign_in(&key).await.map_err(es("sign_in"))?;
        let account_id = *account.account_id();
        let signer = account.device_signer().await.map_err(es("device_signer"))?;
        let device = DeviceKey::from_seed(signer.to_bytes());
        let default_folder = *account
            .default_folder()
            .await
            .ok_or_else(|| "no default folder".to_string())?
            .id();
        Ok(Self {
            account,
            account_id,
            device,
            password,
            default_folder,
            _dir: dir,
        })
    }

    pub async fn add_note(
        &mut self,
        folder: &VaultId,
        label: &str,
        text: &str,
    ) -> EResult<()> {
        use sos_vault::secret::{Secret, SecretMeta};
        let secret = Secret::Note {
            text: text.to_string().into(),
            user_data: Default::default(),
        };
        let meta = SecretMeta::new(label.to_string(), secret.kind());
        let mut options = sos_client_storage::AccessOptions::default();
        options.folder = Some(*folder);
        self.account
            .create_secret(meta, secret, options)
            .await
            .map_err(es("create_secret"))?;
        Ok(())
    }

    pub async fn add_folder(&mut self, name: &str) -> EResult<VaultId> {
        let r = self
            .account
            .create_folder(sos_client_storage::NewFolderOptions::new(
                name.to_string(),
            ))
            .await
            .map_err(es("create_folder"))?;
        Ok(*r.folder.id())
    }

    pub async fn status(&self) -> EResult<SyncStatus> {
        self.account.sync_status().await.map_err(es("sync_status"))
    }

    /// Body of `PUT /sync/account`.
    pub async fn create_set_body(&self) -> EResult<Vec<u8>> {
        let set = self.account.create_set().await.map_err(es("create_set"))?;
        set.encode().await.map_err(es("encode CreateSet"))
    }

    /// Body of `PATCH /sync/account`: what `RemoteSyncHandler::sync_account`
    /// sends given the server's status. `needs_sync` tells whether the
    /// packet carries/asks for changes.
    pub async fn sync_packet_body(
        &self,
        remote: SyncStatus,
    ) -> EResult<(bool, Vec<u8>)> {
        let (needs_sync, status, diff) =
            sos_protocol::diff::<_, NetErr>(&self.account, remote)
                .await
                .map_err(es("protocol::diff"))?;
        let packet = SyncPacket {
            status,
            diff,
            compare: None,
        };
        Ok((
            needs_sync,
            packet.encode().await.map_err(es("encode SyncPacket"))?,
        ))
    }

    async fn records_after(
        &self,
        log_type: &EventLogType,
        commit: Option<&CommitHash>,
    ) -> EResult<Vec<EventRecord>> {
        macro_rules! recs {
            ($log:expr) => {{
                let log = $log.map_err(es("event log"))?;
                let log = log.read().await;
                log.diff_records(commit).await.map_err(es("diff_records"))?
            }};
        }
        Ok(match log_type {
            EventLogType::Identity => recs!(self.account.identity_log().await),
            EventLogType::Account => recs!(self.account.account_log().await),
            EventLogType::Device => recs!(self.account.device_log().await),
            EventLogType::Files => recs!(self.account.file_log().await),
            EventLogType::Folder(id) => recs!(self.account.folder_log(id).await),
        })
    }

    /// Body of `PATCH /sync/account/events`: the local records after the
    /// server's head of that log, with the server's head proof.
    /// Returns the number of records in the patch.
    pub async fn patch_request_body(
        &self,
        log_type: EventLogType,
        remote_commit: CommitHash,
        remote_proof: CommitProof,
    ) -> EResult<(usize, Vec<u8>)> {
        let patch = self.records_after(&log_type, Some(&remote_commit)).await?;
        let n = patch.len();
        let req = PatchRequest {
            log_type,
            commit: None,
            proof: remote_proof,
            patch,
        };
        Ok((n, req.encode().await.map_err(es("encode PatchRequest"))?))
    }

    /// Body of `POST /sync/account`: an `UpdateSet` that replaces the given
    /// folder logs (and optionally the device log) with the local ones.
    pub async fn update_set_body(
        &self,
        folders: &[VaultId],
        device: bool,
    ) -> EResult<Vec<u8>> {
        let mut map = HashMap::new();
        for id in folders {
            let log = self.account.folder_log(id).await.map_err(es("folder_log"))?;
            let log = log.read().await;
            map.insert(*id, log.diff_unchecked().await.map_err(es("diff_unchecked"))?);
        }
        let device = if device {
            let log = self.account.device_log().await.map_err(es("device_log"))?;
            let log = log.read().await;
            Some(log.diff_unchecked().await.map_err(es("diff_unchecked"))?)
        } else {
            None
        };
        let set = UpdateSet {
            device,
            folders: map,
            ..Default::default()
        };
        set.encode().await.map_err(es("encode UpdateSet"))
    }
}

// ---------------------------------------------------------------------------
// Observable server state
// ---------------------------------------------------------------------------

#[derive(Clone, Debug, PartialEq, Eq, Serialize)]
pub struct AccountView {
    pub sync_status: String,
    pub folders: Vec<String>,
    pub devices: Vec<String>,
}

#[derive(Clone, Debug, PartialEq, Eq, Serialize)]
pub struct Snapshot {
    /// account id -> view, read from the server's own in-memory backend.
    pub accounts: BTreeMap<String, AccountView>,
    /// (relative path, length, sha256) of every file below the data dir
    /// (event logs, vaults, blobs). For the sqlite backend database files
    /// are listed by name only.
    pub tree: Vec<(String, u64, String)>,
    /// Registered websocket connections.
    pub sockets: usize,
}

impl Snapshot {
    /// Short description of the first difference.
    pub fn diff(&self, other: &Snapshot) -> String {
        if self.accounts != other.accounts {
            for (k, v) in &self.accounts {
                match other.accounts.get(k) {
                    None => return format!("account {k} disappeared"),
                    Some(o) if o != v => {
                        if o.devices != v.devices {
                            return format!("devices of {k}: {:?} -> {:?}", v.devices, o.devices);
                        }
                        if o.folders != v.folders {
                            return format!("folders of {k}: {:?} -> {:?}", v.folders, o.folders);
                        }
                        return format!("sync status of {k} changed");
                    }
                    _ => {}
                }
            }
            for k in other.accounts.keys() {
                if !self.accounts.contains_key(k) {
                    return format!("account {k} appeared");
                }
            }
        }
        if self.tree != other.tree {
            let a: BTreeMap<_, _> = self.tree.iter().map(|t| (&t.0, (&t.1, &t.2))).collect();
            let b: BTreeMap<_, _> = other.tree.iter().map(|t| (&t.0, (&t.1, &t.2))).collect();
            for (k, v) in &a {
                match b.get(k) {
                    None => return format!("file removed: {k}"),
                    Some(o) if o != v => return format!("file changed: {k} ({} -> {} bytes)", v.0, o.0),
                    _ => {}
                }
            }
            for k in b.keys() {
                if !a.contains_key(k) {
                    return format!("file added: {k}");
                }
            }
        }
        if self.sockets != other.sockets {
            return format!("websocket connections {} -> {}", self.sockets, other.sockets);
        }
        "no difference".into()
    }
}

fn tree_of(root: &Path, sqlite: bool) -> Vec<(String, u64, String)> {
    let mut out = vec![];
    for e in walkdir::WalkDir::new(root).sort_by_file_name() {
        let Ok(e) = e else { continue };
        if !e.file_type().is_file() {
            continue;
        }
        let rel = e
            .path()
            .strip_prefix(root)
            .unwrap_or(e.path())
            .to_string_lossy()
            .to_string();
        let is_db = sqlite && rel.contains("accounts.db");
        if is_db {
            out.push((rel, 0, String::new()));
            continue;
        }
        let bytes = std::fs::read(e.path()).unwrap_or_default();
        let h = hex::encode(Sha256::digest(&bytes));
        out.push((rel, bytes.len() as u64, h));
    }
    out
}

/// `SyncStatus` as a string that does not depend on the in-memory order of
/// the folder map (which follows directory iteration order after a restart).
pub fn canonical_status(status: &SyncStatus) -> EResult<String> {
    let j = |v: &dyn erased::Ser| v.json();
    let mut folders: Vec<(String, String)> = vec![];
    for (id, state) in &status.folders {
        folders.push((id.to_string(), j(state)?));
    }
    folders.sort();
    Ok(format!(
        "root={} identity={} account={} device={} files={} folders={:?}",
        status.root,
        j(&status.identity)?,
        j(&status.account)?,
        j(&status.device)?,
        match &status.files {
            Some(f) => j(f)?,
            None => "none".into(),
        },
        folders
    ))
}

mod erased {
    /// tiny helper: serialise to a JSON string
    pub trait Ser {
        fn json(&self) -> Result<String, String>;
    }
    impl<T: serde::Serialize> Ser for T {
        fn json(&self) -> Result<String, String> {
            serde_json::to_string(self).map_err(|e| format!("json: {e}"))
        }
    }
}

/// Wait until sqlite side files (`-wal`, `-shm`, `-journal`) below `dir` are
/// gone, i.e. the connections of a server that was shut down are closed
/// (they are closed by a background thread). Gives up after 3 s.
pub async fn wait_quiescent(dir: &Path) {
    for _ in 0..300 {
        let busy = walkdir::WalkDir::new(dir).into_iter().flatten().any(|e| {
            let n = e.file_name().to_string_lossy().to_string();
            n.ends_with("-wal") || n.ends_with("-shm") || n.ends_with("-journal")
        });
        if !busy {
            return;
        }
        tokio::time::sleep(Duration::from_millis(10)).await;
    }
}

/// Recursive copy of a (server data) directory.
pub fn copy_dir_all(src: &Path, dst: &Path) -> EResult<()> {
    std::fs::create_dir_all(dst).map_err(es("mkdir"))?;
    for e in walkdir::WalkDir::new(src) {
        let e = e.map_err(es("walk"))?;
        let rel = e.path().strip_prefix(src).map_err(es("strip"))?;
        let to = dst.join(rel);
        if e.file_type().is_dir() {
            std::fs::create_dir_all(&to).map_err(es("mkdir"))?;
        } else if e.file_type().is_file() {
            std::fs::copy(e.path(), &to).map_err(es("copy"))?;
        }
    }
    Ok(())
}

/// Observe the server without going through HTTP.
pub async fn snapshot(
    client: &reqwest::Client,
    server: &TestServerHandle,
) -> EResult<Snapshot> {
    let mut accounts = BTreeMap::new();
    {
        let backend = server.backend.read().await;
        let accts = backend.accounts();
        let accts = accts.read().await;
        for (id, acct) in accts.iter() {
            let a = acct.read().await;
            let status = a.sync_status().await.map_err(es("server sync_status"))?;
            let mut folders: Vec<String> = a
                .folder_details()
                .await
                .map_err(es("folder_details"))?
                .iter()
                .map(|s| format!("{}:{}:{}", s.id(), s.name(), s.flags().bits()))
                .collect();
            folders.sort();
            let mut devices: Vec<String> = a
                .list_device_keys()
                .into_iter()
                .map(|k| hex::encode(k.as_ref()))
                .collect();
            devices.sort();
            accounts.insert(
                id.to_string(),
                AccountView {
                    sync_status: canonical_status(&status)?,
                    folders,
                    devices,
                },
            );
        }
    }
    let sockets = num_connections(client, server).await?;
    let tree = tree_of(&server.data_dir, server.sqlite);
    Ok(Snapshot {
        accounts,
        tree,
        sockets,
    })
}

/// Number of registered websocket connections (public route).
pub async fn num_connections(
    client: &reqwest::Client,
    server: &TestServerHandle,
) -> EResult<usize> {
    let r = client
        .get(server.join_url(routes::CONNECTIONS))
        .send()
        .await
        .map_err(es("connections"))?;
    let v: usize = serde_json::from_slice(
        &r.bytes().await.map_err(es("connections body"))?,
    )
    .map_err(es("connections json"))?;
    Ok(v)
}

/// Wait until no websocket connection is registered any more (after an
/// upgraded connection was dropped).
pub async fn wait_no_connections(
    client: &reqwest::Client,
    server: &TestServerHandle,
) -> EResult<()> {
    for _ in 0..400 {
        if num_connections(client, server).await? == 0 {
            return Ok(());
        }
        tokio::time::sleep(Duration::from_millis(5)).await;
    }
    Err("websocket connection still registered after 2 s".into())
}

/// Decode a `SyncStatus` response body.
pub async fn decode_status(body: Vec<u8>) -> EResult<SyncStatus> {
    SyncStatus::decode(bytes::Bytes::from(body))
        .await
        .map_err(es("decode SyncStatus"))
}
