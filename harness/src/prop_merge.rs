//! Merge-side sub-checks that run on engine B: C02 `sync` (replay == memory
//! == mirror on every device after every sync) and C20 `sync` (incremental
//! search index == rebuilt index after every sync).
use crate::engine_acct::{decrypt_vault, hf};
use crate::engine_sync::*;
use crate::framework::*;
use crate::prop_c04::{case_strategy, ConvCase, SKEWS};
use proptest::prelude::*;
use serde_json::Value;
use sos_account::{Account, LocalAccount};
use sos_backend::BackendTarget;
use sos_core::{SecretId, VaultId};
use sos_login::DelegatedAccess;
use sos_reducers::FolderReducer;
use sos_search::SearchIndex;
use sos_vault::{SecretAccess, Vault};
use std::collections::{BTreeMap, BTreeSet};

#[derive(Clone, Copy, PartialEq, Eq, Debug)]
pub enum Mode {
    Replay,
    Search,
    /// C16 soundness: the integrity report of an untampered device is clean after every merge
    Integrity,
}

/// The integrity report over every folder the device serves has no failure.
pub async fn integrity_clean(w: &SyncWorld, d: usize, after: &str) -> CheckResult {
    let (folders, account_id) = {
        let a = w.devices[d].account.lock().await;
        (a.list_folders().await.map_err(hf("harness/list-folders", "list_folders"))?, w.account_id)
    };
    let be = if w.cfg.db { "sqlite" } else { "fs" };
    let target = crate::engine_acct::make_target(w.devices[d].temp.path(), w.cfg.db).await?.with_account_id(&account_id);
    let rep = crate::prop_c16::drain_account(&target, &account_id, folders.clone(), 2).await?;
    if rep.timed_out {
        return Err(Failure::new(format!("c16/sync/{be}/report-never-completes"), format!("after {after}: the integrity report went silent")));
    }
    if let Some((fid, reason)) = rep.failures.first() {
        let name = folders.iter().find(|f| f.id() == fid).map(|f| f.name().to_string()).unwrap_or_default();
        let kind = reason.split(|c: char| !c.is_alphanumeric()).next().unwrap_or("failure").to_string();
        return Err(Failure::new(
            format!("c16/sync/{be}/untampered-device-flagged/{kind}"),
            format!("after {after}: account_integrity on an untampered device reported {} failure(s); first: folder '{name}' ({fid}) {}", rep.failures.len(), reason.chars().take(240).collect::<String>()),
        ));
    }
    Ok(())
}

/// R == M == P for every folder the device serves (decrypted).
pub async fn replay_views_equal(account: &LocalAccount, after: &str) -> CheckResult {
    let folders = account.list_folders().await.map_err(hf("harness/list-folders", "list_folders"))?;
    let target = account.backend_target().await;
    let be = match &target {
        BackendTarget::FileSystem(_) => "fs",
        BackendTarget::Database(_, _) => "sqlite",
    };
    for f in folders {
        let fid = *f.id();
        let key = account
            .find_folder_password(&fid)
            .await
            .map_err(hf("harness/folder-password", "find_folder_password"))?
            .ok_or_else(|| Failure::new("c02/sync/folder-password-missing", format!("after {after}: no delegated password for folder '{}'", f.name())))?;
        let folder = account.folder(&fid).await.map_err(hf("harness/folder", "Account::folder"))?;
        let r: Vault = {
            let log = folder.event_log();
            let log = log.read().await;
            FolderReducer::new()
                .reduce(&*log)
                .await
                .map_err(hf("c02/sync/reduce-error", "FolderReducer::reduce"))?
                .build(true)
                .await
                .map_err(hf("c02/sync/reduce-build-error", "build"))?
        };
        let m: Vault = {
            let ap = folder.access_point();
            let ap = ap.lock().await;
            ap.vault().clone()
        };
        let p: Vault = match &target {
            BackendTarget::FileSystem(paths) => {
                let path = paths.with_account_id(account.account_id()).vault_path(&fid);
                let buf = std::fs::read(&path).map_err(hf("c02/sync/mirror-read-error", "read vault file"))?;
                sos_core::decode::<Vault>(&buf).await.map_err(hf("c02/sync/mirror-decode-error", "decode vault file"))?
            }
            BackendTarget::Database(_, client) => sos_database::entity::FolderEntity::compute_folder_vault(client, &fid)
                .await
                .map_err(hf("c02/sync/mirror-read-error", "compute_folder_vault"))?,
        };
        let dr = decrypt_vault(&r, &key).await.map_err(|e| Failure::new(format!("c02/sync/{be}/replay-undecryptable"), format!("after {after}: replay of '{}': {e}", f.name())))?;
        let dm = decrypt_vault(&m, &key).await.map_err(|e| Failure::new(format!("c02/sync/{be}/memory-undecryptable"), format!("after {after}: memory of '{}': {e}", f.name())))?;
        let dp = decrypt_vault(&p, &key).await.map_err(|e| Failure::new(format!("c02/sync/{be}/mirror-undecryptable"), format!("after {after}: mirror of '{}': {e}", f.name())))?;
        if dr != dm {
            return Err(Failure::new(
                format!("c02/sync/{be}/replay-vs-memory/{}", diff_class(&dr, &dm)),
                format!("after {after}: [{be}] replay of the event log of '{}' differs from the folder the account serves: {}", f.name(), first_diff(&dr, &dm)),
            ));
        }
        if dr != dp {
            return Err(Failure::new(
                format!("c02/sync/{be}/replay-vs-mirror/{}", diff_class(&dr, &dp)),
                format!("after {after}: [{be}] replay of the event log of '{}' differs from the persisted vault: {}", f.name(), first_diff(&dr, &dp)),
            ));
        }
    }
    Ok(())
}

fn first_diff(a: &Value, b: &Value) -> String {
    for k in ["name", "flags", "description"] {
        if a[k] != b[k] {
            return format!("{k}: {} vs {}", a[k], b[k]);
        }
    }
    let sa = a["secrets"].as_object().cloned().unwrap_or_default();
    let sb = b["secrets"].as_object().cloned().unwrap_or_default();
    let ka: BTreeSet<&String> = sa.keys().collect();
    let kb: BTreeSet<&String> = sb.keys().collect();
    if ka != kb {
        return format!("secret ids: only in replay {:?}, only in other {:?}", ka.difference(&kb).count(), kb.difference(&ka).count());
    }
    for k in ka {
        if sa[k] != sb[k] {
            return format!("secret {}: label {} value {} vs label {} value {}", &k[..8], sa[k][0]["label"], sa[k][1]["note"]["text"], sb[k][0]["label"], sb[k][1]["note"]["text"]);
        }
    }
    "equal".into()
}

fn diff_class(a: &Value, b: &Value) -> &'static str {
    for k in ["name", "flags", "description"] {
        if a[k] != b[k] {
            return k;
        }
    }
    let sa = a["secrets"].as_object().cloned().unwrap_or_default();
    let sb = b["secrets"].as_object().cloned().unwrap_or_default();
    if sa.keys().collect::<Vec<_>>() != sb.keys().collect::<Vec<_>>() {
        return "secret-ids";
    }
    "secret-content"
}

type DocMap = BTreeMap<(VaultId, SecretId), (String, Vec<String>, String, bool)>;

fn doc_map(ix: &SearchIndex) -> DocMap {
    let mut m = DocMap::new();
    for d in ix.values() {
        let mut tags: Vec<String> = d.meta().tags().iter().cloned().collect();
        tags.sort();
        m.insert((*d.folder_id(), *d.id()), (d.meta().label().to_string(), tags, format!("{:?}", d.meta().kind()), d.meta().favorite()));
    }
    m
}

/// Incremental index == rebuilt index (documents, counters, queries).
pub async fn index_matches_rebuilt(account: &LocalAccount, after: &str) -> CheckResult {
    let shared = account.search_index().await.map_err(hf("c20/sync/search-index-unavailable", "search_index"))?;
    let inc = shared.read().await;
    let mut fresh = SearchIndex::new();
    let folders = account.list_folders().await.map_err(hf("harness/list-folders", "list_folders"))?;
    let archive = folders.iter().find(|f| f.flags().is_archive()).map(|f| *f.id());
    fresh.set_archive_id(archive);
    for f in &folders {
        let folder = account.folder(f.id()).await.map_err(hf("harness/folder", "Account::folder"))?;
        let ap = folder.access_point();
        let ap = ap.lock().await;
        fresh.add_folder(&*ap).await.map_err(|e| Failure::new("c20/sync/rebuild-error", format!("after {after}: folder '{}' cannot be read with the key its access point holds: add_folder: {e}", f.name())))?;
    }
    let a = doc_map(&inc);
    let b = doc_map(&fresh);
    if inc.values().len() != a.len() {
        return Err(Failure::new("c20/sync/duplicate-document", format!("after {after}: the index holds {} documents for {} distinct secrets", inc.values().len(), a.len())));
    }
    if a != b {
        let only_inc = a.keys().filter(|k| !b.contains_key(*k)).count();
        let only_fresh = b.keys().filter(|k| !a.contains_key(*k)).count();
        let sig = if only_inc > 0 {
            "c20/sync/stale-document-in-index"
        } else if only_fresh > 0 {
            "c20/sync/live-secret-missing-from-index"
        } else {
            "c20/sync/document-fields-stale"
        };
        let changed: Vec<_> = a.iter().filter(|(k, v)| b.get(*k).map(|x| x != *v).unwrap_or(false)).map(|(_, v)| format!("{:?}", v)).take(2).collect();
        return Err(Failure::new(
            sig,
            format!("after {after}: incremental index differs from a rebuilt index: {} only in incremental, {} only in rebuilt, changed {:?}", only_inc, only_fresh, changed),
        ));
    }
    let cnt = |ix: &SearchIndex| {
        let c = ix.statistics().count();
        (
            c.vaults().iter().filter(|(_, n)| **n > 0).map(|(k, n)| (*k, *n)).collect::<BTreeMap<_, _>>(),
            c.kinds().iter().filter(|(_, n)| **n > 0).map(|(k, n)| (*k, *n)).collect::<BTreeMap<_, _>>(),
            c.tags().iter().filter(|(_, n)| **n > 0).map(|(k, n)| (k.clone(), *n)).collect::<BTreeMap<_, _>>(),
            c.favorites(),
        )
    };
    let (ca, cb) = (cnt(&inc), cnt(&fresh));
    if ca != cb {
        let which = if ca.0 != cb.0 { "folders" } else if ca.1 != cb.1 { "kinds" } else if ca.2 != cb.2 { "tags" } else { "favorites" };
        return Err(Failure::new(
            format!("c20/sync/counters-differ-from-rebuilt/{which}"),
            format!("after {after}: incremental counters {:?} but rebuilt {:?}", ca, cb),
        ));
    }
    for n in ["x", "y", "one", "two"] {
        let q = |ix: &SearchIndex| ix.query_map(n, |_| true).into_iter().map(|d| (*d.folder_id(), *d.id())).collect::<BTreeSet<_>>();
        let (qa, qb) = (q(&inc), q(&fresh));
        if qa != qb {
            return Err(Failure::new(
                if qa.len() > qb.len() { "c20/sync/query-returns-stale-entry" } else { "c20/sync/query-misses-live-entry" },
                format!("after {after}: query {:?} returns {} entries on the incremental index but {} on a rebuilt one", n, qa.len(), qb.len()),
            ));
        }
    }
    Ok(())
}

pub fn check_merge_case(c: &ConvCase, mode: Mode) -> (CaseInfo, CheckResult) {
    let mut info = CaseInfo::default();
    let r = block_on(async {
        let r = run_case(c, mode, &mut info).await;
        sos_core::verif::set_clock(None);
        r
    });
    (info, r)
}

async fn oracle(w: &SyncWorld, d: usize, mode: Mode, after: &str) -> CheckResult {
    let a = w.devices[d].account.lock().await;
    match mode {
        Mode::Replay => replay_views_equal(&*a, after).await,
        Mode::Search => index_matches_rebuilt(&*a, after).await,
        Mode::Integrity => {
            drop(a);
            integrity_clean(w, d, after).await
        }
    }
}

async fn run_case(c: &ConvCase, mode: Mode, info: &mut CaseInfo) -> CheckResult {
    let mut w = SyncWorld::new(&c.cfg, c.server_db).await?;
    let mut pre = vec![
        Edit::CreateSecret { folder: 0, label: "one".into(), text: "1".into() },
        Edit::CreateSecret { folder: 0, label: "two".into(), text: "2".into() },
    ];
    pre.extend(c.pre.iter().cloned());
    for e in &pre {
        apply_edit(&mut w, 0, e).await?;
    }
    for _ in 0..2 {
        w.sync(0).await.map_err(|e| Failure::new("harness/initial-sync", format!("initial sync failed: {e}")))?;
    }
    let ndev = c.offline.len().clamp(2, 3);
    for i in 1..ndev {
        let skew = SKEWS[(c.skews.get(i - 1).copied().unwrap_or(0) % 5) as usize];
        w.clone_device(skew).await?;
    }
    if mode == Mode::Search {
        for d in 0..ndev {
            let mut a = w.devices[d].account.lock().await;
            a.initialize_search_index().await.map_err(hf("c20/sync/initialize-search-index-error", "initialize_search_index"))?;
        }
    }
    for d in 0..ndev {
        for e in c.offline.get(d).cloned().unwrap_or_default() {
            if apply_edit(&mut w, d, &e).await? {
                if matches!(e, Edit::CompactFolder { .. }) {
                    info.class("offline-compaction");
                }
            }
        }
        oracle(&w, d, mode, &format!("offline edits on device {d}")).await?;
    }
    // known C04 root cause (events addressed by hash, see known_findings.json): once a log
    // holds one hash twice, merges can pair a folder log with the wrong key when a folder
    // password change is in flight, and the folder cannot be read at all - excluded, counted
    if crate::prop_c04::concurrent_rekey(c) {
        // known C04 finding c04/folder-undecryptable/concurrent-rewrite-and-password-change
        info.excluded.push("concurrent-rewrite-and-password-change".into());
        return Ok(());
    }
    // known C04 root cause (events addressed by hash, see known_findings.json): once a log holds
    // one hash twice, diffs / rewinds / scans pick the wrong occurrence and merges go wrong in
    // many ways (a deleted folder that stays without its password, a folder log paired with the
    // wrong key, ...) - such histories are excluded by construction and counted
    for d in 0..ndev {
        let a = w.devices[d].account.lock().await;
        let logs = all_logs(&*a).await?;
        if logs.values().any(|l| crate::prop_c04::has_repeated_hash(l)) {
            info.excluded.push("repeated-event-hash-within-a-log".into());
            return Ok(());
        }
    }
    // forced overwrite with an arbitrary remote history: in a third of the cases device 1 force
    // merges device 0's (diverged) log of every folder both serve under the same key, before any
    // sync - the path a hard conflict without a shared ancestor takes
    if c.skews.first().copied().unwrap_or(0) % 3 == 0 && !c.offline.iter().flatten().any(|e| matches!(e, Edit::ChangeFolderPassword { .. })) {
        use sos_core::events::{patch::{FolderDiff, Patch}, EventRecord};
        use sos_sync::{ForceMerge, MergeOutcome};
        let src = {
            let a = w.devices[0].account.lock().await;
            all_logs(&*a).await?
        };
        let dst_folders: BTreeSet<String> = {
            let a = w.devices[1].account.lock().await;
            all_logs(&*a).await?.keys().cloned().collect()
        };
        let mut forced = 0;
        for (name, log) in &src {
            let Some(id) = name.strip_prefix("folder:") else { continue };
            if !dst_folders.contains(name) || log.is_empty() {
                continue;
            }
            let Ok(fid) = id.parse::<sos_core::VaultId>() else { continue };
            let records: Vec<EventRecord> = log
                .iter()
                .map(|r| {
                    let t = time::OffsetDateTime::from_unix_timestamp_nanos(r.time).unwrap();
                    EventRecord::new(sos_core::UtcDateTime::from(t), Default::default(), sos_core::commit::CommitHash(r.commit), r.bytes.clone())
                })
                .collect();
            let mut tree = sos_core::commit::CommitTree::new();
            let mut leaves: Vec<[u8; 32]> = log.iter().map(|r| r.commit).collect();
            tree.append(&mut leaves);
            tree.commit();
            let checkpoint = tree.head().map_err(hf("harness/head", "head of the forced history"))?;
            let mut a = w.devices[1].account.lock().await;
            let mut outcome = MergeOutcome::default();
            a.force_merge_folder(&fid, FolderDiff { last_commit: None, checkpoint, patch: Patch::new(records) }, &mut outcome)
                .await
                .map_err(|e| Failure::new("merge/force-merge-error", format!("force_merge_folder of a valid history failed: {e}")))?;
            forced += 1;
        }
        if forced > 0 {
            info.class("direct-force-merge");
            info.nontrivial = true;
            oracle(&w, 1, mode, "a direct force merge of device 0's folder logs into device 1").await?;
        }
    }
    let mut order: Vec<usize> = c.order.iter().map(|x| (*x as usize) % ndev).collect();
    for _ in 0..3 {
        order.extend(0..ndev);
    }
    let mut merged_events = 0u64;
    for (step, d) in order.into_iter().enumerate() {
        let trace_before = w.tap.trace.lock().unwrap().len();
        let res = w.sync(d).await;
        let trace: Vec<&'static str> = w.tap.trace.lock().unwrap()[trace_before..].iter().map(|t| t.request).collect();
        let label = format!("sync #{step} of device {d} ({}; requests {:?})", match &res { Ok(_) => "Ok".to_string(), Err(e) => format!("Err {}", e.to_string().chars().take(60).collect::<String>()) }, trace);
        if let Ok(Some(o)) = &res {
            merged_events += o.changes;
            if o.changes >= 2 {
                info.nontrivial = true;
                info.class("merge-replayed>=2-events");
            }
        }
        if trace.contains(&"scan") {
            info.class("auto-merge");
            info.nontrivial = true;
        }
        if trace.iter().filter(|t| **t == "diff").count() > 0 && !trace.contains(&"patch") && trace.contains(&"scan") {
            info.class("scan-then-diff");
        }
        // known C04 root cause (folder key and folder log are merged independently, see
        // c04/folder-undecryptable/.. in known_findings.json): a sync that FAILS while a folder
        // password change is in flight can leave the folder keyed for the other log until the
        // next sync; the oracle cannot read such a folder - excluded by construction, counted
        if res.is_err() && c.offline.iter().flatten().any(|e| matches!(e, Edit::ChangeFolderPassword { .. })) {
            info.excluded.push("failed-sync-with-folder-password-change-in-flight".into());
            continue;
        }
        oracle(&w, d, mode, &label).await?;
    }
    info.inner_evals = merged_events;
    Ok(())
}

fn merge_edit_strategy() -> impl Strategy<Value = Edit> {
    prop_oneof![
        12 => crate::prop_c04::edit_strategy(),
        1 => any::<u16>().prop_map(|folder| Edit::CompactFolder { folder }),
        2 => (prop_oneof![Just(0u16), any::<u16>()], any::<u16>()).prop_map(|(sec, folder)| Edit::MoveSecret { sec, folder }),
        1 => (any::<u16>(), "[a-z]{1,4}").prop_map(|(folder, word)| Edit::ChangeFolderPassword { folder, word }),
        3 => (prop_oneof![Just(0u16), Just(40000u16), any::<u16>()], any::<bool>(), proptest::option::weighted(0.3, "[a-z]{1,3}")).prop_map(|(sec, on, tag)| Edit::SetFavorite { sec, on, tag }),
    ]
}

fn merge_case_strategy() -> impl Strategy<Value = ConvCase> {
    (case_strategy(6), proptest::collection::vec(proptest::collection::vec(merge_edit_strategy(), 0..3), 3)).prop_map(|(mut c, extra)| {
        for (i, o) in c.offline.iter_mut().enumerate() {
            o.extend(extra[i].iter().cloned());
            // device-log and file events play no role for folders and the index
            o.retain(|e| !matches!(e, Edit::TrustDevice { .. } | Edit::RevokeDevice { .. } | Edit::FileEvent { .. }));
        }
        c
    })
}

pub fn run_sync_subcheck(shard: &Shard, rep: &mut Report, mode: Mode) {
    let t = shard.tier;
    let cases = match mode {
        Mode::Replay => t.pick(160, 3_000),
        Mode::Search => t.pick(160, 3_000),
        Mode::Integrity => t.pick(96, 2_000),
    };
    let name = if mode == Mode::Integrity { "sync-sound" } else { "sync" };
    drive(shard, rep, name, shard.share(cases), merge_case_strategy(), |c| check_merge_case(c, mode));
}

pub fn replay_sync_subcheck(case: &Value, mode: Mode) -> CheckResult {
    let c: ConvCase = from_case(case).map_err(|e| Failure::new("harness", e))?;
    check_merge_case(&c, mode).1
}
