//! Engine E (`codec`): structure-aware value generators for every stored and
//! transmitted type, shared by C14 (round trip / determinism) and C15 (the
//! valid encodings are the mutation seeds).
//!
//! A case is `(type name, entropy bytes)`.  The value is built from the
//! entropy by a deterministic reader [`U`] (the `arbitrary` idea): every
//! structural decision (variant, optional member, collection length, string
//! class, boundary number) consumes entropy, exhausted entropy yields zeros
//! and therefore the first variant / empty collection / default number.
//! proptest generates and shrinks the entropy (`Vec<u8>`), so shrinking moves
//! towards shorter inputs and zero bytes, i.e. towards default values.
//! Building the value a second time from the same entropy is the "clone
//! rebuilt field by field" of the determinism oracle (every `HashMap` /
//! `HashSet` of the second value has its own `RandomState`).
use crate::framework::*;
use serde::{Deserialize, Serialize};
use serde_json::{json, Value};
use sos_core::{
    commit::{CommitHash, CommitProof, CommitState, CommitTree, Comparison},
    crypto::{AeadPack, Cipher, KeyDerivation, Nonce, Seed},
    device::{DeviceMetaData, DevicePublicKey, TrustedDevice},
    events::{
        patch::{CheckedPatch, Diff, Patch},
        AccountEvent, DeviceEvent, EventLogType, EventRecord, FileEvent, WriteEvent,
    },
    AccountId, ExternalFile, ExternalFileName, Origin, SecretPath, UtcDateTime, VaultCommit,
    VaultEntry, VaultFlags,
};
use sos_vault::{
    secret::{
        AgeVersion, FileContent, IdentityKind, Secret, SecretFlags, SecretMeta, SecretRow,
        SecretSigner, SecretType, UserData,
    },
    Header, SharedAccess, Summary, Vault, VaultMeta,
};
use std::collections::{HashMap, HashSet};
use time::OffsetDateTime;
use uuid::Uuid;

// ---------------------------------------------------------------------------
// runtime
// ---------------------------------------------------------------------------

/// One current-thread runtime per process (wire encoding needs
/// `spawn_blocking`, which a current-thread runtime provides).
pub fn rt() -> &'static tokio::runtime::Runtime {
    static RT: std::sync::OnceLock<tokio::runtime::Runtime> = std::sync::OnceLock::new();
    RT.get_or_init(|| {
        tokio::runtime::Builder::new_current_thread()
            .enable_all()
            .max_blocking_threads(2)
            .build()
            .expect("runtime")
    })
}

/// Block on a future on the shared runtime (never call from async code).
pub fn run<F: std::future::Future>(f: F) -> F::Output {
    rt().block_on(f)
}

// ---------------------------------------------------------------------------
// entropy reader
// ---------------------------------------------------------------------------

pub const MIN_SECS: i64 = -62_135_596_800; // 0001-01-01T00:00:00Z
pub const MAX_SECS: i64 = 253_402_300_799; // 9999-12-31T23:59:59Z

/// Coverage-guided tier only (`crate::fuzz`): when set, [`U::blob`] does not build the payload
/// classes of 64 KiB and more (they cost 10 ms .. 10 s per case under ASan + coverage
/// instrumentation and are covered by the proptest tier); it returns an empty payload and raises
/// [`LARGE_HIT`], and the fuzz target discards the input *before* looking at the verdict.  Every
/// input that reaches the oracle's verdict therefore builds the same value with and without the
/// switch, which keeps replay files valid for the ordinary replay code.
pub static SKIP_LARGE: std::sync::atomic::AtomicBool = std::sync::atomic::AtomicBool::new(false);
pub static LARGE_HIT: std::sync::atomic::AtomicBool = std::sync::atomic::AtomicBool::new(false);

/// Deterministic reader of entropy bytes with coverage bookkeeping.
pub struct U<'a> {
    data: &'a [u8],
    pos: usize,
    pub classes: Vec<String>,
    /// value uses >=1 non-default optional member / non-empty collection / boundary number
    pub nontrivial: bool,
    /// value contains a hash-ordered collection (HashMap/HashSet) with >= 2 elements
    pub multi_hash: bool,
    /// allow >= 2 elements in hash-ordered collections
    pub allow_multi_hash: bool,
    /// allow byte payloads above the 16 MiB buffer limit of the binary format
    /// (the binary encoder rejects them; C14 only)
    pub allow_oversize: bool,
    depth: u32,
}

impl<'a> U<'a> {
    pub fn new(data: &'a [u8]) -> Self {
        Self {
            data,
            pos: 0,
            classes: vec![],
            nontrivial: false,
            multi_hash: false,
            allow_multi_hash: true,
            allow_oversize: false,
            depth: 0,
        }
    }
    pub fn byte(&mut self) -> u8 {
        let b = self.data.get(self.pos).copied().unwrap_or(0);
        self.pos += 1;
        b
    }
    pub fn u16(&mut self) -> u16 {
        u16::from_le_bytes([self.byte(), self.byte()])
    }
    pub fn u32(&mut self) -> u32 {
        u32::from_le_bytes([self.byte(), self.byte(), self.byte(), self.byte()])
    }
    pub fn u64(&mut self) -> u64 {
        (self.u32() as u64) | ((self.u32() as u64) << 32)
    }
    pub fn below(&mut self, n: usize) -> usize {
        if n <= 1 {
            0
        } else if n <= 256 {
            self.byte() as usize % n
        } else {
            self.u32() as usize % n
        }
    }
    pub fn bool(&mut self) -> bool {
        self.byte() & 1 == 1
    }
    pub fn cls(&mut self, c: impl Into<String>) {
        let c = c.into();
        if !self.classes.contains(&c) {
            self.classes.push(c);
        }
    }
    /// Is an optional member present?
    pub fn some(&mut self) -> bool {
        let b = self.bool();
        if b {
            self.nontrivial = true;
        }
        b
    }
    /// Collection length in 0..=max (biased to small).
    pub fn count(&mut self, max: usize) -> usize {
        let n = self.below(max + 1);
        if n > 0 {
            self.nontrivial = true;
        }
        n
    }
    /// Length of a hash-ordered collection (honours `allow_multi_hash`).
    pub fn hash_count(&mut self, max: usize) -> usize {
        let mut n = self.count(max);
        if !self.allow_multi_hash {
            n = n.min(1);
        }
        n
    }
    pub fn boundary(&mut self, c: &str) {
        self.nontrivial = true;
        self.cls(c);
    }
    pub fn arr<const N: usize>(&mut self) -> [u8; N] {
        let mut a = [0u8; N];
        match self.below(8) {
            0 => {}
            1 => a = [0xff; N],
            _ => {
                for x in a.iter_mut() {
                    *x = self.byte();
                }
            }
        }
        a
    }
    pub fn uuid(&mut self) -> Uuid {
        Uuid::from_bytes(self.arr::<16>())
    }
    pub fn hash(&mut self) -> CommitHash {
        CommitHash(self.arr::<32>())
    }
    pub fn pattern(&mut self, n: usize) -> Vec<u8> {
        let a = self.byte();
        let m = self.byte() | 1;
        (0..n).map(|i| (i as u8).wrapping_mul(m).wrapping_add(a)).collect()
    }
    /// Opaque byte payload: empty / one byte / small / medium / large.
    pub fn blob(&mut self) -> Vec<u8> {
        match self.below(16) {
            0 | 1 | 2 => {
                self.cls("blob:empty");
                vec![]
            }
            3 => {
                self.nontrivial = true;
                vec![self.byte()]
            }
            4..=10 => {
                self.nontrivial = true;
                let n = 2 + self.below(47);
                (0..n).map(|_| self.byte()).collect()
            }
            11..=14 => {
                self.nontrivial = true;
                self.cls("blob:medium");
                let n = 49 + self.below(600);
                self.pattern(n)
            }
            _ if SKIP_LARGE.load(std::sync::atomic::Ordering::Relaxed) => {
                LARGE_HIT.store(true, std::sync::atomic::Ordering::Relaxed);
                vec![]
            }
            _ if self.allow_oversize && self.below(12) == 0 => {
                self.boundary("blob:over-16MiB-buffer-limit");
                let extra = self.below(3);
                self.pattern(16 * 1024 * 1024 + 1 + extra)
            }
            _ => {
                self.boundary("blob:large(64KiB..320KiB)");
                let n = 65_536 + self.u32() as usize % 262_144;
                self.pattern(n)
            }
        }
    }
    pub fn ascii(&mut self, max: usize) -> String {
        let n = 1 + self.below(max.max(1));
        (0..n).map(|_| (0x20 + self.byte() % 0x5f) as char).collect()
    }
    /// Lower-case identifier (for hosts, tags, tokens).
    pub fn ident(&mut self, max: usize) -> String {
        let n = 1 + self.below(max.max(1));
        (0..n).map(|_| (b'a' + self.byte() % 26) as char).collect()
    }
    /// Free text: empty / ASCII / non-ASCII / arbitrary scalar values / long.
    pub fn string(&mut self) -> String {
        const TRICKY: &[&str] = &[
            "ñandú",
            "日本語のテキスト",
            "🔐🗝️ emoji",
            "Ünïcödé ſtraße",
            "مرحبا بالعالم",
            "a\u{0301}e\u{0301} combining",
            "\u{feff}bom-prefixed",
            "tab\tnew\nline\r\n",
            "nul\0inside",
            "\u{10ffff}\u{e000}",
            "quote\"back\\slash",
            "Ω≈ç√∫˜µ≤≥÷",
        ];
        match self.below(10) {
            0 | 1 => {
                self.cls("str:empty");
                String::new()
            }
            2..=4 => {
                self.nontrivial = true;
                self.ascii(24)
            }
            5 | 6 => {
                self.boundary("str:non-ascii");
                let i = self.below(TRICKY.len());
                let mut s = TRICKY[i].to_string();
                if self.bool() {
                    s.push_str(&self.ascii(6));
                }
                s
            }
            7 => {
                self.boundary("str:arbitrary-scalars");
                let n = 1 + self.below(12);
                (0..n)
                    .map(|_| {
                        let c = self.u32() % 0x11_0000;
                        char::from_u32(c).unwrap_or('\u{fffd}')
                    })
                    .collect()
            }
            8 => {
                self.boundary("str:long(300..5000)");
                let n = 300 + self.u16() as usize % 4700;
                let unit = ["x", "é", "語", "🔐"][self.below(4)];
                unit.repeat(n / unit.len().max(1) + 1)
            }
            _ => {
                self.nontrivial = true;
                self.ascii(60)
            }
        }
    }
    /// A timestamp within years 1..=9999 with boundary seconds and nanos.
    pub fn datetime(&mut self) -> OffsetDateTime {
        let secs = match self.below(12) {
            0 => 0,
            1 => {
                self.boundary("ts:min(0001-01-01)");
                MIN_SECS
            }
            2 => {
                self.boundary("ts:max(9999-12-31T23:59:59)");
                MAX_SECS
            }
            3 => {
                self.boundary("ts:-1s");
                -1
            }
            4 => {
                self.boundary("ts:i32::MAX");
                i32::MAX as i64
            }
            5 => {
                self.boundary("ts:i32::MAX+1");
                i32::MAX as i64 + 1
            }
            6 => {
                self.boundary("ts:i32::MIN-1");
                i32::MIN as i64 - 1
            }
            7 | 8 => {
                self.boundary("ts:negative-unix-seconds");
                -((self.u64() % (-MIN_SECS) as u64) as i64) - 1
            }
            _ => {
                self.nontrivial = true;
                (self.u64() % (MAX_SECS as u64 + 1)) as i64
            }
        };
        let nanos = match self.below(6) {
            0 | 1 => 0,
            2 => {
                self.boundary("ts:nanos=1");
                1
            }
            3 => {
                self.boundary("ts:nanos=999_999_999");
                999_999_999
            }
            _ => {
                self.nontrivial = true;
                self.u32() % 1_000_000_000
            }
        };
        OffsetDateTime::from_unix_timestamp(secs)
            .expect("generated seconds in range")
            .replace_nanosecond(nanos)
            .expect("nanos in range")
    }
    pub fn utc(&mut self) -> UtcDateTime {
        self.datetime().into()
    }
    /// A usize with boundary values.
    pub fn size(&mut self) -> usize {
        match self.below(8) {
            0 => 0,
            1 => 1,
            2 => {
                self.boundary("num:u32::MAX");
                u32::MAX as usize
            }
            3 => {
                self.boundary("num:u32::MAX+1");
                u32::MAX as usize + 1
            }
            4 => {
                self.boundary("num:u64::MAX");
                u64::MAX as usize
            }
            5 => {
                self.boundary("num:i64::MAX");
                i64::MAX as usize
            }
            _ => {
                self.nontrivial = true;
                self.u64() as usize
            }
        }
    }
    pub fn enter(&mut self) -> bool {
        self.depth += 1;
        self.depth <= 3
    }
    pub fn leave(&mut self) {
        self.depth -= 1;
    }
}

// ---------------------------------------------------------------------------
// core types
// ---------------------------------------------------------------------------

pub fn g_commit_hash(u: &mut U) -> CommitHash {
    let h = u.hash();
    if h.0 != [0u8; 32] {
        u.nontrivial = true;
    }
    h
}

pub fn g_utc(u: &mut U) -> UtcDateTime {
    u.utc()
}

pub fn g_nonce(u: &mut U) -> Nonce {
    if u.bool() {
        u.cls("Nonce::Nonce12");
        Nonce::Nonce12(u.arr::<12>())
    } else {
        u.cls("Nonce::Nonce24");
        Nonce::Nonce24(u.arr::<24>())
    }
}

pub fn g_aead(u: &mut U) -> AeadPack {
    AeadPack {
        nonce: g_nonce(u),
        ciphertext: u.blob(),
    }
}

pub fn g_cipher(u: &mut U) -> Cipher {
    match u.below(3) {
        0 => {
            u.cls("Cipher::AesGcm256");
            Cipher::AesGcm256
        }
        1 => {
            u.boundary("Cipher::XChaCha20Poly1305");
            Cipher::XChaCha20Poly1305
        }
        _ => {
            u.boundary("Cipher::X25519");
            Cipher::X25519
        }
    }
}

pub fn g_kdf(u: &mut U) -> KeyDerivation {
    if u.bool() {
        u.boundary("KeyDerivation::BalloonHash");
        KeyDerivation::BalloonHash
    } else {
        u.cls("KeyDerivation::Argon2Id");
        KeyDerivation::Argon2Id
    }
}

pub fn g_vault_flags(u: &mut U) -> VaultFlags {
    match u.below(5) {
        0 => {
            u.cls("VaultFlags::empty");
            VaultFlags::empty()
        }
        1 => {
            u.boundary("VaultFlags::all");
            VaultFlags::all()
        }
        2 => {
            u.boundary("VaultFlags::single-bit");
            VaultFlags::from_bits_truncate(1u64 << u.below(10))
        }
        _ => {
            let f = VaultFlags::from_bits_truncate(u.u16() as u64);
            if !f.is_empty() {
                u.nontrivial = true;
            }
            f
        }
    }
}

pub fn g_vault_entry(u: &mut U) -> VaultEntry {
    VaultEntry(g_aead(u), g_aead(u))
}

pub fn g_vault_commit(u: &mut U) -> VaultCommit {
    VaultCommit(u.hash(), g_vault_entry(u))
}

pub fn g_write_event(u: &mut U) -> WriteEvent {
    match u.below(7) {
        0 => {
            u.cls("WriteEvent::CreateVault");
            WriteEvent::CreateVault(u.blob())
        }
        1 => {
            u.cls("WriteEvent::SetVaultName");
            WriteEvent::SetVaultName(u.string())
        }
        2 => {
            u.cls("WriteEvent::SetVaultFlags");
            WriteEvent::SetVaultFlags(g_vault_flags(u))
        }
        3 => {
            u.cls("WriteEvent::SetVaultMeta");
            WriteEvent::SetVaultMeta(g_aead(u))
        }
        4 => {
            u.cls("WriteEvent::CreateSecret");
            WriteEvent::CreateSecret(u.uuid(), g_vault_commit(u))
        }
        5 => {
            u.cls("WriteEvent::UpdateSecret");
            WriteEvent::UpdateSecret(u.uuid(), g_vault_commit(u))
        }
        _ => {
            u.cls("WriteEvent::DeleteSecret");
            WriteEvent::DeleteSecret(u.uuid())
        }
    }
}

pub fn g_account_event(u: &mut U) -> AccountEvent {
    match u.below(8) {
        0 => {
            u.cls("AccountEvent::RenameAccount");
            AccountEvent::RenameAccount(u.string())
        }
        1 => {
            u.cls("AccountEvent::UpdateIdentity");
            AccountEvent::UpdateIdentity(u.blob())
        }
        2 => {
            u.cls("AccountEvent::CreateFolder");
            AccountEvent::CreateFolder(u.uuid(), u.blob())
        }
        3 => {
            u.cls("AccountEvent::RenameFolder");
            AccountEvent::RenameFolder(u.uuid(), u.string())
        }
        4 => {
            u.cls("AccountEvent::UpdateFolder");
            AccountEvent::UpdateFolder(u.uuid(), u.blob())
        }
        5 => {
            u.cls("AccountEvent::CompactFolder");
            AccountEvent::CompactFolder(u.uuid(), u.blob())
        }
        6 => {
            u.cls("AccountEvent::ChangeFolderPassword");
            AccountEvent::ChangeFolderPassword(u.uuid(), u.blob())
        }
        _ => {
            u.cls("AccountEvent::DeleteFolder");
            AccountEvent::DeleteFolder(u.uuid())
        }
    }
}

fn g_json_scalar(u: &mut U) -> Value {
    match u.below(6) {
        0 => Value::String(u.string()),
        1 => json!(u.u64()),
        2 => json!(-(u.u32() as i64)),
        3 => json!(u.bool()),
        4 => Value::Null,
        _ => Value::String(u.ascii(12)),
    }
}

pub fn g_device_meta(u: &mut U) -> DeviceMetaData {
    let mut map = serde_json::Map::new();
    let n = u.count(3);
    for i in 0..n {
        let key = if u.bool() { format!("k{}{}", i, u.ident(6)) } else { format!("{}{}", u.string(), i) };
        let v = match u.below(3) {
            0 => g_json_scalar(u),
            1 => {
                let mut o = serde_json::Map::new();
                for j in 0..u.below(4) {
                    o.insert(format!("{}{}", u.ident(5), j), g_json_scalar(u));
                }
                Value::Object(o)
            }
            _ => Value::Array((0..u.below(4)).map(|_| g_json_scalar(u)).collect()),
        };
        map.insert(key, v);
    }
    serde_json::from_value(Value::Object(map)).expect("device meta data from json object")
}

pub fn g_device_public_key(u: &mut U) -> DevicePublicKey {
    u.arr::<32>().into()
}

pub fn g_trusted_device(u: &mut U) -> TrustedDevice {
    let pk = g_device_public_key(u);
    let extra = g_device_meta(u);
    let date = u.datetime();
    TrustedDevice::new(pk, Some(extra), Some(date))
}

pub fn g_device_event(u: &mut U) -> DeviceEvent {
    if u.bool() {
        u.cls("DeviceEvent::Trust");
        DeviceEvent::Trust(g_trusted_device(u))
    } else {
        u.cls("DeviceEvent::Revoke");
        DeviceEvent::Revoke(g_device_public_key(u))
    }
}

pub fn g_secret_path(u: &mut U) -> SecretPath {
    SecretPath(u.uuid(), u.uuid())
}

pub fn g_file_name(u: &mut U) -> ExternalFileName {
    u.arr::<32>().into()
}

pub fn g_external_file(u: &mut U) -> ExternalFile {
    ExternalFile::new(g_secret_path(u), g_file_name(u))
}

pub fn g_file_event(u: &mut U) -> FileEvent {
    match u.below(3) {
        0 => {
            u.cls("FileEvent::CreateFile");
            FileEvent::CreateFile(g_secret_path(u), g_file_name(u))
        }
        1 => {
            u.cls("FileEvent::MoveFile");
            FileEvent::MoveFile {
                name: g_file_name(u),
                from: g_secret_path(u),
                dest: g_secret_path(u),
            }
        }
        _ => {
            u.cls("FileEvent::DeleteFile");
            FileEvent::DeleteFile(g_secret_path(u), g_file_name(u))
        }
    }
}

/// Event bytes of a record: opaque blob or the encoding of a real event.
fn g_event_bytes(u: &mut U) -> Vec<u8> {
    match u.below(6) {
        0 => u.blob(),
        1 | 2 => {
            u.cls("EventRecord:payload=WriteEvent");
            let e = g_write_event(u);
            run(sos_core::encode(&e)).unwrap_or_default()
        }
        3 => {
            u.cls("EventRecord:payload=AccountEvent");
            let e = g_account_event(u);
            run(sos_core::encode(&e)).unwrap_or_default()
        }
        4 => {
            u.cls("EventRecord:payload=DeviceEvent");
            let e = g_device_event(u);
            run(sos_core::encode(&e)).unwrap_or_default()
        }
        _ => {
            u.cls("EventRecord:payload=FileEvent");
            let e = g_file_event(u);
            run(sos_core::encode(&e)).unwrap_or_default()
        }
    }
}

pub fn g_event_record(u: &mut U) -> EventRecord {
    let time = u.utc();
    let last = u.hash();
    let bytes = g_event_bytes(u);
    let commit = if u.bool() { CommitHash(CommitTree::hash(&bytes)) } else { u.hash() };
    if !bytes.is_empty() {
        u.nontrivial = true;
    }
    EventRecord::new(time, last, commit, bytes)
}

/// Event record whose payload is the encoding of an event of kind `k`
/// (0 write, 1 account, 2 device, 3 file) — seeds for `decode_event`.
pub fn g_event_record_of(u: &mut U, k: usize) -> EventRecord {
    let time = u.utc();
    let last = u.hash();
    let bytes = match k {
        0 => run(sos_core::encode(&g_write_event(u))),
        1 => run(sos_core::encode(&g_account_event(u))),
        2 => run(sos_core::encode(&g_device_event(u))),
        _ => run(sos_core::encode(&g_file_event(u))),
    }
    .unwrap_or_default();
    EventRecord::new(time, last, CommitHash(CommitTree::hash(&bytes)), bytes)
}

pub fn g_commit_proof(u: &mut U) -> CommitProof {
    match u.below(8) {
        0 => {
            u.cls("CommitProof::default");
            CommitProof::default()
        }
        1 => {
            // synthetic proof with boundary numbers (public fields)
            u.boundary("CommitProof::synthetic");
            let n = u.below(5);
            let hashes: Vec<[u8; 32]> = (0..n).map(|_| u.arr::<32>()).collect();
            let k = u.below(4);
            CommitProof {
                root: u.hash(),
                proof: sos_core::merkle::MerkleProof::<sos_core::merkle::algorithms::Sha256>::new(hashes),
                length: u.size(),
                indices: (0..k).map(|_| u.size()).collect(),
            }
        }
        _ => {
            u.nontrivial = true;
            let n = match u.below(6) {
                0 => 1,
                1 => 2,
                2 => 3,
                3 => 4 + u.below(14),
                4 => 18 + u.below(47),
                _ => {
                    u.cls("CommitProof:tree>=65-leaves");
                    65 + u.below(236)
                }
            };
            let salt = u.byte();
            let mut tree = CommitTree::new();
            let mut leaves: Vec<[u8; 32]> = (0..n)
                .map(|i| CommitTree::hash(&[salt, i as u8, (i >> 8) as u8]))
                .collect();
            tree.append(&mut leaves);
            tree.commit();
            let indices: Vec<usize> = match u.below(4) {
                0 => {
                    u.cls("CommitProof:head");
                    vec![n - 1]
                }
                1 => {
                    u.cls("CommitProof:first-leaf");
                    vec![0]
                }
                2 => {
                    u.cls("CommitProof:single-leaf");
                    vec![u.below(n)]
                }
                _ => {
                    u.cls("CommitProof:multi-leaf");
                    let mut s = std::collections::BTreeSet::new();
                    for _ in 0..(2 + u.below(4)) {
                        s.insert(u.below(n));
                    }
                    s.into_iter().collect()
                }
            };
            tree.proof(&indices).expect("proof of committed tree")
        }
    }
}

pub fn g_commit_state(u: &mut U) -> CommitState {
    CommitState(u.hash(), g_commit_proof(u))
}

pub fn g_comparison(u: &mut U) -> Comparison {
    match u.below(4) {
        0 => {
            u.cls("Comparison::Unknown");
            Comparison::Unknown
        }
        1 => {
            u.boundary("Comparison::Equal");
            Comparison::Equal
        }
        _ => {
            u.boundary("Comparison::Contains");
            let n = match u.below(8) {
                0 => 0,
                7 => {
                    u.cls("Comparison::Contains(1000)");
                    1000
                }
                k => k,
            };
            Comparison::Contains((0..n).map(|_| u.size()).collect())
        }
    }
}

// ---------------------------------------------------------------------------
// vault types
// ---------------------------------------------------------------------------

const FALLBACK_RECIPIENT: &str = "age1ql3z7hjy54pw3hyww5ayyfg7zqgvc7w3j2elw8zmrj2kg5sfn9aqmcac8p";
const FALLBACK_IDENTITY: &str =
    "AGE-SECRET-KEY-1GFPYYSJZGFPYYSJZGFPYYSJZGFPYYSJZGFPYYSJZGFPYYSJZGFPQ4EGAEX";

/// A syntactically valid age x25519 recipient derived from entropy.
pub fn g_recipient(u: &mut U) -> String {
    use bech32::ToBase32;
    let bytes = u.arr::<32>();
    let s = bech32::encode("age", bytes.to_base32(), bech32::Variant::Bech32)
        .unwrap_or_else(|_| FALLBACK_RECIPIENT.to_string());
    if s.parse::<age::x25519::Recipient>().is_ok() {
        s
    } else {
        FALLBACK_RECIPIENT.to_string()
    }
}

/// A syntactically valid age x25519 identity derived from entropy.
pub fn g_age_identity(u: &mut U) -> String {
    use bech32::ToBase32;
    let bytes = u.arr::<32>();
    let s = bech32::encode("age-secret-key-", bytes.to_base32(), bech32::Variant::Bech32)
        .map(|s| s.to_uppercase())
        .unwrap_or_else(|_| FALLBACK_IDENTITY.to_string());
    if s.parse::<age::x25519::Identity>().is_ok() {
        s
    } else {
        FALLBACK_IDENTITY.to_string()
    }
}

pub fn g_shared_access(u: &mut U) -> SharedAccess {
    match u.below(3) {
        0 => {
            u.cls("SharedAccess::WriteAccess(empty)");
            SharedAccess::WriteAccess(vec![])
        }
        1 => {
            u.boundary("SharedAccess::WriteAccess(recipients)");
            let n = 1 + u.below(3);
            SharedAccess::WriteAccess((0..n).map(|_| g_recipient(u)).collect())
        }
        _ => {
            u.boundary("SharedAccess::ReadOnly");
            SharedAccess::ReadOnly(g_aead(u))
        }
    }
}

pub fn g_summary(u: &mut U) -> Summary {
    let version = match u.below(4) {
        0 | 1 => 1u16,
        2 => {
            u.boundary("Summary:version=u16::MAX");
            u16::MAX
        }
        _ => u.u16(),
    };
    Summary::new(version, u.uuid(), u.string(), g_cipher(u), g_kdf(u), g_vault_flags(u))
}

pub fn g_header(u: &mut U) -> Header {
    let s = g_summary(u);
    let mut h = Header::new(*s.id(), s.name().to_string(), *s.cipher(), *s.kdf(), s.flags().clone());
    if u.some() {
        u.cls("Header:meta=Some");
        h.set_meta(Some(g_aead(u)));
    }
    if u.some() {
        u.cls("Auth:salt=Some");
        // salts are strings in the file format (SaltString in practice)
        let salt = if u.bool() { u.ident(22) } else { u.string() };
        h.set_salt(Some(salt));
    }
    if u.some() {
        u.cls("Auth:seed=Some");
        h.set_seed(Some(Seed(u.arr::<32>())));
    }
    let sa = g_shared_access(u);
    if !sa.is_empty() {
        let mut v = serde_json::to_value(&h).expect("header to json");
        v["sharedAccess"] = serde_json::to_value(&sa).expect("shared access to json");
        h = serde_json::from_value(v).expect("header from json");
    }
    // the version of `Header::new` is fixed, patch it through serde when it differs
    if *s.version() != 1 {
        let mut v = serde_json::to_value(&h).expect("header to json");
        v["summary"]["version"] = json!(*s.version());
        h = serde_json::from_value(v).expect("header from json");
    }
    h
}

pub fn g_vault(u: &mut U) -> Vault {
    let h = g_header(u);
    let mut v = Vault::new(*h.id(), h.name().to_string(), Default::default(), Default::default(), Default::default());
    *v.header_mut() = h;
    let n = match u.below(8) {
        0 | 1 => 0,
        7 => {
            u.cls("Vault:40-rows");
            40
        }
        k => k - 1,
    };
    for i in 0..n {
        u.nontrivial = true;
        let mut id = u.arr::<16>();
        id[15] = i as u8; // distinct row ids
        v.insert_entry(Uuid::from_bytes(id), g_vault_commit(u));
    }
    v
}

pub fn g_vault_meta(u: &mut U) -> VaultMeta {
    let date = u.utc();
    let description = u.string();
    let v = json!({
        "dateCreated": serde_json::to_value(&date).expect("date json"),
        "description": description,
    });
    serde_json::from_value(v).expect("vault meta from json")
}

const SECRET_TYPES: [SecretType; 15] = [
    SecretType::Note,
    SecretType::File,
    SecretType::Account,
    SecretType::List,
    SecretType::Pem,
    SecretType::Page,
    SecretType::Signer,
    SecretType::Contact,
    SecretType::Totp,
    SecretType::Card,
    SecretType::Bank,
    SecretType::Link,
    SecretType::Password,
    SecretType::Identity,
    SecretType::Age,
];

pub fn g_urn(u: &mut U) -> urn::Urn {
    let s = match u.below(4) {
        0 => format!("urn:sos:vault:{}", u.uuid()),
        1 => "urn:isbn:0451450523".to_string(),
        2 => format!("urn:{}:{}", u.ident(8).replace(|c: char| !c.is_ascii_alphanumeric(), "a") + "x", u.ident(12)),
        _ => format!("urn:example:a{}:b{}", u.below(1000), u.ident(5)),
    };
    s.parse().unwrap_or_else(|_| "urn:sos:fallback".parse().expect("static urn"))
}

pub fn g_secret_meta_of(u: &mut U, kind: SecretType) -> SecretMeta {
    let mut m = SecretMeta::new(u.string(), kind);
    m.set_date_created(u.utc());
    m.set_last_updated(u.utc());
    if u.some() {
        u.cls("SecretMeta:flags=VERIFY");
        *m.flags_mut() = SecretFlags::VERIFY;
    }
    let n = u.hash_count(3);
    if n > 0 {
        let mut tags = HashSet::new();
        for i in 0..n {
            // the first tag is taken as generated (empty and whitespace-only strings included),
            // the others get a suffix so that they stay distinct
            if i == 0 {
                let t = match u.below(6) {
                    0 => String::new(),
                    1 => " ".to_string(),
                    _ => u.string(),
                };
                if t.trim().is_empty() {
                    u.cls("SecretMeta:tags:blank-tag");
                }
                tags.insert(t);
            } else {
                tags.insert(format!("{}{}", u.string(), i));
            }
        }
        if tags.len() >= 2 {
            u.multi_hash = true;
            u.cls("SecretMeta:tags>=2");
        } else {
            u.cls("SecretMeta:tags=1");
        }
        m.set_tags(tags);
    }
    if u.some() {
        u.cls("SecretMeta:urn=Some");
        m.set_urn(Some(g_urn(u)));
    }
    if u.some() {
        u.cls("SecretMeta:owner_id=Some");
        m.set_owner_id(Some(u.string()));
    }
    if u.some() {
        u.cls("SecretMeta:favorite");
        m.set_favorite(true);
    }
    m
}

pub fn g_secret_meta(u: &mut U) -> SecretMeta {
    let kind = SECRET_TYPES[u.below(15)];
    if kind != SecretType::Note {
        u.nontrivial = true;
    }
    u.cls(format!("SecretMeta:kind={:?}", kind));
    g_secret_meta_of(u, kind)
}

fn sstr(u: &mut U) -> secrecy::SecretString {
    u.string().into()
}

fn opt_sstr(u: &mut U) -> Option<secrecy::SecretString> {
    if u.some() {
        Some(sstr(u))
    } else {
        None
    }
}

pub fn g_user_data(u: &mut U) -> UserData {
    let mut d = UserData::default();
    if u.enter() {
        let n = u.count(2);
        for _ in 0..n {
            u.cls("UserData:custom-field");
            d.push(g_secret_row(u));
        }
    }
    u.leave();
    if u.some() {
        u.cls("UserData:comment=Some");
        d.set_comment(Some(u.string()));
    }
    if u.some() {
        u.cls("UserData:recovery_note=Some");
        d.set_recovery_note(Some(u.string()));
    }
    d
}

fn g_url(u: &mut U) -> url::Url {
    let s = match u.below(6) {
        0 => "https://example.com/".to_string(),
        1 => format!("https://{}.example.org/{}?q={}#f", u.ident(8), u.ident(6), u.below(100)),
        2 => format!("http://localhost:{}/{}", 1 + u.u16() as u32 % 65535, u.ident(4)),
        3 => "https://user:pw@sub.例え.jp/päth/ü?k=v w".to_string(),
        4 => format!("file:///tmp/{}", u.ident(6)),
        _ => format!("mailto:{}@{}.com", u.ident(5), u.ident(5)),
    };
    s.parse().unwrap_or_else(|_| "https://fallback.example/".parse().expect("static url"))
}

fn g_vcard(u: &mut U) -> vcard4::Vcard {
    let safe = |u: &mut U| -> String {
        match u.below(4) {
            0 => "Jane Doe".to_string(),
            1 => format!("{} {}", u.ident(6), u.ident(8)),
            2 => "Jürgen Müller-Lüdenscheidt".to_string(),
            _ => "山田 太郎".to_string(),
        }
    };
    let mut text = String::from("BEGIN:VCARD\r\nVERSION:4.0\r\n");
    text.push_str(&format!("FN:{}\r\n", safe(u)));
    if u.some() {
        text.push_str(&format!("NICKNAME:{}\r\n", u.ident(6)));
    }
    if u.some() {
        text.push_str(&format!("EMAIL:{}@{}.com\r\n", u.ident(5), u.ident(6)));
    }
    if u.some() {
        text.push_str(&format!("NOTE:{}\r\n", safe(u)));
    }
    if u.some() {
        text.push_str(&format!("ORG:{}\r\n", u.ident(9)));
    }
    text.push_str("END:VCARD\r\n");
    let mut cards = vcard4::parse(&text).unwrap_or_else(|_| {
        vcard4::parse("BEGIN:VCARD\r\nVERSION:4.0\r\nFN:Fallback\r\nEND:VCARD\r\n").expect("static vcard")
    });
    cards.remove(0)
}

fn g_totp(u: &mut U) -> totp_rs::TOTP {
    use totp_rs::{Algorithm, TOTP};
    let alg = [Algorithm::SHA1, Algorithm::SHA256, Algorithm::SHA512][u.below(3)];
    let digits = 6 + u.below(3);
    let skew = u.byte();
    let step = match u.below(4) {
        0 => 30,
        1 => 1,
        2 => u64::MAX,
        _ => 1 + u.u32() as u64,
    };
    let n = 16 + u.below(48);
    let secret: Vec<u8> = (0..n).map(|_| u.byte()).collect();
    let issuer = if u.some() { Some(u.string().replace(':', "_")) } else { None };
    let account = u.string().replace(':', "_");
    TOTP::new(alg, digits, skew, step, secret.clone(), issuer, account).unwrap_or_else(|_| {
        TOTP::new(Algorithm::SHA1, 6, 1, 30, secret, None, "fallback".to_string()).expect("static totp")
    })
}

fn g_pem(u: &mut U) -> pem::Pem {
    let tag = match u.below(4) {
        0 => "CERTIFICATE".to_string(),
        1 => "PRIVATE KEY".to_string(),
        2 => "RSA PUBLIC KEY".to_string(),
        _ => u.ident(10).to_uppercase(),
    };
    let n = match u.below(4) {
        0 => 0,
        1 => 1 + u.below(47),
        2 => 48,
        _ => 49 + u.below(400),
    };
    let contents: Vec<u8> = (0..n).map(|_| u.byte()).collect();
    pem::Pem::new(tag, contents)
}

pub fn g_secret_of(u: &mut U, kind: SecretType) -> Secret {
    u.cls(format!("Secret::{:?}", kind));
    match kind {
        SecretType::Note => Secret::Note { text: sstr(u), user_data: g_user_data(u) },
        SecretType::File => {
            let content = if u.bool() {
                u.cls("FileContent::Embedded");
                FileContent::Embedded {
                    name: u.string(),
                    mime: u.string(),
                    buffer: secrecy::SecretBox::new(Box::new(u.blob())),
                    checksum: u.arr::<32>(),
                }
            } else {
                u.boundary("FileContent::External");
                FileContent::External {
                    name: u.string(),
                    mime: u.string(),
                    checksum: u.arr::<32>(),
                    size: u.size() as u64,
                    path: None,
                }
            };
            Secret::File { content, user_data: g_user_data(u) }
        }
        SecretType::Account => {
            let account = u.string();
            let password = sstr(u);
            let n = u.count(3);
            let url = (0..n).map(|_| g_url(u)).collect::<Vec<_>>();
            match n {
                0 => u.cls("Secret::Account:url=0"),
                1 => u.cls("Secret::Account:url=1"),
                _ => u.cls("Secret::Account:url>=2"),
            }
            Secret::Account { account, password, url, user_data: g_user_data(u) }
        }
        SecretType::List => {
            let n = u.hash_count(4);
            let mut items = HashMap::new();
            for i in 0..n {
                items.insert(format!("{}{}", u.string(), i), sstr(u));
            }
            if items.len() >= 2 {
                u.multi_hash = true;
                u.cls("Secret::List:items>=2");
            }
            Secret::List { items, user_data: g_user_data(u) }
        }
        SecretType::Pem => {
            let n = u.count(3);
            Secret::Pem { certificates: (0..n).map(|_| g_pem(u)).collect(), user_data: g_user_data(u) }
        }
        SecretType::Page => Secret::Page {
            title: u.string(),
            mime: u.string(),
            document: sstr(u),
            user_data: g_user_data(u),
        },
        SecretType::Signer => {
            let n = [0usize, 32, 32, 64, 5][u.below(5)];
            let key: Vec<u8> = (0..n).map(|_| u.byte()).collect();
            let private_key = if u.bool() {
                u.cls("SecretSigner::SinglePartyEcdsa");
                SecretSigner::SinglePartyEcdsa(secrecy::SecretBox::new(Box::new(key)))
            } else {
                u.boundary("SecretSigner::SinglePartyEd25519");
                SecretSigner::SinglePartyEd25519(secrecy::SecretBox::new(Box::new(key)))
            };
            Secret::Signer { private_key, user_data: g_user_data(u) }
        }
        SecretType::Contact => Secret::Contact { vcard: Box::new(g_vcard(u)), user_data: g_user_data(u) },
        SecretType::Totp => Secret::Totp { totp: g_totp(u), user_data: g_user_data(u) },
        SecretType::Card => Secret::Card {
            number: sstr(u),
            expiry: if u.some() { Some(u.utc()) } else { None },
            cvv: sstr(u),
            name: opt_sstr(u),
            atm_pin: opt_sstr(u),
            user_data: g_user_data(u),
        },
        SecretType::Bank => Secret::Bank {
            number: sstr(u),
            routing: sstr(u),
            iban: opt_sstr(u),
            swift: opt_sstr(u),
            bic: opt_sstr(u),
            user_data: g_user_data(u),
        },
        SecretType::Link => Secret::Link {
            url: sstr(u),
            label: opt_sstr(u),
            title: opt_sstr(u),
            user_data: g_user_data(u),
        },
        SecretType::Password => Secret::Password { password: sstr(u), name: opt_sstr(u), user_data: g_user_data(u) },
        SecretType::Identity => {
            let kinds = [
                IdentityKind::PersonalIdNumber,
                IdentityKind::IdCard,
                IdentityKind::Passport,
                IdentityKind::DriverLicense,
                IdentityKind::SocialSecurity,
                IdentityKind::TaxNumber,
                IdentityKind::MedicalCard,
            ];
            let k = u.below(7);
            u.cls(format!("IdentityKind#{}", k + 1));
            Secret::Identity {
                id_kind: kinds[k].clone(),
                number: sstr(u),
                issue_place: if u.some() { Some(u.string()) } else { None },
                issue_date: if u.some() { Some(u.utc()) } else { None },
                expiry_date: if u.some() { Some(u.utc()) } else { None },
                user_data: g_user_data(u),
            }
        }
        SecretType::Age => Secret::Age {
            version: AgeVersion::Version1,
            key: g_age_identity(u).into(),
            user_data: g_user_data(u),
        },
    }
}

pub fn g_secret(u: &mut U) -> Secret {
    let k = u.below(15);
    if k != 0 {
        u.nontrivial = true;
    }
    g_secret_of(u, SECRET_TYPES[k])
}

pub fn g_secret_row(u: &mut U) -> SecretRow {
    let k = u.below(15);
    let kind = SECRET_TYPES[k];
    let id = u.uuid();
    let meta = g_secret_meta_of(u, kind);
    let secret = g_secret_of(u, kind);
    SecretRow::new(id, meta, secret)
}

// ---------------------------------------------------------------------------
// wire types
// ---------------------------------------------------------------------------

use sos_protocol::{
    transfer::{FileSet, FileTransfersSet},
    DiffRequest, DiffResponse, NetworkChangeEvent, PatchRequest, PatchResponse, ScanRequest,
    ScanResponse,
};
use sos_sync::{
    CreateSet, MaybeDiff, MergeOutcome, SyncCompare, SyncDiff, SyncPacket, SyncStatus,
    TrackedAccountChange, TrackedChanges, TrackedDeviceChange, TrackedFileChange,
    TrackedFolderChange, UpdateSet,
};

pub fn g_event_log_type(u: &mut U) -> EventLogType {
    match u.below(5) {
        0 => {
            u.cls("EventLogType::Identity");
            EventLogType::Identity
        }
        1 => {
            u.boundary("EventLogType::Account");
            EventLogType::Account
        }
        2 => {
            u.boundary("EventLogType::Device");
            EventLogType::Device
        }
        3 => {
            u.boundary("EventLogType::Files");
            EventLogType::Files
        }
        _ => {
            u.boundary("EventLogType::Folder");
            EventLogType::Folder(u.uuid())
        }
    }
}

pub fn g_origin(u: &mut U) -> Origin {
    Origin::new(u.string(), g_url(u))
}

pub fn g_records(u: &mut U, max: usize) -> Vec<EventRecord> {
    let n = u.count(max);
    (0..n).map(|_| g_event_record(u)).collect()
}

pub fn g_patch<T>(u: &mut U) -> Patch<T> {
    Patch::new(g_records(u, 3))
}

pub fn g_diff<T>(u: &mut U) -> Diff<T> {
    let patch = g_patch::<T>(u);
    let checkpoint = g_commit_proof(u);
    let last = if u.some() { Some(u.hash()) } else { None };
    Diff::new(patch, checkpoint, last)
}

pub fn g_maybe_diff<T>(u: &mut U) -> MaybeDiff<Diff<T>> {
    match u.below(3) {
        0 => {
            u.cls("MaybeDiff::Compare(None)");
            MaybeDiff::Compare(None)
        }
        1 => {
            u.boundary("MaybeDiff::Compare(Some)");
            MaybeDiff::Compare(Some(g_commit_state(u)))
        }
        _ => {
            u.boundary("MaybeDiff::Diff");
            MaybeDiff::Diff(g_diff::<T>(u))
        }
    }
}

fn distinct_uuid(u: &mut U, i: usize) -> Uuid {
    let mut b = u.arr::<16>();
    b[0] = i as u8;
    Uuid::from_bytes(b)
}

pub fn g_sync_status(u: &mut U) -> SyncStatus {
    let mut s = SyncStatus {
        root: u.hash(),
        identity: g_commit_state(u),
        account: g_commit_state(u),
        device: g_commit_state(u),
        files: None,
        folders: Default::default(),
    };
    if u.some() {
        u.cls("SyncStatus:files=Some");
        s.files = Some(g_commit_state(u));
    }
    let n = u.count(3);
    for i in 0..n {
        s.folders.insert(distinct_uuid(u, i), g_commit_state(u));
    }
    s
}

pub fn g_sync_compare(u: &mut U) -> SyncCompare {
    let mut c = SyncCompare::default();
    if u.some() {
        c.identity = Some(g_comparison(u));
    }
    if u.some() {
        c.account = Some(g_comparison(u));
    }
    if u.some() {
        c.device = Some(g_comparison(u));
    }
    if u.some() {
        c.files = Some(g_comparison(u));
    }
    let n = u.count(3);
    for i in 0..n {
        c.folders.insert(distinct_uuid(u, i), g_comparison(u));
    }
    c
}

pub fn g_sync_diff(u: &mut U) -> SyncDiff {
    let mut d = SyncDiff::default();
    if u.some() {
        d.identity = Some(g_maybe_diff(u));
    }
    if u.some() {
        d.account = Some(g_maybe_diff(u));
    }
    if u.some() {
        d.device = Some(g_maybe_diff(u));
    }
    if u.some() {
        d.files = Some(g_maybe_diff(u));
    }
    let n = u.count(2);
    for i in 0..n {
        d.folders.insert(distinct_uuid(u, i), g_maybe_diff(u));
    }
    d
}

pub fn g_sync_packet(u: &mut U) -> SyncPacket {
    SyncPacket {
        status: g_sync_status(u),
        diff: g_sync_diff(u),
        compare: if u.some() { Some(g_sync_compare(u)) } else { None },
    }
}

pub fn g_create_set(u: &mut U) -> CreateSet {
    let mut c = CreateSet {
        identity: g_patch(u),
        account: g_patch(u),
        device: g_patch(u),
        files: g_patch(u),
        folders: Default::default(),
    };
    let n = u.hash_count(3);
    for i in 0..n {
        c.folders.insert(distinct_uuid(u, i), g_patch(u));
    }
    if c.folders.len() >= 2 {
        u.multi_hash = true;
        u.cls("CreateSet:folders>=2");
    }
    c
}

pub fn clone_create_set(c: &CreateSet) -> CreateSet {
    CreateSet {
        identity: c.identity.clone(),
        account: c.account.clone(),
        device: c.device.clone(),
        files: c.files.clone(),
        folders: c.folders.clone(),
    }
}

pub fn g_update_set(u: &mut U) -> UpdateSet {
    let mut s = UpdateSet::default();
    if u.some() {
        s.identity = Some(g_diff(u));
    }
    if u.some() {
        s.account = Some(g_diff(u));
    }
    if u.some() {
        s.device = Some(g_diff(u));
    }
    if u.some() {
        s.files = Some(g_diff(u));
    }
    let n = u.hash_count(3);
    for i in 0..n {
        s.folders.insert(distinct_uuid(u, i), g_diff(u));
    }
    if s.folders.len() >= 2 {
        u.multi_hash = true;
        u.cls("UpdateSet:folders>=2");
    }
    s
}

pub fn g_tracked_folder_change(u: &mut U) -> TrackedFolderChange {
    match u.below(3) {
        0 => TrackedFolderChange::Created(u.uuid()),
        1 => TrackedFolderChange::Updated(u.uuid()),
        _ => TrackedFolderChange::Deleted(u.uuid()),
    }
}

pub fn g_tracked_changes(u: &mut U) -> TrackedChanges {
    let mut t = TrackedChanges::default();
    for _ in 0..u.count(3) {
        u.cls("TrackedChanges:identity");
        t.identity.insert(g_tracked_folder_change(u));
    }
    for _ in 0..u.count(3) {
        let pk = g_device_public_key(u);
        if u.bool() {
            u.cls("TrackedDeviceChange::Trusted");
            t.device.insert(TrackedDeviceChange::Trusted(pk));
        } else {
            u.cls("TrackedDeviceChange::Revoked");
            t.device.insert(TrackedDeviceChange::Revoked(pk));
        }
    }
    for _ in 0..u.count(3) {
        let id = u.uuid();
        match u.below(3) {
            0 => {
                u.cls("TrackedAccountChange::FolderCreated");
                t.account.insert(TrackedAccountChange::FolderCreated(id));
            }
            1 => {
                u.cls("TrackedAccountChange::FolderUpdated");
                t.account.insert(TrackedAccountChange::FolderUpdated(id));
            }
            _ => {
                u.cls("TrackedAccountChange::FolderDeleted");
                t.account.insert(TrackedAccountChange::FolderDeleted(id));
            }
        }
    }
    for _ in 0..u.count(3) {
        match u.below(3) {
            0 => {
                u.cls("TrackedFileChange::Created");
                t.files.insert(TrackedFileChange::Created(g_secret_path(u), g_file_name(u)));
            }
            1 => {
                u.cls("TrackedFileChange::Moved");
                t.files.insert(TrackedFileChange::Moved {
                    name: g_file_name(u),
                    from: g_secret_path(u),
                    dest: g_secret_path(u),
                });
            }
            _ => {
                u.cls("TrackedFileChange::Deleted");
                t.files.insert(TrackedFileChange::Deleted(g_secret_path(u), g_file_name(u)));
            }
        }
    }
    let n = u.hash_count(3);
    for i in 0..n {
        let mut set = indexmap::IndexSet::new();
        for _ in 0..(1 + u.below(3)) {
            set.insert(g_tracked_folder_change(u));
        }
        t.folders.insert(distinct_uuid(u, i), set);
    }
    if t.folders.len() >= 2 {
        u.multi_hash = true;
        u.cls("TrackedChanges:folders>=2");
    }
    t
}

pub fn g_merge_outcome(u: &mut U) -> MergeOutcome {
    let changes = match u.below(4) {
        0 => 0,
        1 => {
            u.boundary("MergeOutcome:changes=u64::MAX");
            u64::MAX
        }
        _ => u.u64(),
    };
    MergeOutcome { changes, tracked: g_tracked_changes(u), external_files: Default::default() }
}

pub fn g_scan_request(u: &mut U) -> ScanRequest {
    ScanRequest {
        log_type: g_event_log_type(u),
        limit: match u.below(4) {
            0 => 0,
            1 => {
                u.boundary("ScanRequest:limit=u16::MAX");
                u16::MAX
            }
            _ => u.u16(),
        },
        offset: u.size() as u64,
    }
}

pub fn g_scan_response(u: &mut U) -> ScanResponse {
    ScanResponse {
        first_proof: if u.some() { Some(g_commit_proof(u)) } else { None },
        proofs: (0..u.count(4)).map(|_| g_commit_proof(u)).collect(),
        offset: u.size() as u64,
    }
}

pub fn g_diff_request(u: &mut U) -> DiffRequest {
    DiffRequest { log_type: g_event_log_type(u), from_hash: if u.some() { Some(u.hash()) } else { None } }
}

pub fn g_diff_response(u: &mut U) -> DiffResponse {
    DiffResponse { patch: g_records(u, 4), checkpoint: g_commit_proof(u) }
}

pub fn g_patch_request(u: &mut U) -> PatchRequest {
    PatchRequest {
        log_type: g_event_log_type(u),
        commit: if u.some() { Some(u.hash()) } else { None },
        proof: g_commit_proof(u),
        patch: g_records(u, 4),
    }
}

pub fn g_checked_patch(u: &mut U) -> CheckedPatch {
    match u.below(3) {
        0 => {
            u.cls("CheckedPatch::Success");
            CheckedPatch::Success(g_commit_proof(u))
        }
        1 => {
            u.boundary("CheckedPatch::Conflict(contains=None)");
            CheckedPatch::Conflict { head: g_commit_proof(u), contains: None }
        }
        _ => {
            u.boundary("CheckedPatch::Conflict(contains=Some)");
            CheckedPatch::Conflict { head: g_commit_proof(u), contains: Some(g_commit_proof(u)) }
        }
    }
}

pub fn g_patch_response(u: &mut U) -> PatchResponse {
    PatchResponse { checked_patch: g_checked_patch(u) }
}

pub fn g_file_set(u: &mut U) -> FileSet {
    let mut s = indexmap::IndexSet::new();
    for _ in 0..u.count(4) {
        s.insert(g_external_file(u));
    }
    FileSet(s)
}

pub fn g_file_transfers_set(u: &mut U) -> FileTransfersSet {
    FileTransfersSet { uploads: g_file_set(u), downloads: g_file_set(u) }
}

pub fn g_account_id(u: &mut U) -> AccountId {
    u.arr::<20>().into()
}

pub fn g_network_change_event(u: &mut U) -> NetworkChangeEvent {
    let id = g_account_id(u);
    NetworkChangeEvent::new(&id, u.string(), u.hash(), g_merge_outcome(u))
}

pub fn g_audit_event(u: &mut U) -> sos_audit::AuditEvent {
    use sos_audit::{AuditData, AuditEvent};
    let time = u.utc();
    let k = u.below(35) as u16;
    let kind = sos_core::events::EventKind::try_from(k).unwrap_or_default();
    u.cls(format!("AuditEvent:kind#{}", k));
    let account = g_account_id(u);
    let data = match u.below(5) {
        0 => {
            u.cls("AuditData:None");
            None
        }
        1 => {
            u.boundary("AuditData::Vault");
            Some(AuditData::Vault(u.uuid()))
        }
        2 => {
            u.boundary("AuditData::Secret");
            Some(AuditData::Secret(u.uuid(), u.uuid()))
        }
        3 => {
            u.boundary("AuditData::MoveSecret");
            Some(AuditData::MoveSecret {
                from_vault_id: u.uuid(),
                from_secret_id: u.uuid(),
                to_vault_id: u.uuid(),
                to_secret_id: u.uuid(),
            })
        }
        _ => {
            u.boundary("AuditData::Device");
            Some(AuditData::Device(g_device_public_key(u)))
        }
    };
    AuditEvent::new(time, kind, account, data)
}

// ---------------------------------------------------------------------------
// equality projections
// ---------------------------------------------------------------------------

pub type EqFn<T> = fn(&T, &T) -> Result<(), String>;

pub fn eq_std<T: PartialEq + std::fmt::Debug>(a: &T, b: &T) -> Result<(), String> {
    if a == b {
        Ok(())
    } else {
        Err(format!("value: {} != {}", short(&format!("{:?}", a)), short(&format!("{:?}", b))))
    }
}

pub fn short(s: &str) -> String {
    if s.len() <= 400 {
        s.to_string()
    } else {
        let mut e = 400;
        while !s.is_char_boundary(e) {
            e -= 1;
        }
        format!("{}…[{} bytes]", &s[..e], s.len())
    }
}

/// Sort arrays stored under a `tags` key (HashSet serialisation order).
fn normalize(v: &mut Value) {
    match v {
        Value::Object(m) => {
            for (k, x) in m.iter_mut() {
                if k == "tags" {
                    if let Value::Array(a) = x {
                        a.sort_by_key(|e| e.to_string());
                    }
                }
                normalize(x);
            }
        }
        Value::Array(a) => a.iter_mut().for_each(normalize),
        _ => {}
    }
}

pub fn json_of<T: Serialize>(t: &T) -> Value {
    let mut v = serde_json::to_value(t).unwrap_or(Value::Null);
    normalize(&mut v);
    v
}

/// First differing path of two JSON values.
pub fn json_diff(a: &Value, b: &Value, path: &str) -> Option<String> {
    match (a, b) {
        (Value::Object(x), Value::Object(y)) => {
            for (k, v) in x {
                match y.get(k) {
                    None => return Some(format!("{}.{}: present vs missing", path, k)),
                    Some(w) => {
                        if let Some(d) = json_diff(v, w, &format!("{}.{}", path, k)) {
                            return Some(d);
                        }
                    }
                }
            }
            for k in y.keys() {
                if !x.contains_key(k) {
                    return Some(format!("{}.{}: missing vs present", path, k));
                }
            }
            None
        }
        (Value::Array(x), Value::Array(y)) => {
            if x.len() != y.len() {
                return Some(format!("{}: length {} vs {}", path, x.len(), y.len()));
            }
            for (i, (v, w)) in x.iter().zip(y).enumerate() {
                if let Some(d) = json_diff(v, w, &format!("{}[{}]", path, i)) {
                    return Some(d);
                }
            }
            None
        }
        _ => {
            if a == b {
                None
            } else {
                Some(format!("{}: {} vs {}", path, short(&a.to_string()), short(&b.to_string())))
            }
        }
    }
}

pub fn eq_json<T: Serialize>(a: &T, b: &T) -> Result<(), String> {
    match json_diff(&json_of(a), &json_of(b), "") {
        None => Ok(()),
        Some(d) => Err(d),
    }
}

pub fn eq_device_event(a: &DeviceEvent, b: &DeviceEvent) -> Result<(), String> {
    match (a, b) {
        (DeviceEvent::Trust(x), DeviceEvent::Trust(y)) => eq_json(x, y).map_err(|e| format!("Trust{}", e)),
        _ => eq_std(a, b),
    }
}

pub fn eq_audit_event(a: &sos_audit::AuditEvent, b: &sos_audit::AuditEvent) -> Result<(), String> {
    if a.time() != b.time() {
        return Err(format!("time: {:?} vs {:?}", a.time(), b.time()));
    }
    if a.event_kind() != b.event_kind() {
        return Err(format!("event_kind: {:?} vs {:?}", a.event_kind(), b.event_kind()));
    }
    if a.account_id() != b.account_id() {
        return Err(format!("account_id: {} vs {}", a.account_id(), b.account_id()));
    }
    if a.data() != b.data() {
        return Err(format!("data: {:?} vs {:?}", a.data(), b.data()));
    }
    Ok(())
}

pub fn eq_vault_meta(a: &VaultMeta, b: &VaultMeta) -> Result<(), String> {
    if a.date_created() != b.date_created() {
        return Err(format!("date_created: {:?} vs {:?}", a.date_created(), b.date_created()));
    }
    if a.description() != b.description() {
        return Err(format!("description: {:?} vs {:?}", a.description(), b.description()));
    }
    Ok(())
}

pub fn secret_meta_projection(m: &SecretMeta) -> Value {
    let mut tags: Vec<&String> = m.tags().iter().collect();
    tags.sort();
    json!({
        "kind": format!("{:?}", m.kind()),
        "flags": m.flags().bits(),
        "label": m.label(),
        "tags": tags,
        "favorite": m.favorite(),
        "urn": m.urn().map(|u| u.to_string()),
        "owner_id": m.owner_id(),
        "date_created": format!("{:?}", m.date_created()),
        "last_updated": format!("{:?}", m.last_updated()),
    })
}

pub fn eq_secret_meta(a: &SecretMeta, b: &SecretMeta) -> Result<(), String> {
    match json_diff(&secret_meta_projection(a), &secret_meta_projection(b), "") {
        None => Ok(()),
        Some(d) => Err(d),
    }
}

/// Projection of a secret: kind + JSON of the exposed `Serialize` impl +
/// an explicit projection of the user data (the `Serialize` impl skips user
/// data that only carries a comment, and nested metas only compare
/// kind/label/urn under the SDK's `PartialEq`).
pub fn secret_projection(s: &Secret) -> Value {
    let mut v = json_of(s);
    let ud = s.user_data();
    let fields: Vec<Value> = ud
        .fields()
        .iter()
        .map(|r| {
            json!({
                "id": r.id().to_string(),
                "meta": secret_meta_projection(r.meta()),
                "secret": secret_projection(r.secret()),
            })
        })
        .collect();
    if let Value::Object(m) = &mut v {
        m.insert("__kind".into(), json!(format!("{:?}", s.kind())));
        m.insert(
            "__user_data".into(),
            json!({ "fields": fields, "comment": ud.comment(), "recovery_note": ud.recovery_note() }),
        );
    }
    v
}

pub fn eq_secret(a: &Secret, b: &Secret) -> Result<(), String> {
    match json_diff(&secret_projection(a), &secret_projection(b), "") {
        None => Ok(()),
        Some(d) => Err(d),
    }
}

pub fn eq_secret_row(a: &SecretRow, b: &SecretRow) -> Result<(), String> {
    if a.id() != b.id() {
        return Err(format!("id: {} vs {}", a.id(), b.id()));
    }
    eq_secret_meta(a.meta(), b.meta()).map_err(|e| format!("meta{}", e))?;
    eq_secret(a.secret(), b.secret()).map_err(|e| format!("secret{}", e))
}

pub fn eq_origin(a: &Origin, b: &Origin) -> Result<(), String> {
    if a.name() != b.name() {
        return Err(format!("name: {:?} vs {:?}", a.name(), b.name()));
    }
    if a.url() != b.url() {
        return Err(format!("url: {} vs {}", a.url(), b.url()));
    }
    Ok(())
}

// ---------------------------------------------------------------------------
// the case type shared by C14 and C15
// ---------------------------------------------------------------------------

#[derive(Clone, Debug, Serialize, Deserialize, PartialEq, Eq, Hash)]
pub struct CodecCase {
    /// name of the type in the registry
    pub ty: String,
    /// entropy the value is built from
    pub entropy: Vec<u8>,
    /// `Debug` rendering of the built value (informative; ignored on replay)
    #[serde(default)]
    pub shown: String,
}

pub fn ci(u: &U) -> CaseInfo {
    CaseInfo { nontrivial: u.nontrivial, classes: u.classes.clone(), excluded: vec![], inner_evals: 0 }
}

// ---------------------------------------------------------------------------
// generic C14 checks
// ---------------------------------------------------------------------------

use crate::{ensure, fail};
use binary_stream::futures::{Decodable, Encodable};
use sos_protocol::WireEncodeDecode;

/// Stable part of a difference path (`.a.b[3].c: x vs y` -> `.a.b[].c`).
fn diff_root(d: &str) -> String {
    let head = d.split(':').next().unwrap_or("");
    let mut out = String::new();
    let mut in_br = false;
    for c in head.chars() {
        match c {
            '[' => {
                in_br = true;
                out.push('[');
            }
            ']' => {
                in_br = false;
                out.push(']');
            }
            _ if in_br => {}
            _ => out.push(c),
        }
    }
    out.chars().take(60).collect()
}

fn first_diff(a: &[u8], b: &[u8]) -> String {
    let i = a.iter().zip(b.iter()).position(|(x, y)| x != y).unwrap_or(a.len().min(b.len()));
    let w = |s: &[u8]| hex::encode(&s[i.min(s.len())..(i + 24).min(s.len())]);
    format!("lengths {} / {}, first difference at offset {}: …{} vs …{}", a.len(), b.len(), i, w(a), w(b))
}

fn hash_suffix(hash_order: bool) -> &'static str {
    if hash_order {
        "/hash-order"
    } else {
        ""
    }
}

pub fn c14_bin<T>(name: &str, entropy: &[u8], multi: bool, gen: fn(&mut U) -> T, eq: EqFn<T>) -> (CaseInfo, CheckResult)
where
    T: Encodable + Decodable + Default + Send + Sync,
{
    let mut u = U::new(entropy);
    u.allow_multi_hash = multi;
    u.allow_oversize = true;
    let x = gen(&mut u);
    let mut info = ci(&u);
    info.class(format!("type:{}", name));
    let ho = u.multi_hash;
    let mut u2 = U::new(entropy);
    u2.allow_multi_hash = multi;
    u2.allow_oversize = true;
    let x2 = gen(&mut u2);
    let r = run(async {
        let b1 = match sos_core::encode(&x).await {
            Ok(b) => b,
            Err(e) => {
                info.class(format!("encoder-rejected/{}", name));
                info.class(format!("encoder-rejected/{}: {}", name, short(&e.to_string()).chars().take(60).collect::<String>()));
                return Ok(());
            }
        };
        info.inner_evals += 1;
        let b1b = sos_core::encode(&x).await.map_err(|e| Failure::new(format!("nondeterministic/same-value/{}", name), format!("second encode of the same value failed: {e}")))?;
        ensure!(b1 == b1b, format!("nondeterministic/same-value/{}", name), "encoding the same {} value twice gave different bytes: {}", name, first_diff(&b1, &b1b));
        match sos_core::encode(&x2).await {
            Ok(b2) => {
                if b1 != b2 && ho {
                    // element order of HashMap/HashSet members: these values are never hashed
                    // (secrets are encrypted first, the sets are wire-only) - classified, not asserted
                    info.class(format!("hash-order-dependent-encoding/{}", name));
                } else {
                    ensure!(
                        b1 == b2,
                        format!("nondeterministic/rebuilt-clone/{}{}", name, hash_suffix(ho)),
                        "encoding an equal {} value rebuilt field by field gave different bytes: {}",
                        name,
                        first_diff(&b1, &b2)
                    )
                }
            }
            Err(e) => fail!(format!("nondeterministic/rebuilt-clone/{}", name), "rebuilt value was rejected by the encoder: {e}"),
        }
        let y: T = match sos_core::decode(&b1).await {
            Ok(y) => y,
            Err(e) => fail!(
                format!("decode-rejects-own-encoding/{}", name),
                "decode(encode(x)) returned an error for {}: {} (encoding: {} bytes, {})",
                name,
                e,
                b1.len(),
                short(&hex::encode(&b1[..b1.len().min(64)]))
            ),
        };
        if let Err(d) = eq(&x, &y) {
            fail!(format!("roundtrip-mismatch/{}/{}", name, diff_root(&d)), "decode(encode(x)) != x for {}: {}", name, d);
        }
        let b3 = sos_core::encode(&y).await.map_err(|e| Failure::new(format!("reencode-differs/{}", name), format!("encode(decode(encode(x))) failed: {e}")))?;
        if b1 != b3 && ho {
            info.class(format!("hash-order-dependent-encoding/{}", name));
        } else {
            ensure!(
                b1 == b3,
                format!("reencode-differs/{}{}", name, hash_suffix(ho)),
                "encode(decode(encode(x))) != encode(x) for {}: {}",
                name,
                first_diff(&b1, &b3)
            );
        }
        Ok(())
    });
    (info, r)
}

pub fn c14_wire<T>(name: &str, entropy: &[u8], multi: bool, gen: fn(&mut U) -> T, eq: EqFn<T>, dup: fn(&T) -> T) -> (CaseInfo, CheckResult)
where
    T: WireEncodeDecode + Send + 'static,
{
    let mut u = U::new(entropy);
    u.allow_multi_hash = multi;
    u.allow_oversize = true;
    let x = gen(&mut u);
    let mut info = ci(&u);
    info.class(format!("type:wire:{}", name));
    let ho = u.multi_hash;
    let mut u2 = U::new(entropy);
    u2.allow_multi_hash = multi;
    u2.allow_oversize = true;
    let x2 = gen(&mut u2);
    let name = format!("wire:{}", name);
    let r = run(async {
        let b1 = match WireEncodeDecode::encode(dup(&x)).await {
            Ok(b) => b,
            Err(e) => {
                info.class(format!("encoder-rejected/{}", name));
                info.class(format!("encoder-rejected/{}: {}", name, short(&e.to_string()).chars().take(60).collect::<String>()));
                return Ok(());
            }
        };
        info.inner_evals += 1;
        let b1b = WireEncodeDecode::encode(dup(&x)).await.map_err(|e| Failure::new(format!("nondeterministic/same-value/{}", name), format!("second encode failed: {e}")))?;
        ensure!(b1 == b1b, format!("nondeterministic/same-value/{}", name), "encoding the same {} value twice gave different bytes: {}", name, first_diff(&b1, &b1b));
        match WireEncodeDecode::encode(x2).await {
            Ok(b2) => {
                if b1 != b2 && ho {
                    // element order of HashMap/HashSet members: these values are never hashed
                    // (secrets are encrypted first, the sets are wire-only) - classified, not asserted
                    info.class(format!("hash-order-dependent-encoding/{}", name));
                } else {
                    ensure!(
                        b1 == b2,
                        format!("nondeterministic/rebuilt-clone/{}{}", name, hash_suffix(ho)),
                        "encoding an equal {} value rebuilt field by field gave different bytes: {}",
                        name,
                        first_diff(&b1, &b2)
                    )
                }
            }
            Err(e) => fail!(format!("nondeterministic/rebuilt-clone/{}", name), "rebuilt value was rejected by the encoder: {e}"),
        }
        let y: T = match <T as WireEncodeDecode>::decode(bytes::Bytes::from(b1.clone())).await {
            Ok(y) => y,
            Err(e) => fail!(
                format!("decode-rejects-own-encoding/{}", name),
                "decode(encode(x)) returned an error for {}: {} (encoding: {} bytes, {})",
                name,
                e,
                b1.len(),
                short(&hex::encode(&b1[..b1.len().min(64)]))
            ),
        };
        if let Err(d) = eq(&x, &y) {
            fail!(format!("roundtrip-mismatch/{}/{}", name, diff_root(&d)), "decode(encode(x)) != x for {}: {}", name, d);
        }
        let b3 = WireEncodeDecode::encode(y).await.map_err(|e| Failure::new(format!("reencode-differs/{}", name), format!("encode(decode(encode(x))) failed: {e}")))?;
        if b1 != b3 && ho {
            info.class(format!("hash-order-dependent-encoding/{}", name));
        } else {
            ensure!(
                b1 == b3,
                format!("reencode-differs/{}{}", name, hash_suffix(ho)),
                "encode(decode(encode(x))) != encode(x) for {}: {}",
                name,
                first_diff(&b1, &b3)
            );
        }
        Ok(())
    });
    (info, r)
}

/// Database mapping of an event record (time as RFC 3339 text, commit and
/// event bytes as blobs; `last_commit` is not stored by design).
pub fn c14_db(entropy: &[u8]) -> (CaseInfo, CheckResult) {
    use sos_database::entity::EventRecordRow;
    let mut u = U::new(entropy);
    let x = g_event_record(&mut u);
    let mut info = ci(&u);
    info.class("type:db:EventRecordRow");
    let r = (|| {
        let row = match EventRecordRow::new(&x) {
            Ok(r) => r,
            Err(e) => {
                info.class(format!("encoder-rejected/db:EventRecordRow: {}", short(&e.to_string())));
                return Ok(());
            }
        };
        let y = match EventRecord::try_from(row) {
            Ok(y) => y,
            Err(e) => fail!("decode-rejects-own-encoding/db:EventRecordRow", "EventRecord::try_from(EventRecordRow::new(r)) failed: {} (time {:?})", e, x.time()),
        };
        ensure!(y.time() == x.time(), "roundtrip-mismatch/db:EventRecordRow/time", "time {:?} became {:?}", x.time(), y.time());
        ensure!(y.commit() == x.commit(), "roundtrip-mismatch/db:EventRecordRow/commit", "commit {} became {}", x.commit(), y.commit());
        ensure!(y.event_bytes() == x.event_bytes(), "roundtrip-mismatch/db:EventRecordRow/event_bytes", "event bytes differ: {}", first_diff(x.event_bytes(), y.event_bytes()));
        // determinism: a second mapping of the same record gives the same record
        let again = EventRecordRow::new(&x)
            .ok()
            .and_then(|r| EventRecord::try_from(r).ok());
        ensure!(again.as_ref() == Some(&y), "nondeterministic/same-value/db:EventRecordRow", "mapping the same record twice gave different rows");
        Ok(())
    })();
    (info, r)
}

// ---------------------------------------------------------------------------
// registry
// ---------------------------------------------------------------------------

#[derive(Clone, Copy, Debug, PartialEq, Eq)]
pub enum Format {
    Bin,
    Wire,
    Db,
}

pub struct TypeDef {
    pub name: &'static str,
    pub family: &'static str,
    pub format: Format,
    /// C14 oracle on the value built from entropy (`bool` = allow >=2
    /// elements in hash-ordered collections)
    pub c14: fn(&[u8], bool) -> (CaseInfo, CheckResult),
    /// valid encoding of the value built from entropy (C15 seed)
    pub seed: fn(&[u8]) -> Option<Vec<u8>>,
    /// decode arbitrary bytes: Ok = a value, Err = the decoder's error
    pub decode: fn(&[u8]) -> Result<(), String>,
    /// Debug-ish rendering of the value built from entropy
    pub describe: fn(&[u8]) -> String,
}

impl TypeDef {
    /// `wire:Name` for wire types, `Name` otherwise.
    pub fn label(&self) -> String {
        match self.format {
            Format::Bin => self.name.to_string(),
            Format::Wire => format!("wire:{}", self.name),
            Format::Db => format!("db:{}", self.name),
        }
    }
}

fn seed_bin<T: Encodable + Send + Sync>(e: &[u8], gen: fn(&mut U) -> T) -> Option<Vec<u8>> {
    let x = gen(&mut U::new(e));
    run(sos_core::encode(&x)).ok()
}

fn seed_wire<T: WireEncodeDecode + Send + 'static>(e: &[u8], gen: fn(&mut U) -> T) -> Option<Vec<u8>> {
    let x = gen(&mut U::new(e));
    run(WireEncodeDecode::encode(x)).ok()
}

pub fn decode_bin<T: Decodable + Default + Send + Sync>(b: &[u8]) -> Result<(), String> {
    run(sos_core::decode::<T>(b)).map(|_| ()).map_err(|e| e.to_string())
}

pub fn decode_wire<T: WireEncodeDecode + Send + 'static>(b: &[u8]) -> Result<(), String> {
    run(<T as WireEncodeDecode>::decode(bytes::Bytes::copy_from_slice(b)))
        .map(|_| ())
        .map_err(|e| e.to_string())
}

fn describe_dbg<T: std::fmt::Debug>(e: &[u8], gen: fn(&mut U) -> T) -> String {
    short(&format!("{:?}", gen(&mut U::new(e)))).chars().take(300).collect()
}

fn describe_json<T: Serialize>(e: &[u8], gen: fn(&mut U) -> T) -> String {
    short(&json_of(&gen(&mut U::new(e))).to_string()).chars().take(300).collect()
}

macro_rules! bin {
    ($name:literal, $family:literal, $t:ty, $gen:path, $eq:path, $desc:ident) => {
        TypeDef {
            name: $name,
            family: $family,
            format: Format::Bin,
            c14: |e, m| c14_bin::<$t>($name, e, m, $gen, $eq),
            seed: |e| seed_bin::<$t>(e, $gen),
            decode: |b| decode_bin::<$t>(b),
            describe: |e| $desc::<$t>(e, $gen),
        }
    };
}

macro_rules! wire {
    ($name:literal, $family:literal, $t:ty, $gen:path, $eq:path) => {
        wire!($name, $family, $t, $gen, $eq, |t: &$t| t.clone())
    };
    ($name:literal, $family:literal, $t:ty, $gen:path, $eq:path, $dup:expr) => {
        TypeDef {
            name: $name,
            family: $family,
            format: Format::Wire,
            c14: |e, m| c14_wire::<$t>($name, e, m, $gen, $eq, $dup),
            seed: |e| seed_wire::<$t>(e, $gen),
            decode: |b| decode_wire::<$t>(b),
            describe: |e| describe_dbg::<$t>(e, $gen),
        }
    };
}

type FolderPatch = Patch<WriteEvent>;
type FolderDiff = Diff<WriteEvent>;
type FolderMaybeDiff = MaybeDiff<Diff<WriteEvent>>;

/// Every covered type.  `family` groups types into independent sub-checks.
pub fn types() -> Vec<TypeDef> {
    vec![
        // ---- binary: events
        bin!("WriteEvent", "events", WriteEvent, g_write_event, eq_std, describe_dbg),
        bin!("AccountEvent", "events", AccountEvent, g_account_event, eq_std, describe_dbg),
        bin!("DeviceEvent", "events", DeviceEvent, g_device_event, eq_device_event, describe_dbg),
        bin!("FileEvent", "events", FileEvent, g_file_event, eq_std, describe_dbg),
        bin!("EventRecord", "events", EventRecord, g_event_record, eq_std, describe_dbg),
        // ---- binary: commits and time
        bin!("CommitHash", "commit", CommitHash, g_commit_hash, eq_std, describe_dbg),
        bin!("CommitProof", "commit", CommitProof, g_commit_proof, eq_std, describe_dbg),
        bin!("CommitState", "commit", CommitState, g_commit_state, eq_std, describe_dbg),
        bin!("Comparison", "commit", Comparison, g_comparison, eq_std, describe_dbg),
        bin!("UtcDateTime", "commit", UtcDateTime, g_utc, eq_std, describe_dbg),
        // ---- binary: crypto and vault rows
        bin!("AeadPack", "crypto", AeadPack, g_aead, eq_std, describe_dbg),
        bin!("Cipher", "crypto", Cipher, g_cipher, eq_std, describe_dbg),
        bin!("KeyDerivation", "crypto", KeyDerivation, g_kdf, eq_std, describe_dbg),
        bin!("VaultEntry", "crypto", VaultEntry, g_vault_entry, eq_std, describe_dbg),
        bin!("VaultCommit", "crypto", VaultCommit, g_vault_commit, eq_std, describe_dbg),
        // ---- binary: vault file
        bin!("Vault", "vault", Vault, g_vault, eq_std, describe_dbg),
        bin!("Header", "vault", Header, g_header, eq_std, describe_dbg),
        bin!("Summary", "vault", Summary, g_summary, eq_std, describe_dbg),
        bin!("SharedAccess", "vault", SharedAccess, g_shared_access, eq_std, describe_dbg),
        bin!("VaultMeta", "vault-meta", VaultMeta, g_vault_meta, eq_vault_meta, describe_json),
        // ---- binary: audit log
        bin!("AuditEvent", "audit", sos_audit::AuditEvent, g_audit_event, eq_audit_event, describe_dbg),
        // ---- binary: secrets
        bin!("SecretMeta", "secret", SecretMeta, g_secret_meta, eq_secret_meta, describe_dbg),
        bin!("Secret", "secret", Secret, g_secret, eq_secret, describe_json),
        bin!("SecretRow", "secret", SecretRow, g_secret_row, eq_secret_row, describe_json),
        // ---- wire: core
        wire!("UtcDateTime", "wire-core", UtcDateTime, g_utc, eq_std),
        wire!("CommitHash", "wire-core", CommitHash, g_commit_hash, eq_std),
        wire!("CommitProof", "wire-core", CommitProof, g_commit_proof, eq_std),
        wire!("CommitState", "wire-core", CommitState, g_commit_state, eq_std),
        wire!("Comparison", "wire-core", Comparison, g_comparison, eq_std),
        wire!("EventRecord", "wire-core", EventRecord, g_event_record, eq_std),
        wire!("CheckedPatch", "wire-core", CheckedPatch, g_checked_patch, eq_std),
        wire!("EventLogType", "wire-core", EventLogType, g_event_log_type, eq_std),
        wire!("Origin", "wire-core", Origin, g_origin, eq_origin),
        wire!("ExternalFile", "wire-core", ExternalFile, g_external_file, eq_std),
        wire!("Patch", "wire-core", FolderPatch, g_patch::<WriteEvent>, eq_std),
        wire!("Diff", "wire-core", FolderDiff, g_diff::<WriteEvent>, eq_std),
        wire!("MaybeDiff", "wire-core", FolderMaybeDiff, g_maybe_diff::<WriteEvent>, eq_std),
        // ---- wire: sync
        wire!("SyncStatus", "wire-sync", SyncStatus, g_sync_status, eq_std),
        wire!("SyncDiff", "wire-sync", SyncDiff, g_sync_diff, eq_std),
        wire!("SyncCompare", "wire-sync", SyncCompare, g_sync_compare, eq_std),
        wire!("SyncPacket", "wire-sync", SyncPacket, g_sync_packet, eq_std),
        // ---- wire: sets with hash-ordered members
        wire!("CreateSet", "wire-sets", CreateSet, g_create_set, eq_std, clone_create_set),
        wire!("UpdateSet", "wire-sets", UpdateSet, g_update_set, eq_std),
        wire!("TrackedChanges", "wire-sets", TrackedChanges, g_tracked_changes, eq_std),
        wire!("MergeOutcome", "wire-sets", MergeOutcome, g_merge_outcome, eq_std),
        wire!("NetworkChangeEvent", "wire-sets", NetworkChangeEvent, g_network_change_event, eq_std),
        // ---- wire: request / response
        wire!("ScanRequest", "wire-rpc", ScanRequest, g_scan_request, eq_std),
        wire!("ScanResponse", "wire-rpc", ScanResponse, g_scan_response, eq_std),
        wire!("DiffRequest", "wire-rpc", DiffRequest, g_diff_request, eq_std),
        wire!("DiffResponse", "wire-rpc", DiffResponse, g_diff_response, eq_std),
        wire!("PatchRequest", "wire-rpc", PatchRequest, g_patch_request, eq_std),
        wire!("PatchResponse", "wire-rpc", PatchResponse, g_patch_response, eq_std),
        wire!("FileSet", "wire-rpc", FileSet, g_file_set, eq_std),
        wire!("FileTransfersSet", "wire-rpc", FileTransfersSet, g_file_transfers_set, eq_std),
        // ---- database row mapping
        TypeDef {
            name: "EventRecordRow",
            family: "db",
            format: Format::Db,
            c14: |e, _| c14_db(e),
            seed: |_| None,
            decode: |_| Ok(()),
            describe: |e| describe_dbg::<EventRecord>(e, g_event_record),
        },
    ]
}

/// Families whose values may contain hash-ordered collections.
pub const HASH_ORDER_FAMILIES: &[&str] = &["secret", "wire-sets"];

// ---------------------------------------------------------------------------
// sensitivity self-test (`sv codec-selftest`): the C14 oracle against
// deliberately broken codecs and the projections against single-field edits
// ---------------------------------------------------------------------------

mod mutants {
    use async_trait::async_trait;
    use binary_stream::futures::{BinaryReader, BinaryWriter, Decodable, Encodable};
    use std::io::Result;
    use tokio::io::{AsyncRead, AsyncSeek, AsyncWrite};

    /// decoder reads the two fields in the wrong order
    #[derive(Default, Debug, PartialEq, Eq)]
    pub struct Swapped(pub String, pub String);
    #[async_trait]
    impl Encodable for Swapped {
        async fn encode<W: AsyncWrite + AsyncSeek + Unpin + Send>(&self, w: &mut BinaryWriter<W>) -> Result<()> {
            w.write_string(&self.0).await?;
            w.write_string(&self.1).await?;
            Ok(())
        }
    }
    #[async_trait]
    impl Decodable for Swapped {
        async fn decode<R: AsyncRead + AsyncSeek + Unpin + Send>(&mut self, r: &mut BinaryReader<R>) -> Result<()> {
            self.1 = r.read_string().await?;
            self.0 = r.read_string().await?;
            Ok(())
        }
    }

    /// length written as u16
    #[derive(Default, Debug, PartialEq, Eq)]
    pub struct Len16(pub Vec<u8>);
    #[async_trait]
    impl Encodable for Len16 {
        async fn encode<W: AsyncWrite + AsyncSeek + Unpin + Send>(&self, w: &mut BinaryWriter<W>) -> Result<()> {
            w.write_u16(self.0.len() as u16).await?;
            w.write_bytes(&self.0).await?;
            Ok(())
        }
    }
    #[async_trait]
    impl Decodable for Len16 {
        async fn decode<R: AsyncRead + AsyncSeek + Unpin + Send>(&mut self, r: &mut BinaryReader<R>) -> Result<()> {
            let n = r.read_u16().await?;
            self.0 = r.read_bytes(n as usize).await?;
            Ok(())
        }
    }

    /// encodes the wall clock (non-deterministic)
    #[derive(Default, Debug, PartialEq, Eq)]
    pub struct Clocked(pub u8);
    #[async_trait]
    impl Encodable for Clocked {
        async fn encode<W: AsyncWrite + AsyncSeek + Unpin + Send>(&self, w: &mut BinaryWriter<W>) -> Result<()> {
            static N: std::sync::atomic::AtomicU64 = std::sync::atomic::AtomicU64::new(0);
            w.write_u8(self.0).await?;
            w.write_u64(N.fetch_add(1, std::sync::atomic::Ordering::SeqCst)).await?;
            Ok(())
        }
    }
    #[async_trait]
    impl Decodable for Clocked {
        async fn decode<R: AsyncRead + AsyncSeek + Unpin + Send>(&mut self, r: &mut BinaryReader<R>) -> Result<()> {
            self.0 = r.read_u8().await?;
            let _ = r.read_u64().await?;
            Ok(())
        }
    }
}

/// Returns the number of failed expectations (0 = the oracles are sensitive).
pub fn selftest() -> i32 {
    let mut bad = 0;
    let mut expect = |what: &str, ok: bool| {
        println!("{} {}", if ok { "ok  " } else { "FAIL" }, what);
        if !ok {
            bad += 1;
        }
    };
    // 1. the generic oracle finds a field swap, a u16 length and a non-deterministic encoder
    let found = |f: &dyn Fn(&[u8]) -> (CaseInfo, CheckResult), prefix: &str| -> bool {
        (0u32..400).any(|i| {
            let e: Vec<u8> = (0..64).map(|k| (i.wrapping_mul(2654435761).wrapping_add(k * 97) >> 7) as u8).collect();
            matches!(f(&e).1, Err(ref x) if x.signature.starts_with(prefix))
        })
    };
    expect(
        "swapped fields are reported as roundtrip-mismatch",
        found(&|e| c14_bin::<mutants::Swapped>("Swapped", e, true, |u| mutants::Swapped(u.string(), u.string()), eq_std), "roundtrip-mismatch/Swapped"),
    );
    expect(
        "a u16 length prefix is reported (payloads >= 64 KiB)",
        found(&|e| c14_bin::<mutants::Len16>("Len16", e, true, |u| mutants::Len16(u.blob()), eq_std), "roundtrip-mismatch/Len16")
            || found(&|e| c14_bin::<mutants::Len16>("Len16", e, true, |u| mutants::Len16(u.blob()), eq_std), "decode-rejects-own-encoding/Len16"),
    );
    expect(
        "a non-deterministic encoder is reported",
        found(&|e| c14_bin::<mutants::Clocked>("Clocked", e, true, |u| mutants::Clocked(u.byte()), eq_std), "nondeterministic/same-value/Clocked"),
    );
    // 2. projections see single-field edits (also inside nested custom fields)
    let e: Vec<u8> = (0..200u32).map(|k| (k * 37 + 11) as u8).collect();
    let base = g_secret_meta(&mut U::new(&e));
    let edits: Vec<(&str, Box<dyn Fn(&mut SecretMeta)>)> = vec![
        ("label", Box::new(|m| m.set_label("other".into()))),
        ("favorite", Box::new(|m| m.set_favorite(!m.favorite()))),
        ("tags", Box::new(|m| {
            m.tags_mut().insert("extra-tag".into());
        })),
        ("owner_id", Box::new(|m| m.set_owner_id(Some("someone-else".into())))),
        ("urn", Box::new(|m| m.set_urn(Some("urn:sos:selftest".parse().expect("urn"))))),
        ("flags", Box::new(|m| m.flags_mut().toggle(SecretFlags::VERIFY))),
        ("date_created", Box::new(|m| m.set_date_created(OffsetDateTime::from_unix_timestamp(12345).expect("ts").into()))),
        ("last_updated", Box::new(|m| m.set_last_updated(OffsetDateTime::from_unix_timestamp(54321).expect("ts").into()))),
    ];
    for (name, edit) in &edits {
        let mut m = base.clone();
        edit(&mut m);
        expect(&format!("SecretMeta projection sees a change of {}", name), eq_secret_meta(&base, &m).is_err());
    }
    expect("SecretMeta projection accepts an equal value", eq_secret_meta(&base, &base.clone()).is_ok());
    for kind in SECRET_TYPES {
        let a = g_secret_of(&mut U::new(&e), kind);
        let mut b = a.clone();
        // edit a nested custom field's meta (invisible to the SDK's PartialEq)
        let mut row = g_secret_row(&mut U::new(&e[3..]));
        row.meta_mut().set_favorite(true);
        let mut row2 = row.clone();
        row2.meta_mut().set_favorite(false);
        b.user_data_mut().push(row);
        let mut c = a.clone();
        c.user_data_mut().push(row2);
        expect(&format!("Secret::{:?} projection sees a nested meta edit", kind), eq_secret(&b, &c).is_err());
        expect(&format!("Secret::{:?} projection accepts a clone", kind), eq_secret(&a, &a.clone()).is_ok());
        let mut d = a.clone();
        d.user_data_mut().set_comment(Some("selftest-comment-that-differs".into()));
        expect(&format!("Secret::{:?} projection sees a comment edit", kind), eq_secret(&a, &d).is_err());
    }
    bad
}
