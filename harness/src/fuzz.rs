//! Coverage-guided tier (libFuzzer through cargo-fuzz, crate `/verif/fuzz`) for C14 and C15.
//!
//! Two targets, both thin wrappers around the oracles of the proptest tier:
//! * `decode` (C15): `input[0] % entries().len()` selects one decoder entry point of
//!   `prop_c15::entries()`, `input[1..]` is handed to `entry.run` inside the same bracket a
//!   decoder worker uses (`prop_c15::run_in_process`: counting-allocator guard
//!   `64 MiB + 16 x input`, `catch_unwind`, contained-panic detection) and judged by
//!   `prop_c15::judge` (a panic contained by `spawn_blocking` in a `wire/..` entry is a class,
//!   not a violation).  A hang is left to libFuzzer's `-timeout=` and is reported as
//!   inconclusive by `tools/fuzz.sh`.
//! * `roundtrip` (C14): `input[0] % types().len()` selects a registry type, `input[1] & 1`
//!   allows several elements per hash-ordered collection (only looked at for the families in
//!   `HASH_ORDER_FAMILIES`; always allowed elsewhere, as in `prop_c14::run`), `input[2..]` is
//!   the entropy read by the generator through [`U`]; the oracle is `prop_c14::check`.  Inputs
//!   whose value would contain a payload of 64 KiB or more are discarded (`Corpus::Reject`,
//!   no verdict): those classes belong to the proptest tier.
//!
//! A violation sets a flag and panics with `FUZZ-VIOLATION target=.. signature=.. :: message`;
//! the panic hook prints it and aborts, so libFuzzer stores the input as `crash-*`.  All other
//! panics (the ones the oracles judge) are recorded silently.  `sv fuzz-artifact` turns such an
//! artifact into a replay file (`fuzz/decode`, `fuzz/roundtrip`) by re-running it through the
//! ordinary replay code (decoder worker process, no libFuzzer, no sanitizer).
//!
//! The selector mapping depends on the order of the entry / type lists; replay files name the
//! entry / type, so they stay valid when the lists grow.  The seed corpus is regenerated from
//! the lists on every run (`sv fuzz-corpus <dir>`), never stored.
use crate::alloc_count;
use crate::engine_codec::*;
use crate::framework::*;
use crate::{prop_c14, prop_c15};
use serde_json::json;
use sha2::{Digest, Sha256};
use std::path::{Path, PathBuf};
use std::sync::atomic::{AtomicBool, Ordering};
use std::sync::OnceLock;

static FATAL: AtomicBool = AtomicBool::new(false);

struct State {
    ctx: prop_c15::Ctx,
    known_c14: Vec<String>,
    known_c15: Vec<String>,
}

fn known_signatures(property: &str) -> Vec<String> {
    load_known(property).into_iter().filter(|k| k.status == "known" && !k.signature.is_empty()).map(|k| k.signature).collect()
}

fn state() -> &'static State {
    static S: OnceLock<State> = OnceLock::new();
    S.get_or_init(|| {
        let ctx = prop_c15::Ctx::new();
        assert!(ctx.entries.len() <= 256 && ctx.types.len() <= 256, "one selector byte must be enough");
        State { ctx, known_c14: known_signatures("C14"), known_c15: known_signatures("C15") }
    })
}

/// Called once from `LLVMFuzzerInitialize` (after libfuzzer-sys installed its abort-on-panic
/// hook, which this replaces: the oracles need to observe panics).
pub fn init() {
    std::panic::set_hook(Box::new(|info| {
        if FATAL.load(Ordering::SeqCst) {
            eprintln!("{}", info);
            std::process::abort();
        }
        prop_c15::record_panic(info);
        let loc = info
            .location()
            .map(|l| {
                let f = l.file();
                format!("{}:{}", f.strip_prefix("/repo/").unwrap_or(f), l.line())
            })
            .unwrap_or_default();
        LAST_PANIC.with(|l| *l.borrow_mut() = loc);
    }));
    let _ = rt(); // build the runtime outside any allocation guard
    alloc_count::set_trip_text_fd(2);
    let _ = state();
}

fn violation(target: &str, f: &Failure) -> ! {
    FATAL.store(true, Ordering::SeqCst);
    panic!("FUZZ-VIOLATION target={} signature={} :: {}", target, f.signature, f.message)
}

// ---------------------------------------------------------------------------
// target `decode` (C15)
// ---------------------------------------------------------------------------

/// `(entry index, payload)` of a `decode` input.
pub fn decode_split<'a>(entries: &[prop_c15::Entry], data: &'a [u8]) -> Option<(usize, &'a [u8])> {
    let (sel, rest) = data.split_first()?;
    Some((*sel as usize % entries.len(), rest))
}

pub fn decode_one(data: &[u8]) {
    let st = state();
    let Some((idx, payload)) = decode_split(&st.ctx.entries, data) else {
        return;
    };
    let entry = &st.ctx.entries[idx];
    let o = prop_c15::run_in_process(entry, payload);
    let mut info = CaseInfo::default();
    if let Err(f) = prop_c15::judge(entry, payload, &o, &mut info) {
        if !st.known_c15.contains(&f.signature) {
            violation("decode", &f);
        }
    }
}

// ---------------------------------------------------------------------------
// target `roundtrip` (C14)
// ---------------------------------------------------------------------------

/// `(type index, multi, entropy)` of a `roundtrip` input.
pub fn roundtrip_split<'a>(types: &[TypeDef], data: &'a [u8]) -> Option<(usize, bool, &'a [u8])> {
    if data.len() < 2 {
        return None;
    }
    let i = data[0] as usize % types.len();
    let multi = !HASH_ORDER_FAMILIES.contains(&types[i].family) || data[1] & 1 == 1;
    Some((i, multi, &data[2..]))
}

/// Returns `false` when the input is to be kept out of the corpus: too short, or the generator
/// selected a payload class of 64 KiB or more (see [`SKIP_LARGE`]; such inputs are discarded
/// without a verdict because the value was not built as the replay would build it).
pub fn roundtrip_one(data: &[u8]) -> bool {
    let st = state();
    let Some((i, multi, entropy)) = roundtrip_split(&st.ctx.types, data) else {
        return false;
    };
    let case = CodecCase { ty: st.ctx.types[i].label(), entropy: entropy.to_vec(), shown: String::new() };
    SKIP_LARGE.store(true, Ordering::Relaxed);
    LARGE_HIT.store(false, Ordering::Relaxed);
    // `guarded`: a panic of the code under test becomes `panic@<file:line>` as in `drive`
    let (_, r) = guarded(|| prop_c14::check(&st.ctx.types, &case, multi));
    SKIP_LARGE.store(false, Ordering::Relaxed);
    if LARGE_HIT.load(Ordering::Relaxed) {
        return false;
    }
    if let Err(f) = r {
        if !st.known_c14.contains(&f.signature) {
            violation("roundtrip", &f);
        }
    }
    true
}

// ---------------------------------------------------------------------------
// `sv fuzz-corpus <dir> [max_len]`
// ---------------------------------------------------------------------------

/// Deterministic entropy (SHA-256 in counter mode over the label): no RNG involved.
fn corpus_entropy(label: &str, k: usize, len: usize) -> Vec<u8> {
    let mut out = Vec::with_capacity(len + 32);
    let mut ctr = 0u32;
    while out.len() < len {
        let mut h = Sha256::new();
        h.update(b"sv-fuzz-corpus");
        h.update(label.as_bytes());
        h.update((k as u32).to_le_bytes());
        h.update(ctr.to_le_bytes());
        out.extend_from_slice(&h.finalize());
        ctr += 1;
    }
    out.truncate(len);
    out
}

const ENTROPY_LENS: &[usize] = &[0, 6, 24, 80, 80, 200, 200, 600];

fn file_stem(s: &str) -> String {
    s.chars().map(|c| if c.is_ascii_alphanumeric() { c } else { '_' }).take(48).collect()
}

fn write_unique(dir: &Path, stem: &str, bytes: &[u8], seen: &mut std::collections::HashSet<Vec<u8>>) -> std::io::Result<bool> {
    if !seen.insert(bytes.to_vec()) {
        return Ok(false);
    }
    let h = hex::encode(&Sha256::digest(bytes)[..6]);
    std::fs::write(dir.join(format!("{stem}-{h}")), bytes)?;
    Ok(true)
}

/// Writes `<dir>/decode/*` (selector byte + a valid encoding, for every entry point and every one
/// of its seed labels) and `<dir>/roundtrip/*` (selector bytes + generator entropy, every type).
pub fn corpus_main(args: &[String]) -> i32 {
    let Some(dir) = args.first().map(PathBuf::from) else {
        eprintln!("usage: sv fuzz-corpus <dir> [max_len]");
        return 2;
    };
    let max_len: usize = args.get(1).and_then(|s| s.parse().ok()).unwrap_or(4096);
    let st = state();
    let (ddir, rdir) = (dir.join("decode"), dir.join("roundtrip"));
    if std::fs::create_dir_all(&ddir).is_err() || std::fs::create_dir_all(&rdir).is_err() {
        eprintln!("cannot create {}", dir.display());
        return 2;
    }
    let mut seen = std::collections::HashSet::new();
    let (mut nd, mut nr, mut too_long, mut uncovered) = (0usize, 0usize, 0usize, vec![]);
    for (idx, e) in st.ctx.entries.iter().enumerate() {
        let mut have = 0;
        for label in &e.seeds {
            for (k, len) in ENTROPY_LENS.iter().enumerate() {
                let entropy = corpus_entropy(label, k, *len);
                let Some(b) = prop_c15::seed_bytes(&st.ctx.types, label, &entropy) else {
                    continue;
                };
                if b.len() + 1 > max_len {
                    too_long += 1;
                    continue;
                }
                let mut input = vec![idx as u8];
                input.extend_from_slice(&b);
                match write_unique(&ddir, &format!("{:03}-{}", idx, file_stem(&e.name)), &input, &mut seen) {
                    Ok(true) => {
                        nd += 1;
                        have += 1;
                    }
                    Ok(false) => have += 1,
                    Err(err) => {
                        eprintln!("cannot write corpus file: {err}");
                        return 2;
                    }
                }
            }
        }
        if have == 0 {
            uncovered.push(e.name.clone());
        }
    }
    for (i, t) in st.ctx.types.iter().enumerate() {
        let flags: &[u8] = if HASH_ORDER_FAMILIES.contains(&t.family) { &[0, 1] } else { &[1] };
        for (k, len) in ENTROPY_LENS.iter().enumerate() {
            for m in flags {
                let mut input = vec![i as u8, *m];
                input.extend_from_slice(&corpus_entropy(&t.label(), k, *len));
                match write_unique(&rdir, &format!("{:03}-{}", i, file_stem(&t.label())), &input, &mut seen) {
                    Ok(true) => nr += 1,
                    Ok(false) => {}
                    Err(err) => {
                        eprintln!("cannot write corpus file: {err}");
                        return 2;
                    }
                }
            }
        }
    }
    println!(
        "fuzz-corpus: decode={} files for {} entry points (skipped {} above {} bytes), roundtrip={} files for {} types",
        nd,
        st.ctx.entries.len(),
        too_long,
        max_len,
        nr,
        st.ctx.types.len()
    );
    if !uncovered.is_empty() {
        eprintln!("fuzz-corpus: no seed fits for {:?}", uncovered);
        return 2;
    }
    0
}

// ---------------------------------------------------------------------------
// `sv fuzz-artifact <C14|C15> <artifact> [seed]`
// ---------------------------------------------------------------------------

/// Property, sub-check and replay case of a libFuzzer input.
pub fn case_of(property: &str, data: &[u8]) -> Option<(&'static str, serde_json::Value)> {
    let st = state();
    match property {
        "C15" => {
            let (idx, payload) = decode_split(&st.ctx.entries, data)?;
            Some((prop_c15::FUZZ_SUB, json!({ "entry": st.ctx.entries[idx].name, "bytes_hex": hex::encode(payload) })))
        }
        "C14" => {
            let (i, multi, entropy) = roundtrip_split(&st.ctx.types, data)?;
            let t = &st.ctx.types[i];
            let d = t.describe;
            let shown = std::panic::catch_unwind(|| d(entropy)).unwrap_or_default();
            Some((prop_c14::FUZZ_SUB, json!({ "ty": t.label(), "multi": multi, "entropy_hex": hex::encode(entropy), "shown": shown })))
        }
        _ => None,
    }
}

/// Converts a libFuzzer artifact into `replays/<ID>/fuzz_*.json` and re-executes it through
/// the property's `replay` (strict, no libFuzzer).  Exit 0: the violation reproduces
/// (`replay=<path> signature=<sig>` is printed); 3: converted, but the replay passes (the file
/// carries the signature `fuzz/unconfirmed/..`); 2: unusable input.
pub fn artifact_main(args: &[String]) -> i32 {
    let (Some(property), Some(file)) = (args.first(), args.get(1)) else {
        eprintln!("usage: sv fuzz-artifact <C14|C15> <artifact> [seed]");
        return 2;
    };
    let seed: u64 = args.get(2).and_then(|s| s.parse().ok()).unwrap_or(0);
    let Ok(data) = std::fs::read(file) else {
        eprintln!("cannot read {file}");
        return 2;
    };
    install_quiet_panic_hook();
    let Some((sub, case)) = case_of(property, &data) else {
        eprintln!("{file}: too short for a {property} fuzz input (or unknown property)");
        return 2;
    };
    let Some(def) = crate::registry().into_iter().find(|d| d.meta.id == property.as_str()) else {
        return 2;
    };
    let shard = Shard { property: property.clone(), tier: Tier::Quick, seed, index: 0, count: 1, known: load_known(property), strict: true };
    let (_, res) = guarded(|| (CaseInfo::default(), (def.replay)(&shard, sub, &case)));
    let (code, signature, message) = match res {
        Err(f) => (0, f.signature, f.message),
        Ok(()) => (
            3,
            format!("fuzz/unconfirmed/{}", sub.trim_start_matches("fuzz/")),
            format!("libFuzzer stored {} as a crash of the instrumented target, but the replay through the harness passes", file),
        ),
    };
    let path = write_replay(property, Tier::Quick, seed, &FoundViolation { sub: sub.to_string(), signature: signature.clone(), message: message.clone(), case });
    println!("replay={} signature={}", path.display(), signature);
    println!("  {}", message.chars().take(600).collect::<String>());
    code
}
