//! C12 — compaction and key changes keep the data and really change the key.
use crate::engine_acct::*;
use crate::framework::*;
use futures::StreamExt;
use proptest::prelude::*;
use serde::{Deserialize, Serialize};
use serde_json::Value;
use sos_account::{Account, LocalAccount};
use sos_backend::BackendTarget;
use sos_core::{
    crypto::{AccessKey, AeadPack, KeyDerivation},
    events::{EventLog, WriteEvent},
    VaultCommit, VaultEntry, VaultId,
};
use sos_vault::{AccessPoint, SecretAccess, Vault};

pub const META: PropertyMeta = PropertyMeta {
    id: "C12",
    level: "exploration",
    rule: "proptest-generated content history (1..15 account-level ops of the C01 set incl. flag, name and description edits, deletes and moves; all secret kinds) followed by a generated sequence of 1..4 rewrites drawn with repetition from {compact_folder, compact_account, change_folder_password, change_account_password, change_cipher(cipher,kdf)} on a backend x cipher x KDF cell; 0..2 further content ops (incl. folder create / delete) are applied after every rewrite without a re-login in between. Sub-check key-changes-with-folder-churn: 2..3 user folders and 1..3 secrets, then 2..5 key operations (change_folder_password, change_account_password, compact_folder) with 0..2 folder deletions / creations / secret creations after each, no re-login in between (non-trivial = a folder password change, later a folder deletion, later an account password change). After every rewrite: the account still serves exactly the model (C01 oracle), replay == memory == mirror == model for every folder (C02 oracle), a rewritten folder's log is one CreateVault plus one CreateSecret per live secret, the old folder password no longer unlocks the persisted vault while the delegated one does, no AeadPack in the folder's log or persisted vault decrypts under the old derived key, and (file system) none of the pre-change ciphertext byte strings occurs in any file of that folder; at the end a fresh instance signs in with the current account password, serves the model, and sign-in with a replaced account password fails. Non-trivial = the content history changed flags or a description and deleted or moved a secret before the rewrites. Distinct = distinct case.",
    assumptions: &[
        "sqlite is checked on the logical rows of the folder only (free pages / WAL are the storage engine's business)",
        "leftover-ciphertext scan on the file system covers files in the vaults directory whose name starts with the folder id (vault, event log, snapshots)",
    ],
};

pub fn def() -> PropertyDef {
    PropertyDef {
        meta: META,
        shards: |_| 16,
        run,
        replay,
        timeout_s: |t| t.pick(1800, 5 * 3600),
    }
}

#[derive(Clone, Debug, Serialize, Deserialize, PartialEq, Eq, Hash)]
pub struct Case {
    pub history: History,
    pub rewrites: Vec<Op>,
    /// content operations (incl. folder create / delete) applied after rewrite #i, so that
    /// rewrites are interleaved with ordinary edits without a re-login in between
    #[serde(default)]
    pub between: Vec<Vec<Op>>,
}

struct OldState {
    fid: VaultId,
    name: String,
    vault: Vault,
    key: AccessKey,
    ciphertexts: Vec<Vec<u8>>,
}

fn packs_of_vault(v: &Vault) -> Vec<AeadPack> {
    let mut out = vec![];
    if let Some(m) = v.header().meta() {
        out.push(m.clone());
    }
    for (_, VaultCommit(_, VaultEntry(a, b))) in v.iter() {
        out.push(a.clone());
        out.push(b.clone());
    }
    out
}

async fn packs_of_log(w: &AcctWorld, fid: &VaultId) -> Result<(Vec<AeadPack>, Vec<WriteEvent>), Failure> {
    let folder = w.account.folder(fid).await.map_err(hf("c12/folder-lookup-error", "Account::folder"))?;
    let log = folder.event_log();
    let log = log.read().await;
    let mut packs = vec![];
    let mut events = vec![];
    let mut s = log.event_stream(false).await;
    while let Some(r) = s.next().await {
        let (_, ev) = r.map_err(hf("c12/log-stream-error", "event_stream"))?;
        match &ev {
            WriteEvent::CreateVault(bytes) => {
                let v: Vault = sos_core::decode(bytes).await.map_err(hf("c12/create-vault-decode", "decode CreateVault"))?;
                packs.extend(packs_of_vault(&v));
            }
            WriteEvent::SetVaultMeta(p) => packs.push(p.clone()),
            WriteEvent::CreateSecret(_, VaultCommit(_, VaultEntry(a, b))) | WriteEvent::UpdateSecret(_, VaultCommit(_, VaultEntry(a, b))) => {
                packs.push(a.clone());
                packs.push(b.clone());
            }
            _ => {}
        }
        events.push(ev);
    }
    Ok((packs, events))
}

async fn capture(w: &AcctWorld, fid: &VaultId) -> Result<OldState, Failure> {
    let key = w.folder_key(fid).await?;
    let (_, m, p) = folder_views(w, fid).await?;
    let (log_packs, _) = packs_of_log(w, fid).await?;
    let mut cts: Vec<Vec<u8>> = packs_of_vault(&m).into_iter().chain(packs_of_vault(&p)).chain(log_packs).map(|p| p.ciphertext).filter(|c| c.len() >= 24).collect();
    cts.sort();
    cts.dedup();
    let name = w.model.folders.iter().find(|f| &f.id == fid).map(|f| f.name.clone()).unwrap_or_default();
    Ok(OldState { fid: *fid, name, vault: m, key, ciphertexts: cts })
}

fn contains(hay: &[u8], needle: &[u8]) -> bool {
    hay.windows(needle.len()).any(|w| w == needle)
}

async fn check_old_key_dead(w: &AcctWorld, old: &OldState, op_label: &str, password_changed: bool) -> CheckResult {
    let be = if w.cfg.db { "sqlite" } else { "fs" };
    let (_, m, p) = folder_views(w, &old.fid).await?;
    let rewritten = m.salt() != old.vault.salt() || m.cipher() != old.vault.cipher() || m.kdf() != old.vault.kdf();
    if !rewritten {
        if password_changed {
            return Err(Failure::new(
                format!("c12/{be}/password-change-kept-salt"),
                format!("[{be}] after {op_label}: folder '{}' still has the same salt, cipher and kdf", old.name),
            ));
        }
        return Ok(()); // change_cipher to the same cipher is a no-op
    }
    // the old password must not unlock the persisted vault; the delegated one must
    let new_key = w.folder_key(&old.fid).await?;
    let mut ap = AccessPoint::<sos_vault::Error>::new(p.clone());
    if password_changed {
        if ap.unlock(&old.key).await.is_ok() {
            return Err(Failure::new(
                format!("c12/{be}/old-password-still-unlocks"),
                format!("[{be}] after {op_label}: the previous password still unlocks the persisted vault of '{}'", old.name),
            ));
        }
        if new_key == old.key {
            return Err(Failure::new(format!("c12/{be}/delegated-password-not-updated"), format!("[{be}] after {op_label}: the delegated password of '{}' is unchanged", old.name)));
        }
    }
    let mut ap2 = AccessPoint::<sos_vault::Error>::new(p.clone());
    ap2.unlock(&new_key).await.map_err(|e| {
        Failure::new(format!("c12/{be}/new-password-does-not-unlock"), format!("[{be}] after {op_label}: the delegated password does not unlock the persisted vault of '{}': {e}", old.name))
    })?;
    // no pack decrypts under the old derived key
    let salt = KeyDerivation::parse_salt(old.vault.salt().cloned().unwrap_or_default()).map_err(hf("harness/salt", "old salt"))?;
    let old_pk = old.key.clone().into_private(old.vault.kdf(), &salt, old.vault.seed()).map_err(hf("harness/derive", "derive old key"))?;
    let (log_packs, _) = packs_of_log(w, &old.fid).await?;
    for (place, packs) in [("event log", log_packs), ("persisted vault", packs_of_vault(&p)), ("memory", packs_of_vault(&m))] {
        for pack in packs {
            if old.vault.decrypt(&old_pk, &pack).await.is_ok() {
                return Err(Failure::new(
                    format!("c12/{be}/blob-under-old-key-remains"),
                    format!("[{be}] after {op_label}: a blob in the {place} of '{}' still decrypts under the previous key", old.name),
                ));
            }
        }
    }
    // file system: no pre-change ciphertext left in any file of the folder
    if let BackendTarget::FileSystem(paths) = w.target().await {
        let paths = paths.with_account_id(&w.account_id);
        let dir = paths.vaults_dir().clone();
        let prefix = old.fid.to_string();
        if let Ok(rd) = std::fs::read_dir(&dir) {
            for e in rd.flatten() {
                let name = e.file_name().to_string_lossy().to_string();
                if !name.starts_with(&prefix) {
                    continue;
                }
                let bytes = std::fs::read(e.path()).unwrap_or_default();
                for ct in &old.ciphertexts {
                    if contains(&bytes, ct) {
                        return Err(Failure::new(
                            format!("c12/fs/old-ciphertext-left-in-file/{}", name.rsplit('.').next().unwrap_or("").split('-').next().unwrap_or("")),
                            format!("[fs] after {op_label}: file {name} of folder '{}' still contains a ciphertext ({} bytes) that was encrypted under the previous key", old.name, ct.len()),
                        ));
                    }
                }
            }
        }
    }
    Ok(())
}

async fn check_log_shape(w: &AcctWorld, fid: &VaultId, op_label: &str) -> CheckResult {
    let be = if w.cfg.db { "sqlite" } else { "fs" };
    let (_, events) = packs_of_log(w, fid).await?;
    let f = w.model.folders.iter().find(|f| &f.id == fid).unwrap();
    let first_ok = matches!(events.first(), Some(WriteEvent::CreateVault(_)));
    let rest_ok = events.iter().skip(1).all(|e| matches!(e, WriteEvent::CreateSecret(_, _)));
    if !first_ok || !rest_ok || events.len() != 1 + f.secrets.len() {
        return Err(Failure::new(
            format!("c12/{be}/rewritten-log-shape"),
            format!("[{be}] after {op_label}: log of '{}' has {} events ({}), expected 1 CreateVault + {} CreateSecret", f.name, events.len(),
                events.iter().map(|e| format!("{}", sos_core::events::LogEvent::event_kind(e))).collect::<Vec<_>>().join(","), f.secrets.len()),
        ));
    }
    Ok(())
}

pub fn check_case(c: &Case) -> (CaseInfo, CheckResult) {
    let mut info = CaseInfo::default();
    let r = block_on(async {
        sos_core::verif::set_clock(Some((1_700_000_000i128 * 1_000_000_000, 1_000_003)));
        let mut w = AcctWorld::new(&c.history.cfg).await?;
        let res = run_case(&mut w, c).await;
        let st = &w.stats;
        info.inner_evals = st.steps as u64;
        info.nontrivial = st.flags_or_desc_changed && st.delete_or_move;
        info.class(c.history.cfg.label());
        for cl in &st.classes {
            info.class(cl.clone());
        }
        sos_core::verif::set_clock(None);
        res
    });
    (info, r)
}

async fn run_case(w: &mut AcctWorld, c: &Case) -> CheckResult {
    for (i, op) in c.history.ops.iter().enumerate() {
        w.apply(op).await.map_err(|f| Failure::new(f.signature, format!("content op #{i} {}: {}", crate::prop_c01::op_label(op), f.message)))?;
    }
    w.check_reads("content history").await?;
    check_replay(w, "content history", true).await?;
    let first_password = w.password.clone();
    let mut account_password_changed = false;
    for (i, op) in c.rewrites.iter().enumerate() {
        let label = format!("rewrite #{i} {}", crate::prop_c01::op_label(op));
        // which folders does the op rewrite, and is it a password change
        let mut captured: Vec<OldState> = vec![];
        let mut shape: Vec<VaultId> = vec![];
        let mut password_changed = false;
        match op {
            Op::CompactFolder { folder } => {
                let fi = pick(*folder, w.model.folders.len());
                shape.push(w.model.folders[fi].id);
            }
            Op::CompactAccount => {
                shape.extend(w.model.folders.iter().map(|f| f.id));
            }
            Op::ChangeFolderPassword { folder, .. } => {
                let fi = pick(*folder, w.model.folders.len());
                let fid = w.model.folders[fi].id;
                captured.push(capture(w, &fid).await?);
                shape.push(fid);
                password_changed = true;
            }
            Op::ChangeCipher { .. } => {
                for f in w.model.folders.clone() {
                    captured.push(capture(w, &f.id).await?);
                }
            }
            Op::ChangeAccountPassword { .. } => {
                account_password_changed = true;
            }
            _ => {}
        }
        w.apply(op).await.map_err(|f| Failure::new(f.signature, format!("{label}: {}", f.message)))?;
        w.check_reads(&label).await?;
        check_replay(w, &label, true).await?;
        for old in &captured {
            check_old_key_dead(w, old, &label, password_changed).await?;
            if matches!(op, Op::ChangeCipher { .. }) {
                let (_, m, _) = folder_views(w, &old.fid).await?;
                if m.salt() != old.vault.salt() {
                    shape.push(old.fid);
                }
            }
        }
        for fid in &shape {
            check_log_shape(w, fid, &label).await?;
        }
        if let Some(ops) = c.between.get(i) {
            for (j, op) in ops.iter().enumerate() {
                w.apply(op).await.map_err(|f| Failure::new(f.signature, format!("content op #{j} after {label} {}: {}", crate::prop_c01::op_label(op), f.message)))?;
            }
            if !ops.is_empty() {
                w.check_reads(&format!("content ops after {label}")).await?;
            }
        }
    }
    // fresh instance with the current password serves the model
    w.reopen().await.map_err(|f| Failure::new(format!("c12/{}", f.signature), format!("after the rewrites: {}", f.message)))?;
    w.check_reads("fresh instance after the rewrites").await?;
    check_replay(w, "fresh instance after the rewrites", true).await?;
    if account_password_changed {
        let target = make_target(w.temp.path(), w.cfg.db).await?;
        let mut other = LocalAccount::new_unauthenticated(w.account_id, target).await.map_err(hf("c12/reopen-failed", "new_unauthenticated"))?;
        let old: AccessKey = first_password.into();
        if other.sign_in(&old).await.is_ok() {
            return Err(Failure::new("c12/old-account-password-still-signs-in", "sign_in with the replaced account password succeeded on a fresh instance"));
        }
    }
    Ok(())
}

fn case_strategy(max_ops: usize) -> impl Strategy<Value = Case> {
    (
        history_strategy(Mix::Content, max_ops),
        proptest::collection::vec(rewrite_strategy(), 1..5),
        proptest::collection::vec(proptest::collection::vec(crate::engine_acct::op_strategy(Mix::Content), 0..3), 5),
    )
        .prop_map(|(history, rewrites, between)| Case { history, rewrites, between })
}

/// Key changes mixed with folder churn: several user folders, then password changes (folder and
/// account) with folder deletions / creations in between and no re-login - the identity folder
/// gains, loses and re-orders entries while keys change.
fn churn_strategy() -> impl Strategy<Value = Case> {
    use crate::engine_acct::name_strategy;
    use crate::secrets::spec_strategy;
    let folder_op = || {
        prop_oneof![
            3 => any::<u16>().prop_map(|folder| Op::DeleteFolder { folder }),
            2 => (name_strategy(), 0u8..8).prop_map(|(name, flags)| Op::CreateFolder { name, flags }),
            2 => (any::<u16>(), spec_strategy()).prop_map(|(folder, spec)| Op::CreateSecret { folder, spec }),
        ]
    };
    let key_op = || {
        prop_oneof![
            4 => (any::<u16>(), "[a-z]{4,10}").prop_map(|(folder, password)| Op::ChangeFolderPassword { folder, password }),
            3 => "[a-z]{4,10}".prop_map(|password| Op::ChangeAccountPassword { password }),
            1 => any::<u16>().prop_map(|folder| Op::CompactFolder { folder }),
        ]
    };
    (
        crate::engine_acct::cfg_strategy(),
        proptest::collection::vec((name_strategy(), 0u8..8), 2..4),
        proptest::collection::vec((any::<u16>(), spec_strategy()), 1..4),
        proptest::collection::vec(key_op(), 2..6),
        proptest::collection::vec(proptest::collection::vec(folder_op(), 0..3), 6),
    )
        .prop_map(|(cfg, folders, secrets, rewrites, between)| {
            let mut ops: Vec<Op> = folders.into_iter().map(|(name, flags)| Op::CreateFolder { name, flags }).collect();
            ops.extend(secrets.into_iter().map(|(folder, spec)| Op::CreateSecret { folder, spec }));
            Case { history: History { cfg, ops }, rewrites, between }
        })
}

fn run(shard: &Shard, rep: &mut Report) {
    let t = shard.tier;
    drive(shard, rep, "rewrites", shard.share(t.pick(150, 2_500)), case_strategy(t.pick(15, 30)), |c| check_case(c));
    drive(shard, rep, "key-changes-with-folder-churn", shard.share(t.pick(96, 1_600)), churn_strategy(), |c| {
        let (mut info, r) = check_case(c);
        // non-trivial here: a folder password change, later a folder deletion, later an account
        // password change (the identity folder loses an entry between two key changes)
        let mut stage = 0;
        for (i, op) in c.rewrites.iter().enumerate() {
            if stage == 0 && matches!(op, Op::ChangeFolderPassword { .. }) {
                stage = 1;
            } else if stage == 2 && matches!(op, Op::ChangeAccountPassword { .. }) {
                stage = 3;
            }
            if stage == 1 && c.between.get(i).map(|b| b.iter().any(|o| matches!(o, Op::DeleteFolder { .. }))).unwrap_or(false) {
                stage = 2;
            }
        }
        info.nontrivial = stage == 3;
        if stage == 3 {
            info.class("folder-password-change/folder-delete/account-password-change");
        }
        (info, r)
    });
}

fn replay(_shard: &Shard, _sub: &str, case: &Value) -> CheckResult {
    let c: Case = from_case(case).map_err(|e| Failure::new("harness", e))?;
    check_case(&c).1
}
