//! C09 — concurrent syncs from several devices are safe in every interleaving.
//!
//! Every device's `execute_sync` runs as a task; every request of the direct
//! client parks at a gate and the harness grants one parked request at a
//! time, so the order in which requests reach the server is owned by the
//! harness.  Schedules are explored statelessly (each schedule re-creates the
//! world from copied template directories): the lexicographic DFS odometer
//! over grant choices up to a cap, plus scripts drawn by proptest.
use crate::engine_acct::AcctCfg;
use crate::engine_sync::*;
use crate::framework::*;
use crate::prop_c04::{converge, edit_strategy, ConvOutcome, Tolerate, SKEWS};
use proptest::prelude::*;
use serde::{Deserialize, Serialize};
use serde_json::{json, Value};
use sos_protocol::{AsConflict, SyncOptions};
use sos_remote_sync::AutoMerge;
use std::collections::{BTreeMap, BTreeSet};

pub const META: PropertyMeta = PropertyMeta {
    id: "C09",
    level: "exploration",
    rule: "cases: a pre-history on device 0 synced to the server, 2..3 cloned devices with 0..3 offline edits each drawn so that the case is one of {no conflict, soft conflict on a folder, soft conflict on account/identity logs, hard conflict (one device compacted a folder)}; every device then calls execute_sync concurrently. The direct client parks every request (exists, status, sync, scan, diff, patch, ...) at a gate and the harness grants exactly one parked request at a time; a schedule is the sequence of grant choices. Per case the schedules are enumerated in DFS (odometer) order up to a cap (40 quick / 600 thorough; `exhaustive` is reported per case when the whole tree fits) plus 8 scripts drawn by proptest plus the policy schedules (for every device x and every hold point in {sync, scan, diff, patch}: x runs alone up to that request and is held there while the other devices sync completely - in both orders, optionally one of them before x starts, optionally held at the same point too - then x resumes); every schedule re-executes from copied template directories. Oracle per schedule: every sync call terminates (no task left parked or unfinished) and ends in Ok or an error value; after every granted request the server's logs are read: every record ever present on the server after a request is still present at the end (no accepted event dropped), commits are the SHA-256 of their records and the in-memory trees equal storage; finally one sequential round-robin to a fixpoint must converge as in C04. Non-trivial = a request of another device was served between one device's status and its sync/patch. Distinct = distinct (case, schedule).",
    assumptions: &[
        "interleaving granularity is one whole request: the server handles a request under its per-account write lock, which is assumed (races inside a request are not explored)",
        "the tolerated C04 known findings apply to the final convergence step",
    ],
};

pub fn def() -> PropertyDef {
    PropertyDef {
        meta: META,
        shards: |_| 16,
        run,
        replay,
        timeout_s: |t| t.pick(2400, 8 * 3600),
    }
}

#[derive(Clone, Debug, Serialize, Deserialize, PartialEq, Eq, Hash)]
pub struct RaceCase {
    pub cfg: AcctCfg,
    pub server_db: bool,
    pub kind: u8,
    pub skews: Vec<u8>,
    pub offline: Vec<Vec<Edit>>,
}

#[derive(Clone, Debug, Serialize, Deserialize)]
pub struct ScheduleCase {
    pub case: RaceCase,
    pub script: Vec<u8>,
}

pub const KINDS: [&str; 4] = ["no-conflict", "soft-folder", "soft-account", "hard-compaction"];

pub struct RaceTemplate {
    pub template: Template,
    pub has_compaction: bool,
}

async fn build_template(c: &RaceCase) -> Result<RaceTemplate, Failure> {
    let mut w = SyncWorld::new(&c.cfg, c.server_db).await?;
    for e in [
        Edit::CreateSecret { folder: 0, label: "one".into(), text: "1".into() },
        Edit::CreateSecret { folder: 0, label: "two".into(), text: "2".into() },
    ] {
        apply_edit(&mut w, 0, &e).await?;
    }
    for _ in 0..2 {
        w.sync(0).await.map_err(|e| Failure::new("harness/initial-sync", format!("initial sync failed: {e}")))?;
    }
    let ndev = c.offline.len().clamp(2, 3);
    for i in 1..ndev {
        let skew = SKEWS[(c.skews.get(i - 1).copied().unwrap_or(0) % 5) as usize];
        w.clone_device(skew).await?;
    }
    for d in 0..ndev {
        for e in c.offline.get(d).cloned().unwrap_or_default() {
            apply_edit(&mut w, d, &e).await?;
        }
    }
    sos_core::verif::set_clock(None);
    let has_compaction = c.offline.iter().any(|o| o.iter().any(|e| matches!(e, Edit::CompactFolder { .. })));
    Ok(RaceTemplate { template: w.into_template().await?, has_compaction })
}

#[derive(Default)]
pub struct SchedOutcome {
    /// number of options at each step
    pub options: Vec<usize>,
    pub granted: Vec<(usize, &'static str)>,
    pub interposed: bool,
    pub errors: Vec<String>,
    /// the choice made at each step (a plain script that replays this schedule)
    pub choices: Vec<u8>,
}

/// A schedule given as segments: run device `.0` until it is parked at request `.1` ("end" =
/// until its sync call returns), then go on with the next segment. Reaches the deep, narrow
/// interleavings (one device held right before its write while others sync completely) that the
/// breadth of the DFS order and random scripts rarely hit.
pub type Policy = Vec<(usize, &'static str)>;

pub fn policies(ndev: usize) -> Vec<Policy> {
    let holds = ["sync", "scan", "diff", "patch"];
    let mut out = vec![];
    for x in 0..ndev {
        for h in holds {
            let others: Vec<usize> = (0..ndev).filter(|d| *d != x).collect();
            if others.len() == 1 {
                out.push(vec![(x, h), (others[0], "end"), (x, "end")]);
            } else {
                for (a, b) in [(others[0], others[1]), (others[1], others[0])] {
                    // a syncs completely first, then x runs up to its hold point, b syncs, x resumes
                    out.push(vec![(a, "end"), (x, h), (b, "end"), (x, "end")]);
                    // x is held first, then both others sync
                    out.push(vec![(x, h), (a, "end"), (b, "end"), (x, "end")]);
                    // both others are held too: a up to its own write, x up to h, b completes, a, x
                    out.push(vec![(a, h), (x, h), (b, "end"), (a, "end"), (x, "end")]);
                }
            }
        }
    }
    out
}

pub async fn run_schedule(t: &RaceTemplate, script: &[u8], tol: Tolerate, out: &mut SchedOutcome) -> CheckResult {
    run_schedule_with(t, script, None, tol, out).await
}

/// Run one schedule. `script[i] % options` picks the parked request granted at step i.
pub async fn run_schedule_with(t: &RaceTemplate, script: &[u8], policy: Option<&Policy>, tol: Tolerate, out: &mut SchedOutcome) -> CheckResult {
    let mut seg = 0usize;
    let mut w = SyncWorld::from_template(&t.template).await?;
    let ndev = w.devices.len();
    let (tx, mut rx) = tokio::sync::mpsc::unbounded_channel();
    for d in 0..ndev {
        w.devices[d].bridge.client.gate = Some(Gate { tx: tx.clone() });
    }
    drop(tx);
    let mut handles = vec![];
    for d in 0..ndev {
        let bridge = w.devices[d].bridge.clone();
        handles.push(Some(tokio::spawn(async move { bridge.execute_sync(&SyncOptions::default()).await })));
    }
    let mut parked: Vec<(usize, &'static str, tokio::sync::oneshot::Sender<()>)> = vec![];
    let mut finished = vec![false; ndev];
    let mut results: Vec<Option<Result<(), (bool, String)>>> = vec![None; ndev];
    let mut seen_on_server: BTreeMap<String, BTreeSet<[u8; 32]>> = BTreeMap::new();
    // events dropped by a concurrent rewind-and-patch (known finding): expected back at the end
    let mut pending_heal: BTreeMap<String, BTreeSet<[u8; 32]>> = BTreeMap::new();
    let mut transient: Option<Failure> = None;
    // per device: has it received its status and not yet sent its write
    let mut between_status_and_write = vec![false; ndev];
    let started = std::time::Instant::now();
    let mut step = 0usize;
    loop {
        // wait until every live task is parked
        loop {
            for d in 0..ndev {
                if !finished[d] {
                    if let Some(h) = &handles[d] {
                        if h.is_finished() {
                            let h = handles[d].take().unwrap();
                            finished[d] = true;
                            results[d] = Some(match h.await {
                                Ok(Ok(_)) => Ok(()),
                                Ok(Err(e)) => Err((e.is_conflict(), e.to_string())),
                                Err(join) => {
                                    return Err(Failure::new("c09/sync-call-panicked", format!("execute_sync of device {d} panicked: {join}")));
                                }
                            });
                        }
                    }
                }
            }
            while let Ok(m) = rx.try_recv() {
                parked.push(m);
            }
            let live = finished.iter().filter(|f| !**f).count();
            if parked.len() == live {
                break;
            }
            if started.elapsed().as_secs() > 60 {
                return Err(Failure::new(
                    "c09/sync-call-did-not-terminate",
                    format!("after granting {:?}: {} task(s) neither finished nor parked at a request for 60 s (parked: {:?})", out.granted, live - parked.len(), parked.iter().map(|p| (p.0, p.1)).collect::<Vec<_>>()),
                ));
            }
            tokio::task::yield_now().await;
            tokio::time::sleep(std::time::Duration::from_micros(200)).await;
        }
        if parked.is_empty() {
            break;
        }
        parked.sort_by_key(|p| p.0);
        let k = parked.len();
        out.options.push(k);
        let choice = match policy {
            None => script.get(step).copied().unwrap_or(0) as usize % k,
            Some(pol) => loop {
                match pol.get(seg) {
                    None => break 0,
                    Some((dev, until)) => {
                        if *dev >= ndev || finished[*dev] {
                            seg += 1;
                            continue;
                        }
                        match parked.iter().position(|p| p.0 == *dev) {
                            Some(ix) if *until != "end" && parked[ix].1 == *until => {
                                // hold point reached: leave the device parked there
                                seg += 1;
                                continue;
                            }
                            Some(ix) => break ix,
                            None => {
                                seg += 1;
                                continue;
                            }
                        }
                    }
                }
            },
        };
        out.choices.push(choice as u8);
        let (d, req, go) = parked.remove(choice);
        // non-trivial: another device's request is served while d2 sits between status and write
        if (0..ndev).any(|o| o != d && between_status_and_write[o]) {
            out.interposed = true;
        }
        if req == "status" {
            between_status_and_write[d] = true;
        }
        if matches!(req, "sync" | "patch" | "update") {
            between_status_and_write[d] = false;
        }
        out.granted.push((d, req));
        w.enter(d);
        let _ = go.send(());
        // let the granted task run until it parks again or finishes
        let deadline = std::time::Instant::now() + std::time::Duration::from_secs(60);
        loop {
            tokio::task::yield_now().await;
            let mut progressed = false;
            while let Ok(m) = rx.try_recv() {
                if m.0 == d {
                    progressed = true;
                }
                parked.push(m);
            }
            if handles[d].as_ref().map(|h| h.is_finished()).unwrap_or(true) {
                progressed = true;
            }
            if progressed {
                break;
            }
            if std::time::Instant::now() > deadline {
                return Err(Failure::new("c09/sync-call-did-not-terminate", format!("device {d} did not return from request {req} within 60 s (schedule {:?})", out.granted)));
            }
            tokio::time::sleep(std::time::Duration::from_micros(200)).await;
        }
        w.leave(d);
        step += 1;
        // server invariants after the request
        let sv = w.server.read().await;
        if let Some(st) = sv.storage.as_ref() {
            let logs = all_logs(st).await?;
            // no accepted event dropped: judged right after the request that drops it
            for (name, seen) in &seen_on_server {
                let Some(l) = logs.get(name) else { continue };
                let now: BTreeSet<[u8; 32]> = l.iter().map(|r| r.commit).collect();
                if let Some(missing) = seen.iter().find(|c| !now.contains(*c)) {
                    let lk = name.split(':').next().unwrap_or("");
                    let sig = if t.has_compaction && name.starts_with("folder:") && req == "sync" {
                        "c09/accepted-event-dropped-by-pushed-compaction".to_string()
                    } else if req == "patch" {
                        "c09/accepted-event-dropped-by-concurrent-rewind-and-patch".to_string()
                    } else {
                        format!("c09/accepted-event-dropped/{lk}/by-{req}")
                    };
                    let f = Failure::new(
                        sig,
                        format!("schedule {:?}: event {} was on the server's {name} log after an earlier request but request {req} of device {d} removed it", out.granted, hex::encode(&missing[..4])),
                    );
                    // a patch request that the server REFUSED must not change its logs at all
                    if req == "patch" && *w.tap.last_patch.lock().unwrap() == Some(false) {
                        return Err(Failure::new(
                            format!("c09/refused-patch-changed-server-log/{lk}"),
                            format!("schedule {:?}: the patch request of device {d} was refused (conflict / error) but event {} is gone from the server's {name} log", out.granted, hex::encode(&missing[..4])),
                        ));
                    }
                    if req == "patch" && !t.has_compaction {
                        // known finding: the drop by a concurrent rewind-and-patch is transient on the
                        // unchanged tree (the overwritten device pushes again). Keep going and judge
                        // at the end whether the event came back: a permanent loss is another defect.
                        for c in seen.iter().filter(|c| !now.contains(*c)) {
                            pending_heal.entry(name.clone()).or_default().insert(*c);
                        }
                        if transient.is_none() {
                            transient = Some(f);
                        }
                        continue;
                    }
                    return Err(f);
                }
            }
            for (name, gone) in &pending_heal {
                if let Some(seen) = seen_on_server.get_mut(name) {
                    for c in gone {
                        seen.remove(c);
                    }
                }
            }
            for (name, l) in &logs {
                let set = seen_on_server.entry(name.clone()).or_default();
                for r in l {
                    if sos_core::commit::CommitTree::hash(&r.bytes) != r.commit {
                        return Err(Failure::new("c09/server-record-hash-mismatch", format!("after {:?}: a record of the server's {name} log does not hash to its commit", out.granted)));
                    }
                    set.insert(r.commit);
                }
            }
        }
        if step > 400 {
            return Err(Failure::new("c09/sync-call-did-not-terminate", format!("more than 400 requests without all syncs finishing: {:?}", &out.granted[..20])));
        }
    }
    // every sync call ended in a value
    for d in 0..ndev {
        match &results[d] {
            Some(Ok(())) => {}
            Some(Err((conflict, e))) => out.errors.push(format!("device {d}: {}{}", if *conflict { "conflict: " } else { "" }, e.chars().take(80).collect::<String>())),
            None => return Err(Failure::new("c09/sync-call-did-not-terminate", format!("device {d} has no result"))),
        }
    }
    // no accepted event dropped + tree == storage on the server
    {
        let sv = w.server.read().await;
        if let Some(st) = sv.storage.as_ref() {
            let logs = all_logs(st).await?;
            let status = sos_sync::SyncStorage::sync_status(st).await.map_err(crate::engine_acct::hf("harness/server-status", "server status"))?;
            for (name, l) in &logs {
                let len = match name.as_str() {
                    "identity" => Some(status.identity.1.length),
                    "account" => Some(status.account.1.length),
                    "device" => Some(status.device.1.length),
                    "files" => status.files.as_ref().map(|f| f.1.length),
                    other => other.strip_prefix("folder:").and_then(|id| id.parse().ok()).and_then(|id: sos_core::VaultId| status.folders.get(&id).map(|f| f.1.length)),
                };
                if let Some(len) = len {
                    if len != l.len() {
                        return Err(Failure::new("c09/server-tree-differs-from-storage", format!("schedule {:?}: the server's in-memory tree of {name} has {len} leaves but storage has {} records", out.granted, l.len())));
                    }
                }
            }
        }
    }
    // a further sequential round converges as in C04
    for d in 0..ndev {
        w.devices[d].bridge.client.gate = None;
    }
    let mut conv = ConvOutcome::default();
    {
        let mut logs = vec![];
        for d in 0..ndev {
            let a = w.devices[d].account.lock().await;
            logs.push(all_logs(&*a).await?);
        }
        conv.has_repeats = logs.iter().any(|m| m.values().any(|l| {
            let mut s = BTreeSet::new();
            l.iter().any(|r| !s.insert(r.commit))
        }));
    }
    let r = converge(&mut w, ndev, &[], &mut conv, tol).await;
    sos_core::verif::set_clock(None);
    match r {
        Ok(()) => {
            if let Some(f) = conv.deferred.take() {
                // tolerated C04 finding: not this property's subject
                let _ = f;
            }
            if let Some(f) = transient {
                // did the transiently dropped events come back?
                let sv = w.server.read().await;
                if let Some(st) = sv.storage.as_ref() {
                    let logs = all_logs(st).await?;
                    for (name, gone) in &pending_heal {
                        let now: BTreeSet<[u8; 32]> = logs.get(name).map(|l| l.iter().map(|r| r.commit).collect()).unwrap_or_default();
                        if let Some(c) = gone.iter().find(|c| !now.contains(*c)) {
                            let lk = name.split(':').next().unwrap_or("");
                            return Err(Failure::new(
                                format!("c09/accepted-event-lost-for-good/{lk}"),
                                format!("schedule {:?}: event {} had been accepted into the server's {name} log, a concurrent rewind-and-patch removed it, and after every device synced again to a fixpoint (all syncs Ok, replicas equal) it is still gone", out.granted, hex::encode(&c[..4])),
                            ));
                        }
                    }
                }
                return Err(f);
            }
            Ok(())
        }
        Err(f) => {
            if conv.has_repeats && f.signature.starts_with("c04/") {
                return Ok(());
            }
            Err(Failure::new(format!("c09/after-race/{}", f.signature), format!("after the interleaved round {:?}: {}", out.granted, f.message)))
        }
    }
}

fn next_script(script: &[u8], options: &[usize]) -> Option<Vec<u8>> {
    // odometer over the steps that had more than one option
    let mut s: Vec<u8> = (0..options.len()).map(|i| script.get(i).copied().unwrap_or(0) % options[i].max(1) as u8).collect();
    let mut i = s.len();
    while i > 0 {
        i -= 1;
        if (s[i] as usize) + 1 < options[i] {
            s[i] += 1;
            s.truncate(i + 1);
            return Some(s);
        }
    }
    None
}

fn offline_for(kind: u8, ndev: usize, base: Vec<Vec<Edit>>) -> Vec<Vec<Edit>> {
    let mut off: Vec<Vec<Edit>> = base.into_iter().take(ndev).collect();
    while off.len() < ndev {
        off.push(vec![]);
    }
    // keep the device / file logs out (known C04 findings) and shape the case
    for o in off.iter_mut() {
        o.retain(|e| !matches!(e, Edit::TrustDevice { .. } | Edit::RevokeDevice { .. } | Edit::FileEvent { .. } | Edit::CompactFolder { .. }));
        o.truncate(3);
    }
    match kind % 4 {
        0 => {
            // only device 0 has local changes
            for o in off.iter_mut().skip(1) {
                o.clear();
            }
        }
        1 => {
            for (i, o) in off.iter_mut().enumerate() {
                o.retain(|e| e.log_class() == "folder");
                if o.is_empty() {
                    o.push(Edit::UpdateSecret { sec: 0, label: "x".into(), text: format!("d{i}") });
                }
            }
        }
        2 => {
            for (i, o) in off.iter_mut().enumerate() {
                o.retain(|e| matches!(e, Edit::RenameAccount { .. } | Edit::CreateFolder { .. } | Edit::RenameFolder { .. }));
                if o.is_empty() {
                    o.push(Edit::RenameAccount { name: if i % 2 == 0 { "x".into() } else { "y".into() } });
                }
            }
        }
        _ => {
            for (i, o) in off.iter_mut().enumerate() {
                o.retain(|e| e.log_class() == "folder");
                if o.is_empty() {
                    o.push(Edit::CreateSecret { folder: 0, label: "y".into(), text: format!("d{i}") });
                }
            }
            off[0].push(Edit::CompactFolder { folder: 0 });
        }
    }
    off
}

fn case_strategy() -> impl Strategy<Value = RaceCase> {
    (
        crate::engine_acct::cfg_strategy(),
        any::<bool>(),
        0u8..4,
        proptest::collection::vec(0u8..5, 2),
        prop_oneof![3 => Just(2usize), 1 => Just(3usize)],
        proptest::collection::vec(proptest::collection::vec(edit_strategy(), 0..4), 3),
    )
        .prop_map(|(cfg, server_db, kind, skews, ndev, base)| RaceCase { cfg, server_db, kind, skews, offline: offline_for(kind, ndev, base) })
}

struct Tally<'a> {
    shard: &'a Shard,
    rep: &'a mut Report,
    seen: BTreeSet<String>,
}

impl<'a> Tally<'a> {
    fn record(&mut self, sc: &ScheduleCase, info: &CaseInfo, res: CheckResult) {
        self.rep.record_case("schedules", hash_json(&serde_json::to_value(sc).unwrap_or(Value::Null)), info);
        if self.rep.samples.len() < 5 && (info.nontrivial || self.rep.samples.is_empty()) {
            self.rep.samples.push(json!({"sub": "schedules", "nontrivial": info.nontrivial, "kind": KINDS[(sc.case.kind % 4) as usize], "devices": sc.case.offline.len(), "offline": sc.case.offline, "script": sc.script}));
        }
        if let Err(f) = res {
            if f.signature.starts_with("harness/") {
                self.rep.notes.push(format!("{}: {}", f.signature, f.message.chars().take(160).collect::<String>()));
                return;
            }
            if self.shard.is_known(&f.signature) {
                *self.rep.known_hits.entry(f.signature.clone()).or_default() += 1;
            } else if self.seen.insert(f.signature.clone()) {
                self.rep.violations.push(FoundViolation { sub: "schedules".into(), signature: f.signature, message: f.message, case: serde_json::to_value(sc).unwrap_or(Value::Null) });
            }
        }
    }
}

fn run(shard: &Shard, rep: &mut Report) {
    let t = shard.tier;
    let cases = shard.share(t.pick(32, 240));
    let cap = t.pick(40usize, 600usize);
    let mut tally = Tally { shard, rep, seen: BTreeSet::new() };
    let mut all_exhaustive = true;
    for i in 0..cases {
        let c = sample_one(shard, &format!("case-{i}"), &case_strategy());
        // the C04 known findings are C04's business: tolerate them in the final convergence step
        let tol = Tolerate { device_log: true, repeated_head: true, new_folder: true, avoid: false };
        let template = match block_on(build_template(&c)) {
            Ok(t) => t,
            Err(f) => {
                tally.rep.notes.push(format!("case {i}: template failed: {} {}", f.signature, f.message.chars().take(120).collect::<String>()));
                continue;
            }
        };
        // DFS odometer
        let mut script: Vec<u8> = vec![];
        let mut n = 0usize;
        let mut exhausted = false;
        loop {
            let mut out = SchedOutcome::default();
            let r = block_on(run_schedule(&template, &script, tol, &mut out));
            sos_core::verif::set_clock(None);
            let mut info = CaseInfo::default();
            info.nontrivial = out.interposed;
            info.class(format!("kind/{}", KINDS[(c.kind % 4) as usize]));
            info.class(format!("devices/{}", c.offline.len()));
            if out.granted.iter().any(|g| g.1 == "scan") {
                info.class("auto-merge-during-race");
            }
            if out.granted.iter().any(|g| g.1 == "patch") {
                info.class("rewind-and-patch-request");
            }
            if !out.errors.is_empty() {
                info.class("sync-ended-in-error-value");
            }
            info.inner_evals = out.granted.len() as u64;
            let used: Vec<u8> = (0..out.options.len()).map(|i| script.get(i).copied().unwrap_or(0) % out.options[i].max(1) as u8).collect();
            tally.record(&ScheduleCase { case: c.clone(), script: used.clone() }, &info, r);
            n += 1;
            match next_script(&used, &out.options) {
                Some(s) if n < cap => script = s,
                Some(_) => break,
                None => {
                    exhausted = true;
                    break;
                }
            }
        }
        if exhausted {
            *tally.rep.classes.entry("case-schedule-tree-exhausted".into()).or_default() += 1;
        } else {
            all_exhaustive = false;
            *tally.rep.classes.entry("case-schedule-tree-capped".into()).or_default() += 1;
            // random scripts reach deeper parts of a capped tree
            for pol in policies(c.offline.len().clamp(2, 3)) {
                let mut out = SchedOutcome::default();
                let r = block_on(run_schedule_with(&template, &[], Some(&pol), tol, &mut out));
                sos_core::verif::set_clock(None);
                let mut info = CaseInfo::default();
                info.nontrivial = out.interposed;
                info.class("policy-schedule");
                if out.granted.iter().any(|g| g.1 == "patch") {
                    info.class("policy-schedule/rewind-and-patch-request");
                }
                info.inner_evals = out.granted.len() as u64;
                tally.record(&ScheduleCase { case: c.clone(), script: out.choices.clone() }, &info, r);
            }
            for j in 0..8 {
                let script = sample_one(shard, &format!("script-{i}-{j}"), &proptest::collection::vec(any::<u8>(), 40));
                let mut out = SchedOutcome::default();
                let r = block_on(run_schedule(&template, &script, tol, &mut out));
                sos_core::verif::set_clock(None);
                let mut info = CaseInfo::default();
                info.nontrivial = out.interposed;
                info.class("random-script");
                info.inner_evals = out.granted.len() as u64;
                let used: Vec<u8> = (0..out.options.len()).map(|i| script.get(i).copied().unwrap_or(0) % out.options[i].max(1) as u8).collect();
                tally.record(&ScheduleCase { case: c.clone(), script: used }, &info, r);
            }
        }
    }
    rep.exhaustive = Some(all_exhaustive);
}

fn replay(shard: &Shard, _sub: &str, case: &Value) -> CheckResult {
    let sc: ScheduleCase = from_case(case).map_err(|e| Failure::new("harness", e))?;
    let template = block_on(build_template(&sc.case))?;
    let mut out = SchedOutcome::default();
    let _ = shard;
    let tol = Tolerate { device_log: true, repeated_head: true, new_folder: true, avoid: false };
    let r = block_on(run_schedule(&template, &sc.script, tol, &mut out));
    sos_core::verif::set_clock(None);
    r
}
