//! C19 — upgrading file-system accounts to the database loses nothing.
//!
//! Sub-checks:
//! * `upgrade`        client layout: generated fs accounts (1..3 per data dir) -> dry run -> real
//!                    upgrade -> everything observable is compared with the pre-upgrade account.
//! * `upgrade-server` server layout: server-side fs accounts created from the clients' `CreateSet`
//!                    (`ServerStorage::create_account`) -> dry run -> upgrade -> compare.
//! * `differential`   one history on a fresh fs account and on a fresh sqlite account.
//! * sync part        `run_sync_part` is a hook for engine B (not built here).
use crate::engine_acct::*;
use crate::framework::*;
use crate::secrets::*;
use futures::StreamExt;
use proptest::prelude::*;
use serde::{Deserialize, Serialize};
use serde_json::{json, Value};
use sha2::{Digest, Sha256};
use sos_account::{Account, LocalAccount};
use sos_backend::{BackendTarget, Preferences, ServerOrigins};
use sos_client_storage::AccessOptions;
use sos_core::{
    commit::CommitState,
    crypto::AccessKey,
    device::{DeviceMetaData, DevicePublicKey, TrustedDevice},
    events::{DeviceEvent, EventLog},
    AccountId, ExternalFileName, Origin, Paths, RemoteOrigins, SecretId, VaultId,
};
use sos_database_upgrader::{upgrade_accounts, UpgradeOptions};
use sos_preferences::{Preference, PreferenceManager};
use sos_server_storage::{ServerAccountStorage, ServerStorage};
use sos_sync::{StorageEventLogs, SyncStatus, SyncStorage};
use sos_vault::secret::{FileContent, Secret, SecretMeta};
use std::collections::{BTreeMap, BTreeSet};
use std::path::{Path, PathBuf};
use std::sync::Arc;

pub const META: PropertyMeta = PropertyMeta {
    id: "C19",
    level: "exploration",
    rule: "upgrade: a file-system data dir with 1..3 accounts, each built by a proptest-generated content history (1..12 account-level ops of the C01 set on a cipher x KDF cell: secrets of all kinds, folders with flags, names, descriptions; optionally 1..2 rewrites (compaction, folder / account password change, cipher+KDF change); optionally a folder that is created, filled and deleted; optionally one external file secret carrying 0..2 further external files as custom-field attachments (several blobs in one secret directory); 0..3 account preferences, 0..2 global preferences, 0..3 server origins (two of them sharing their display name in about half of the cases with two or more), 0..2 extra trusted devices of which some are revoked again). Every account is signed out, upgrade_accounts runs as a dry run (every source file must stay byte-identical and present, no database file may appear, the reported account list is the created one) and then for real (keep_stale_files and backup_directory drawn per case). Every account is then opened on the sqlite backend with the same password and compared with what was recorded before the upgrade: sync_status log by log (last commit, root, length for identity, account, device, files and every folder; folder set), every log record by record (time, commit hash, event bytes), the C01 read oracle against the history's model (folders, names, flags, descriptions, every decrypted secret, deleted ids absent), the C02 oracle (replay == memory == stored rows == model), trusted devices, account and global preferences, server origins, attachment plaintext through download_file, account list and labels. upgrade-server: the same generated client accounts are turned into server-side fs accounts with ServerStorage::create_account(CreateSet) under Paths::new_server (attachment ciphertext copied into the server's files dir), then dry run + upgrade + per account: sync_status, log records, device keys, folder summaries, the replay of every server folder log decrypted with the client's folder key equal to the model, name / flags / description and secret-id set of the stored (header-only) server vaults, blob files byte-identical. differential: one generated history (1..25 ops of the C01 read mix incl. folder-level ops with caller-chosen ids, sign-out/in and fresh instances) executed step by step on a fresh fs account and a fresh sqlite account with the same cipher and KDF; after every step both pass the C01 read oracle and their models agree slot by slot (folders by creation order, secrets by creation order); at the end the two accounts are read directly and compared slot by slot (folder name, flags, description, projected meta and secret of every live secret) and the lengths of the identity, account, device, files and per-folder event logs are equal. upgrade-sync: an fs device (cipher x KDF cell) makes 0..6 generated sync-level edits and syncs with an in-process server (fs or sqlite), then makes 0..4 more edits without syncing; the device is signed out, upgraded, reopened on sqlite and put behind the same server: its sync status must be unchanged by the upgrade, its first execute_sync must succeed without entering conflict resolution (no scan request on the wire), and after syncing its status equals the server's; non-trivial = synced and unsynced edits both present. Non-trivial (upgrade, upgrade-server) = at least 2 accounts in the dir and one of them deleted a folder; non-trivial (differential) = the history deleted or moved a secret and later reopened. Distinct = distinct case.",
    assumptions: &[
        "the post-upgrade sync against a server holding the pre-upgrade state needs engine B and is not covered here (hook: run_sync_part)",
        "audit trail and system messages are imported by the upgrader but are not named by the property and are not compared",
        "upgrade cases use account-level operations only, so the known sqlite finding (one secret id live in two folders) cannot occur in a source account; the differential check skips that shape on both backends",
        "preference numbers are quarter-integers and server urls are normalised by url::Url before they are stored (JSON float printing and url normalisation are not under test)",
        "differential: roots are not compared (ciphertexts differ between two runs), only log lengths",
    ],
};

pub fn def() -> PropertyDef {
    PropertyDef {
        meta: META,
        shards: |_| 16,
        run,
        replay,
        timeout_s: |t| t.pick(1800, 6 * 3600),
    }
}

// ---------------------------------------------------------------------------
// Case data
// ---------------------------------------------------------------------------

#[derive(Clone, Debug, Serialize, Deserialize, PartialEq, Eq, Hash)]
pub enum PrefSpec {
    Bool(bool),
    /// value / 4
    Number(i16),
    Text(String),
    List(Vec<String>),
    Json(String, i16),
}

impl PrefSpec {
    fn build(&self) -> Preference {
        match self {
            PrefSpec::Bool(b) => Preference::Bool(*b),
            PrefSpec::Number(n) => Preference::Number(*n as f64 / 4.0),
            PrefSpec::Text(s) => Preference::String(s.clone()),
            PrefSpec::List(l) => Preference::StringList(l.clone()),
            PrefSpec::Json(k, v) => Preference::Json(json!({ k.as_str(): v, "nested": { "list": [1, "two", null] } })),
        }
    }
}

#[derive(Clone, Debug, Serialize, Deserialize, PartialEq, Eq, Hash)]
pub struct DevSpec {
    pub key: [u8; 32],
    pub label: String,
    pub revoke: bool,
}

#[derive(Clone, Debug, Serialize, Deserialize, PartialEq, Eq, Hash)]
pub struct AttachSpec {
    pub folder: u16,
    pub size: u16,
    pub seed: u8,
    /// further external files attached to the same secret as custom fields
    #[serde(default)]
    pub extra: u8,
}

#[derive(Clone, Debug, Serialize, Deserialize, PartialEq, Eq, Hash)]
pub struct ServerSpec {
    pub name: String,
    pub host: String,
    pub port: Option<u16>,
    pub path: String,
}

impl ServerSpec {
    fn origin(&self) -> Option<Origin> {
        let port = self.port.map(|p| format!(":{p}")).unwrap_or_default();
        let url: url::Url = format!("https://{}.example.com{}/{}", self.host, port, self.path).parse().ok()?;
        Some(Origin::new(self.name.clone(), url))
    }
}

#[derive(Clone, Debug, Serialize, Deserialize, PartialEq, Eq, Hash)]
pub struct AccountPlan {
    pub history: History,
    /// rewrites applied after the content history (compaction, password and cipher changes)
    #[serde(default)]
    pub rewrites: Vec<Op>,
    /// create a folder (name, flag choice), put a secret in it, delete it
    pub deleted_folder: Option<(String, u8)>,
    pub prefs: Vec<(String, PrefSpec)>,
    pub servers: Vec<ServerSpec>,
    pub devices: Vec<DevSpec>,
    pub attachment: Option<AttachSpec>,
}

#[derive(Clone, Debug, Serialize, Deserialize, PartialEq, Eq, Hash)]
pub struct UpgradeCase {
    pub accounts: Vec<AccountPlan>,
    pub global_prefs: Vec<(String, PrefSpec)>,
    pub keep_stale_files: bool,
    pub backup: bool,
}

fn pref_strategy() -> impl Strategy<Value = (String, PrefSpec)> {
    (
        "[a-z]{1,6}(\\.[a-z]{1,6})?",
        prop_oneof![
            any::<bool>().prop_map(PrefSpec::Bool),
            any::<i16>().prop_map(PrefSpec::Number),
            "[ -~]{0,16}|\\PC{0,6}".prop_map(PrefSpec::Text),
            proptest::collection::vec("[a-z]{0,6}", 0..3).prop_map(PrefSpec::List),
            ("[a-z]{1,5}", any::<i16>()).prop_map(|(k, v)| PrefSpec::Json(k, v)),
        ],
    )
}

fn server_strategy() -> impl Strategy<Value = ServerSpec> {
    ("[ -~]{0,12}|\\PC{1,5}", "[a-z]{1,8}", proptest::option::of(1024u16..60000), "[a-z0-9]{0,6}").prop_map(|(name, host, port, path)| ServerSpec { name, host, port, path })
}

fn plan_strategy(max_ops: usize, attach_weight: u32) -> impl Strategy<Value = AccountPlan> {
    (
        history_strategy(Mix::Content, max_ops),
        prop_oneof![
            7 => Just(vec![]),
            3 => proptest::collection::vec(rewrite_strategy(), 1..3),
        ],
        proptest::option::weighted(0.45, ("[a-z]{1,8}", 0u8..8)),
        proptest::collection::vec(pref_strategy(), 0..4),
        proptest::collection::vec(server_strategy(), 0..4),
        proptest::collection::vec((any::<[u8; 32]>(), "[a-z]{1,8}", any::<bool>()).prop_map(|(key, label, revoke)| DevSpec { key, label, revoke }), 0..3),
        prop_oneof![
            (100 - attach_weight) => Just(None),
            attach_weight => (any::<u16>(), 0u16..3000, any::<u8>(), prop_oneof![2 => Just(0u8), 2 => Just(1u8), 1 => Just(2u8)]).prop_map(|(folder, size, seed, extra)| Some(AttachSpec { folder, size, seed, extra })),
        ],
    )
        .prop_map(|(mut history, rewrites, deleted_folder, prefs, mut servers, devices, attachment)| {
            history.cfg.db = false;
            // a server's name is a free display label: give two different servers the same one
            // in about half of the cases that have two or more
            if servers.len() >= 2 && servers[1].host.len() % 2 == 0 && servers[0].host != servers[1].host {
                servers[1].name = servers[0].name.clone();
            }
            AccountPlan { history, rewrites, deleted_folder, prefs, servers, devices, attachment }
        })
}

fn upgrade_strategy(max_ops: usize, attach_weight: u32) -> impl Strategy<Value = UpgradeCase> {
    (
        prop_oneof![
            2 => proptest::collection::vec(plan_strategy(max_ops, attach_weight), 1..2),
            5 => proptest::collection::vec(plan_strategy(max_ops, attach_weight), 2..3),
            2 => proptest::collection::vec(plan_strategy(max_ops, attach_weight), 3..4),
        ],
        proptest::collection::vec(pref_strategy(), 0..3),
        any::<bool>(),
        prop_oneof![4 => Just(false), 1 => Just(true)],
    )
        .prop_map(|(accounts, global_prefs, keep_stale_files, backup)| UpgradeCase { accounts, global_prefs, keep_stale_files, backup })
}

// ---------------------------------------------------------------------------
// Observations
// ---------------------------------------------------------------------------

/// One event record: (time, commit hash, sha256 of the event bytes).
type Rec = (String, String, String);

#[derive(Clone, Debug, PartialEq, Eq)]
struct LogState {
    last: String,
    root: String,
    length: usize,
}

fn log_state(s: &CommitState) -> LogState {
    LogState { last: s.0.to_string(), root: s.1.root().to_string(), length: s.1.len() }
}

/// Canonical form of a `SyncStatus`: log name -> state. Folder logs are named `folder:<id>`.
fn status_map(s: &SyncStatus) -> BTreeMap<String, LogState> {
    let mut m = BTreeMap::new();
    m.insert("identity".to_string(), log_state(&s.identity));
    m.insert("account".to_string(), log_state(&s.account));
    m.insert("device".to_string(), log_state(&s.device));
    if let Some(f) = &s.files {
        m.insert("files".to_string(), log_state(f));
    }
    for (id, st) in &s.folders {
        m.insert(format!("folder:{id}"), log_state(st));
    }
    m
}

fn log_class(name: &str) -> &str {
    if name.starts_with("folder:") {
        "folder"
    } else {
        name
    }
}

async fn records_of<T, L>(log: &L) -> Result<Vec<Rec>, String>
where
    T: Default + binary_stream::futures::Encodable + binary_stream::futures::Decodable + Send + Sync + 'static,
    L: EventLog<T>,
{
    let mut out = vec![];
    let mut s = log.record_stream(false).await;
    while let Some(r) = s.next().await {
        let r = r.map_err(|e| format!("record_stream: {e}"))?;
        out.push((r.time().to_rfc3339().unwrap_or_default(), r.commit().to_string(), hex::encode(Sha256::digest(r.event_bytes()))));
    }
    Ok(out)
}

/// Every record of every log of a storage, keyed like `status_map`.
async fn all_records<S: StorageEventLogs>(s: &S) -> Result<BTreeMap<String, Vec<Rec>>, String> {
    let mut m = BTreeMap::new();
    macro_rules! put {
        ($name:expr, $log:expr) => {{
            let log = $log.map_err(|e| format!("{}: {e}", $name))?;
            let log = log.read().await;
            m.insert($name.to_string(), records_of(&*log).await?);
        }};
    }
    put!("identity", s.identity_log().await);
    put!("account", s.account_log().await);
    put!("device", s.device_log().await);
    put!("files", s.file_log().await);
    let folders = s.folder_details().await.map_err(|e| format!("folder_details: {e}"))?;
    for f in folders {
        put!(format!("folder:{}", f.id()), s.folder_log(f.id()).await);
    }
    Ok(m)
}

fn compare_status(before: &BTreeMap<String, LogState>, after: &BTreeMap<String, LogState>, who: &str) -> CheckResult {
    let kb: BTreeSet<&String> = before.keys().filter(|k| k.starts_with("folder:")).collect();
    let ka: BTreeSet<&String> = after.keys().filter(|k| k.starts_with("folder:")).collect();
    if kb != ka {
        return Err(Failure::new(
            "c19/status-differs/folder-set",
            format!("{who}: sync_status lists folders {:?} after the upgrade, before it listed {:?}", ka, kb),
        ));
    }
    for (name, b) in before {
        match after.get(name) {
            None => {
                return Err(Failure::new(
                    format!("c19/status-differs/{}", log_class(name)),
                    format!("{who}: log {name} had {} events before the upgrade and is absent from sync_status afterwards", b.length),
                ))
            }
            Some(a) if a != b => {
                let what = if a.length != b.length {
                    "length"
                } else if a.root != b.root {
                    "root"
                } else {
                    "last-commit"
                };
                return Err(Failure::new(
                    format!("c19/status-differs/{}/{what}", log_class(name)),
                    format!("{who}: log {name}: before (len {}, root {}, last {}) after (len {}, root {}, last {})", b.length, b.root, b.last, a.length, a.root, a.last),
                ));
            }
            _ => {}
        }
    }
    for name in after.keys() {
        if !before.contains_key(name) {
            return Err(Failure::new(
                format!("c19/status-differs/{}", log_class(name)),
                format!("{who}: log {name} appears in sync_status only after the upgrade"),
            ));
        }
    }
    Ok(())
}

fn compare_records(before: &BTreeMap<String, Vec<Rec>>, after: &BTreeMap<String, Vec<Rec>>, who: &str) -> CheckResult {
    for (name, b) in before {
        let empty = vec![];
        let a = after.get(name).unwrap_or(&empty);
        if a.len() != b.len() {
            return Err(Failure::new(
                format!("c19/events-differ/{}/count", log_class(name)),
                format!("{who}: log {name} has {} records after the upgrade, {} before", a.len(), b.len()),
            ));
        }
        for (i, (x, y)) in b.iter().zip(a.iter()).enumerate() {
            if x.1 != y.1 {
                let reordered = a.iter().any(|r| r.1 == x.1);
                return Err(Failure::new(
                    format!("c19/events-differ/{}/{}", log_class(name), if reordered { "order" } else { "commit" }),
                    format!("{who}: log {name} record #{i}: commit {} before, {} after", x.1, y.1),
                ));
            }
            if x.2 != y.2 {
                return Err(Failure::new(
                    format!("c19/events-differ/{}/bytes", log_class(name)),
                    format!("{who}: log {name} record #{i} (commit {}): event bytes differ (sha256 {} vs {})", x.1, x.2, y.2),
                ));
            }
            if x.0 != y.0 {
                return Err(Failure::new(
                    format!("c19/events-differ/{}/time", log_class(name)),
                    format!("{who}: log {name} record #{i} (commit {}): time {} before, {} after", x.1, x.0, y.0),
                ));
            }
        }
    }
    Ok(())
}

fn device_set(devices: impl IntoIterator<Item = TrustedDevice>) -> BTreeMap<String, Value> {
    devices
        .into_iter()
        .map(|d| (d.public_key().to_string(), serde_json::to_value(&d).unwrap_or(Value::Null)))
        .collect()
}

fn pref_map<'a>(it: impl Iterator<Item = (&'a String, &'a Preference)>) -> BTreeMap<String, Value> {
    it.map(|(k, v)| (k.clone(), serde_json::to_value(v).unwrap_or(Value::Null))).collect()
}

async fn read_prefs(target: BackendTarget, id: Option<&AccountId>) -> Result<BTreeMap<String, Value>, String> {
    let mut p = Preferences::new(target);
    match id {
        None => {
            p.load_global_preferences().await.map_err(|e| format!("load_global_preferences: {e}"))?;
            let g = p.global_preferences();
            let g = g.lock().await;
            Ok(pref_map(g.iter()))
        }
        Some(id) => {
            p.new_account(id).await.map_err(|e| format!("load account preferences: {e}"))?;
            let a = p.account_preferences(id).await.ok_or_else(|| "no account preferences".to_string())?;
            let a = a.lock().await;
            Ok(pref_map(a.iter()))
        }
    }
}

async fn read_servers(target: BackendTarget, id: &AccountId) -> Result<BTreeSet<(String, String)>, String> {
    let o = ServerOrigins::new(target, id);
    let set = o.list_servers().await.map_err(|e| format!("list_servers: {e}"))?;
    Ok(set.into_iter().map(|o| (o.url().to_string(), o.name().to_string())).collect())
}

fn tree_hashes(root: &Path) -> BTreeMap<String, String> {
    let mut m = BTreeMap::new();
    for e in walkdir::WalkDir::new(root).into_iter().flatten() {
        if e.file_type().is_file() {
            let rel = e.path().strip_prefix(root).unwrap_or(e.path()).to_string_lossy().to_string();
            let bytes = std::fs::read(e.path()).unwrap_or_default();
            m.insert(rel, hex::encode(Sha256::digest(&bytes)));
        }
    }
    m
}

fn attachment_bytes(a: &AttachSpec) -> Vec<u8> {
    let h = Sha256::digest([a.seed]);
    (0..a.size as usize).map(|i| h[i % 32] ^ (i as u8).wrapping_mul(13)).collect()
}

// ---------------------------------------------------------------------------
// Building the source accounts
// ---------------------------------------------------------------------------

struct Attachment {
    folder: VaultId,
    secret: SecretId,
    file_name: ExternalFileName,
    plain: Vec<u8>,
}

/// Everything recorded about one account before the upgrade.
struct Before {
    account_id: AccountId,
    label: String,
    cfg: AcctCfg,
    password: secrecy::SecretString,
    model: Model,
    status: BTreeMap<String, LogState>,
    records: BTreeMap<String, Vec<Rec>>,
    devices: BTreeMap<String, Value>,
    prefs: BTreeMap<String, Value>,
    servers: BTreeSet<(String, String)>,
    attachments: Vec<Attachment>,
    folder_keys: BTreeMap<VaultId, AccessKey>,
    deleted_folder: bool,
    /// log whose state differed between the long-lived and a fresh instance (not asserted)
    stale_live_status: Option<String>,
    stats: HistStats,
}

fn h<E: std::fmt::Display>(what: &str) -> impl FnOnce(E) -> Failure + '_ {
    move |e| Failure::new("harness/c19-setup", format!("{what}: {e}"))
}

async fn build_account(temp: Arc<tempfile::TempDir>, plain_dir: &Path, index: usize, plan: &AccountPlan) -> Result<(AcctWorld, Before), Failure> {
    let mut cfg = plan.history.cfg.clone();
    cfg.db = false;
    let label = format!("account-{index}");
    let mut w = AcctWorld::new_in(temp, &cfg, &label).await?;
    for (i, op) in plan.history.ops.iter().enumerate() {
        w.apply(op).await.map_err(|f| Failure::new(f.signature, format!("[source account {index}] op #{i} {}: {}", crate::prop_c01::op_label(op), f.message)))?;
    }
    for (i, op) in plan.rewrites.iter().enumerate() {
        w.apply(op).await.map_err(|f| Failure::new(f.signature, format!("[source account {index}] rewrite #{i} {}: {}", crate::prop_c01::op_label(op), f.message)))?;
    }
    if let Some((name, flags)) = &plan.deleted_folder {
        let spec = SecretSpec { kind: 0, label: "doomed".into(), tags: vec![], favorite: false, a: "gone with its folder".into(), b: String::new(), big: 0, comment: None, recovery: None, fields: 0, opt: false };
        for op in [Op::CreateFolder { name: name.clone(), flags: *flags }, Op::CreateSecret { folder: u16::MAX, spec }, Op::DeleteFolder { folder: u16::MAX }] {
            w.apply(&op).await.map_err(|f| Failure::new(f.signature, format!("[source account {index}] deleted-folder tail {}: {}", crate::prop_c01::op_label(&op), f.message)))?;
        }
    }
    // one external file attachment
    let mut attachments = vec![];
    if let Some(a) = &plan.attachment {
        let plain = attachment_bytes(a);
        let path = plain_dir.join(format!("attachment-{index}.txt"));
        std::fs::write(&path, &plain).map_err(h("write attachment source"))?;
        let fi = pick(a.folder, w.model.folders.len());
        let fid = w.model.folders[fi].id;
        let secret: Secret = path.clone().try_into().map_err(h("Secret from path"))?;
        let mut meta = SecretMeta::new(format!("attachment {index}"), secret.kind());
        meta.set_favorite(a.seed % 2 == 0);
        let res = w
            .account
            .create_secret(meta, secret, AccessOptions { folder: Some(fid), ..Default::default() })
            .await
            .map_err(|e| Failure::new("c19/source/create-file-secret-error", format!("[source account {index}] create_secret(external file, {} bytes): {e}", plain.len())))?;
        // the reference is what the file-system account serves
        let (row, _) = w.account.read_secret(&res.id, Some(&fid)).await.map_err(|e| Failure::new("c19/source/read-file-secret-error", format!("[source account {index}] read_secret of the file secret: {e}")))?;
        let Secret::File { content: FileContent::External { checksum, .. }, .. } = row.secret() else {
            return Err(Failure::new("c19/source/file-secret-not-external", format!("[source account {index}] a secret created from a path is not stored as an external file")));
        };
        let file_name = ExternalFileName::from(checksum);
        let got = crate::engine_acct::download_file_retry(&w.account, &fid, &res.id, &file_name).await.map_err(|e| Failure::new("c19/source/download-error", format!("[source account {index}] download_file on the file system: {e}")))?;
        if got != plain {
            return Err(Failure::new("c19/source/download-differs", format!("[source account {index}] download_file on the file system returns {} bytes, {} written", got.len(), plain.len())));
        }
        attachments.push(Attachment { folder: fid, secret: res.id, file_name, plain });
        // further external files on the same secret (custom fields): several blobs in one
        // secret directory
        let mut row = row;
        for k in 0..a.extra {
            let extra = AttachSpec { folder: a.folder, size: a.size / 2 + 17 * (k as u16 + 1), seed: a.seed.wrapping_add(101).wrapping_add(k), extra: 0 };
            let plain = attachment_bytes(&extra);
            let path = plain_dir.join(format!("attachment-{index}-extra-{k}.txt"));
            std::fs::write(&path, &plain).map_err(h("write attachment source"))?;
            let fsecret: Secret = path.clone().try_into().map_err(h("Secret from path"))?;
            let fmeta = SecretMeta::new(format!("extra {k}"), fsecret.kind());
            let field_id = uuid::Uuid::from_bytes({
                let d = Sha256::digest([b'f', index as u8, k, a.seed]);
                let mut b = [0u8; 16];
                b.copy_from_slice(&d[..16]);
                b
            });
            row.secret_mut().add_field(sos_vault::secret::SecretRow::new(field_id, fmeta, fsecret));
            w.account
                .update_secret(&res.id, row.meta().clone(), Some(row.secret().clone()), AccessOptions { folder: Some(fid), ..Default::default() })
                .await
                .map_err(|e| Failure::new("c19/source/add-attachment-error", format!("[source account {index}] update_secret(add file attachment): {e}")))?;
            let (r2, _) = w.account.read_secret(&res.id, Some(&fid)).await.map_err(|e| Failure::new("c19/source/read-file-secret-error", format!("[source account {index}] read_secret after adding an attachment: {e}")))?;
            row = r2;
            let field = row.secret().user_data().fields().iter().find(|f| f.id() == &field_id).ok_or_else(|| Failure::new("c19/source/attachment-field-missing", "the added attachment field is not served"))?;
            let Secret::File { content: FileContent::External { checksum, .. }, .. } = field.secret() else {
                return Err(Failure::new("c19/source/file-secret-not-external", format!("[source account {index}] an attachment created from a path is not stored as an external file")));
            };
            let file_name = ExternalFileName::from(checksum);
            let got = crate::engine_acct::download_file_retry(&w.account, &fid, &res.id, &file_name).await.map_err(|e| Failure::new("c19/source/download-error", format!("[source account {index}] download_file of an attachment on the file system: {e}")))?;
            if got != plain {
                return Err(Failure::new("c19/source/download-differs", format!("[source account {index}] download_file of an attachment returns {} bytes, {} written", got.len(), plain.len())));
            }
            attachments.push(Attachment { folder: fid, secret: res.id, file_name, plain });
        }
        let spec = SecretSpec { kind: 1, label: format!("attachment {index}"), tags: vec![], favorite: false, a: String::new(), b: String::new(), big: 0, comment: None, recovery: None, fields: 0, opt: false };
        w.model.folders[fi].secrets.push(MSecret { id: res.id, meta: proj_meta(row.meta()), secret: proj_secret(row.secret()), spec });
    }
    // trusted devices
    for (i, d) in plan.devices.iter().enumerate() {
        let meta: DeviceMetaData = serde_json::from_value(json!({"hardware": {"name": d.label, "index": i}})).map_err(h("device meta"))?;
        let date = time::OffsetDateTime::from_unix_timestamp(1_690_000_000 + i as i64).unwrap();
        let dev = TrustedDevice::new(DevicePublicKey::from(d.key), Some(meta), Some(date));
        w.account
            .patch_devices_unchecked(&[DeviceEvent::Trust(dev)])
            .await
            .map_err(|e| Failure::new("c19/source/trust-device-error", format!("[source account {index}] patch_devices_unchecked(Trust): {e}")))?;
    }
    for d in plan.devices.iter().filter(|d| d.revoke) {
        w.account
            .revoke_device(&DevicePublicKey::from(d.key))
            .await
            .map_err(|e| Failure::new("c19/source/revoke-device-error", format!("[source account {index}] revoke_device: {e}")))?;
    }
    // preferences and server origins
    let target = w.target().await;
    if !plan.prefs.is_empty() {
        let p = Preferences::new(target.clone());
        p.new_account(&w.account_id).await.map_err(h("preferences new_account"))?;
        let a = p.account_preferences(&w.account_id).await.ok_or_else(|| Failure::new("harness/c19-setup", "no account preferences"))?;
        let mut a = a.lock().await;
        for (k, v) in &plan.prefs {
            a.insert(k.clone(), v.build()).await.map_err(|e| Failure::new("c19/source/insert-preference-error", format!("[source account {index}] insert preference {k}: {e}")))?;
        }
    }
    if !plan.servers.is_empty() {
        let mut o = ServerOrigins::new(target.clone(), &w.account_id);
        for s in &plan.servers {
            if let Some(origin) = s.origin() {
                o.add_server(origin).await.map_err(|e| Failure::new("c19/source/add-server-error", format!("[source account {index}] add_server: {e}")))?;
            }
        }
    }
    // the source account must be sound before anything is said about the upgrade
    w.check_reads(&format!("building source account {index}")).await?;
    check_replay(&w, &format!("building source account {index}"), true).await?;

    // The reference is the account as stored: a fresh instance on the same storage. The
    // long-lived instance can report a stale identity log (after change_account_password the
    // storage keeps the pre-change identity log handle); that is recorded as a class, not asserted.
    let live = status_map(&w.account.sync_status().await.map_err(h("sync_status of the source account"))?);
    w.reopen().await.map_err(|f| Failure::new(f.signature, format!("[source account {index}] fresh instance before the upgrade: {}", f.message)))?;
    let status = w.account.sync_status().await.map_err(h("sync_status of the source account (fresh instance)"))?;
    let stale_live_status = {
        let fresh = status_map(&status);
        fresh.iter().find(|(k, v)| live.get(*k) != Some(*v)).map(|(k, _)| log_class(k).to_string())
    };
    let records = all_records(&w.account).await.map_err(h("records of the source account"))?;
    let devices = device_set(w.account.trusted_devices().await.map_err(h("trusted_devices of the source account"))?);
    let prefs = read_prefs(target.clone(), Some(&w.account_id)).await.map_err(h("source preferences"))?;
    let servers = read_servers(target.clone(), &w.account_id).await.map_err(h("source servers"))?;
    let mut folder_keys = BTreeMap::new();
    for f in &w.model.folders {
        folder_keys.insert(f.id, w.folder_key(&f.id).await?);
    }
    let before = Before {
        account_id: w.account_id,
        label,
        cfg,
        password: w.password.clone(),
        model: w.model.clone(),
        status: status_map(&status),
        records,
        devices,
        prefs,
        servers,
        attachments,
        folder_keys,
        deleted_folder: !w.model.deleted_folders.is_empty(),
        stale_live_status,
        stats: w.stats.clone(),
    };
    Ok((w, before))
}

fn note_classes(info: &mut CaseInfo, befores: &[Before]) {
    info.class(format!("accounts/{}", befores.len()));
    for b in befores {
        info.inner_evals += b.stats.steps as u64;
        info.class(format!("source/{}", b.cfg.label()));
        if b.deleted_folder {
            info.class("deleted-folder");
        }
        if let Some(l) = &b.stale_live_status {
            info.class(format!("observed/live-instance-status-stale/{l}"));
        }
        if b.attachments.len() > 1 {
            info.class("secret-with-several-external-files");
        }
        if !b.attachments.is_empty() {
            info.class("attachment");
        }
        if !b.prefs.is_empty() {
            info.class("account-preferences");
        }
        if !b.servers.is_empty() {
            info.class("server-origins");
        }
        if b.devices.len() > 1 {
            info.class("extra-trusted-devices");
        }
        if b.model.folders.iter().any(|f| !f.builtin && f.flags != 0) {
            info.class("flagged-folder");
        }
        if b.model.folders.iter().any(|f| !f.description.is_empty()) {
            info.class("folder-description");
        }
        if b.stats.delete_or_move {
            info.class("deleted-or-moved-secret");
        }
        for c in b.stats.classes.iter().filter(|c| c.starts_with("compact") || c.starts_with("change-")) {
            info.class(format!("source-rewrite/{c}"));
        }
        if b.model.folders.iter().all(|f| f.secrets.is_empty()) {
            info.class("no-live-secret");
        }
    }
    info.nontrivial = befores.len() >= 2 && befores.iter().any(|b| b.deleted_folder);
}

async fn open_db_target(dir: &Path, server: bool) -> Result<BackendTarget, Failure> {
    let paths = if server { Paths::new_server(dir) } else { Paths::new_client(dir) };
    let db_file = paths.database_file().clone();
    if !db_file.exists() {
        return Err(Failure::new("c19/no-database-file", format!("upgrade_accounts returned Ok but {} does not exist", db_file.display())));
    }
    let client = sos_database::open_file(&db_file).await.map_err(|e| Failure::new("c19/database-unreadable", format!("open the upgraded database: {e}")))?;
    Ok(BackendTarget::Database(paths, client))
}

fn upgrade_failure(phase: &str, e: &sos_database_upgrader::Error) -> Failure {
    let class = match e {
        sos_database_upgrader::Error::AccountStatus(..) => "status-mismatch",
        _ => "error",
    };
    Failure::new(format!("c19/{phase}/{class}"), format!("upgrade_accounts ({phase}) failed on a sound file-system data dir: {e}"))
}

/// Dry run followed by the real upgrade; shared by the client and server layouts.
async fn dry_run_then_upgrade(dir: &Path, server: bool, case: &UpgradeCase, ids: &BTreeMap<String, String>) -> CheckResult {
    let paths = || if server { Paths::new_server(dir) } else { Paths::new_client(dir) };
    let source = tree_hashes(dir);
    let res = upgrade_accounts(dir.to_path_buf(), UpgradeOptions { paths: paths(), dry_run: true, ..Default::default() })
        .await
        .map_err(|e| upgrade_failure("dry-run", &e))?;
    let after = tree_hashes(dir);
    for (file, hash) in &source {
        match after.get(file) {
            None => return Err(Failure::new("c19/dry-run-modified-source/deleted", format!("dry run deleted {file}"))),
            Some(x) if x != hash => {
                let kind = Path::new(file).extension().map(|e| e.to_string_lossy().to_string()).unwrap_or_default();
                return Err(Failure::new(format!("c19/dry-run-modified-source/{kind}"), format!("dry run changed the bytes of {file}")));
            }
            _ => {}
        }
    }
    if paths().database_file().exists() {
        return Err(Failure::new("c19/dry-run-created-database", format!("dry run created {}", paths().database_file().display())));
    }
    let listed: BTreeMap<String, String> = res.accounts.iter().map(|a| (a.account_id().to_string(), a.label().to_string())).collect();
    if &listed != ids {
        return Err(Failure::new("c19/dry-run-account-list", format!("dry run reports accounts {:?}, the data dir holds {:?}", listed, ids)));
    }
    let backup_dir = dir.join("verif-backups");
    let options = UpgradeOptions {
        paths: paths(),
        dry_run: false,
        keep_stale_files: case.keep_stale_files,
        backup_directory: if case.backup { Some(backup_dir) } else { None },
        ..Default::default()
    };
    let res = upgrade_accounts(dir.to_path_buf(), options).await.map_err(|e| upgrade_failure("upgrade", &e))?;
    let listed: BTreeMap<String, String> = res.accounts.iter().map(|a| (a.account_id().to_string(), a.label().to_string())).collect();
    if &listed != ids {
        return Err(Failure::new("c19/account-list-differs", format!("upgrade reports accounts {:?}, the data dir held {:?}", listed, ids)));
    }
    Ok(())
}

fn remap(prefix: &str, f: Failure) -> Failure {
    // c01/sqlite/<what> and c02/sqlite/<what> become c19/<prefix>/<what>
    let tail = f.signature.splitn(3, '/').nth(2).unwrap_or(&f.signature).to_string();
    let origin = f.signature.split('/').next().unwrap_or("").to_string();
    Failure::new(format!("c19/{prefix}-{origin}/{tail}"), f.message)
}

// ---------------------------------------------------------------------------
// Sub-check 1: upgrade (client layout)
// ---------------------------------------------------------------------------

pub fn check_upgrade(case: &UpgradeCase) -> (CaseInfo, CheckResult) {
    let mut info = CaseInfo::default();
    let r = block_on(async {
        sos_core::verif::set_clock(Some((1_700_000_000i128 * 1_000_000_000, 1_000_003)));
        let r = run_upgrade(case, &mut info).await;
        sos_core::verif::set_clock(None);
        r
    });
    (info, r)
}

async fn run_upgrade(case: &UpgradeCase, info: &mut CaseInfo) -> CheckResult {
    let temp = Arc::new(tempfile::Builder::new().prefix("sv-c19-").tempdir().map_err(h("tempdir"))?);
    let plain = tempfile::Builder::new().prefix("sv-c19-plain-").tempdir().map_err(h("tempdir"))?;
    let dir: PathBuf = temp.path().to_path_buf();
    let mut befores = vec![];
    for (i, plan) in case.accounts.iter().enumerate() {
        let (mut w, before) = build_account(temp.clone(), plain.path(), i, plan).await?;
        w.account.sign_out().await.map_err(h("sign_out of the source account"))?;
        drop(w);
        befores.push(before);
    }
    // global preferences
    let fs_global = BackendTarget::FileSystem(Paths::new_client(&dir));
    if !case.global_prefs.is_empty() {
        let p = Preferences::new(fs_global.clone());
        let g = p.global_preferences();
        let mut g = g.lock().await;
        for (k, v) in &case.global_prefs {
            g.insert(k.clone(), v.build()).await.map_err(|e| Failure::new("c19/source/insert-preference-error", format!("insert global preference {k}: {e}")))?;
        }
    }
    let global_before = read_prefs(fs_global, None).await.map_err(h("source global preferences"))?;
    note_classes(info, &befores);
    if !global_before.is_empty() {
        info.class("global-preferences");
    }
    info.class(if case.keep_stale_files { "keep-stale-files" } else { "delete-stale-files" });
    if case.backup {
        info.class("backup-directory");
    }

    let ids: BTreeMap<String, String> = befores.iter().map(|b| (b.account_id.to_string(), b.label.clone())).collect();
    dry_run_then_upgrade(&dir, false, case, &ids).await?;

    // ---- after the upgrade ----
    let global_after = read_prefs(open_db_target(&dir, false).await?, None).await.map_err(|e| Failure::new("c19/preferences-differ/global", format!("global preferences unreadable after the upgrade: {e}")))?;
    if global_after != global_before {
        return Err(Failure::new("c19/preferences-differ/global", format!("global preferences after the upgrade {:?}, before {:?}", global_after, global_before)));
    }
    for (i, b) in befores.into_iter().enumerate() {
        let who = format!("account {i} ({}, {})", b.account_id, b.cfg.label());
        let target = open_db_target(&dir, false).await?;
        let mut account = LocalAccount::new_unauthenticated(b.account_id, target)
            .await
            .map_err(|e| Failure::new("c19/open-failed", format!("{who}: LocalAccount::new_unauthenticated on the upgraded database: {e}")))?;
        let key: AccessKey = b.password.clone().into();
        account.sign_in(&key).await.map_err(|e| Failure::new("c19/sign-in-failed", format!("{who}: sign_in with the account password on the upgraded database: {e}")))?;
        info.inner_evals += 1;

        let status = account.sync_status().await.map_err(|e| Failure::new("c19/status-error", format!("{who}: sync_status after the upgrade: {e}")))?;
        compare_status(&b.status, &status_map(&status), &who)?;
        let records = all_records(&account).await.map_err(|e| Failure::new("c19/events-unreadable", format!("{who}: {e}")))?;
        compare_records(&b.records, &records, &who)?;

        let devices = device_set(account.trusted_devices().await.map_err(|e| Failure::new("c19/devices-error", format!("{who}: trusted_devices: {e}")))?);
        if devices != b.devices {
            return Err(Failure::new("c19/devices-differ", format!("{who}: trusted devices after the upgrade {:?}, before {:?}", devices, b.devices)));
        }
        let acct_target = account.backend_target().await;
        let prefs = read_prefs(acct_target.clone(), Some(&b.account_id)).await.map_err(|e| Failure::new("c19/preferences-differ/account", format!("{who}: account preferences unreadable after the upgrade: {e}")))?;
        if prefs != b.prefs {
            return Err(Failure::new("c19/preferences-differ/account", format!("{who}: account preferences after the upgrade {:?}, before {:?}", prefs, b.prefs)));
        }
        let servers = read_servers(acct_target, &b.account_id).await.map_err(|e| Failure::new("c19/servers-differ", format!("{who}: server origins unreadable after the upgrade: {e}")))?;
        if servers != b.servers {
            return Err(Failure::new("c19/servers-differ", format!("{who}: server origins after the upgrade {:?}, before {:?}", servers, b.servers)));
        }
        for a in &b.attachments {
            let got = crate::engine_acct::download_file_retry(&account, &a.folder, &a.secret, &a.file_name)
                .await
                .map_err(|e| Failure::new("c19/attachment-unreadable", format!("{who}: download_file of the attachment after the upgrade: {e}")))?;
            if got != a.plain {
                return Err(Failure::new("c19/attachment-differs", format!("{who}: the attachment decrypts to {} bytes after the upgrade, {} before", got.len(), a.plain.len())));
            }
        }
        let mut cfg = b.cfg.clone();
        cfg.db = true;
        let mut w = AcctWorld::from_existing(temp.clone(), &cfg, account, b.password.clone(), b.model.clone());
        w.check_reads(&format!("the upgrade of {who}")).await.map_err(|f| remap("contents", f))?;
        check_replay(&w, &format!("the upgrade of {who}"), true).await.map_err(|f| remap("contents", f))?;
        w.account.sign_out().await.map_err(|e| Failure::new("c19/sign-out-error", format!("{who}: sign_out after the upgrade: {e}")))?;
    }
    Ok(())
}

// ---------------------------------------------------------------------------
// Sub-check 2: upgrade of the server layout
// ---------------------------------------------------------------------------

struct ServerBefore {
    status: BTreeMap<String, LogState>,
    records: BTreeMap<String, Vec<Rec>>,
    device_keys: BTreeSet<String>,
    folders: BTreeSet<String>,
    stored_ids: BTreeMap<VaultId, BTreeSet<SecretId>>,
    blobs: BTreeMap<(VaultId, SecretId, String), String>,
}

fn folder_summaries(set: &indexmap::IndexSet<sos_vault::Summary>) -> BTreeSet<String> {
    set.iter().map(|s| format!("{}|{}|{}", s.id(), s.name(), s.flags().bits())).collect()
}


fn vault_diff(got: &Value, want: &Value) -> (&'static str, String) {
    for k in ["name", "flags", "description"] {
        if got[k] != want[k] {
            return (k, format!("{k}: {} vs model {}", got[k], want[k]));
        }
    }
    let (g, w) = (got["secrets"].as_object().cloned().unwrap_or_default(), want["secrets"].as_object().cloned().unwrap_or_default());
    let (kg, kw): (BTreeSet<&String>, BTreeSet<&String>) = (g.keys().collect(), w.keys().collect());
    if kg != kw {
        return ("secret-ids", format!("secret ids only in the vault {:?}, only in the model {:?}", kg.difference(&kw).collect::<Vec<_>>(), kw.difference(&kg).collect::<Vec<_>>()));
    }
    for k in kg {
        if g[k] != w[k] {
            return ("secret-content", format!("secret {k}: label {} vs model {}", g[k][0]["label"], w[k][0]["label"]));
        }
    }
    ("none", String::new())
}

/// Server side of every folder: the replay of the server's folder log, decrypted with the
/// client's folder key, equals the model; the vault the server stores (header only by design:
/// `import_account` builds it with `build(false)`) carries the model's name, flags and
/// description. Returns the secret ids of the stored vaults (compared before/after).
async fn server_folders_match(server: &ServerStorage, b: &Before, who: &str, when: &str, sig: &str) -> Result<BTreeMap<VaultId, BTreeSet<SecretId>>, Failure> {
    let want = b.model.snapshot();
    let mut stored_ids = BTreeMap::new();
    for f in &b.model.folders {
        let key = b.folder_keys.get(&f.id).ok_or_else(|| Failure::new("harness/c19-setup", "missing folder key"))?;
        let w = &want[f.id.to_string()];
        let replayed = {
            let log = server.folder_log(&f.id).await.map_err(|e| Failure::new(format!("{sig}/folder-log-missing"), format!("{who}: folder_log('{}') {when}: {e}", f.name)))?;
            let log = log.read().await;
            sos_reducers::FolderReducer::new()
                .reduce(&*log)
                .await
                .map_err(|e| Failure::new(format!("{sig}/reduce-error"), format!("{who}: reduce of the log of '{}' {when}: {e}", f.name)))?
                .build(true)
                .await
                .map_err(|e| Failure::new(format!("{sig}/reduce-error"), format!("{who}: build of the log of '{}' {when}: {e}", f.name)))?
        };
        let got = decrypt_vault(&replayed, key).await.map_err(|e| Failure::new(format!("{sig}/log-undecryptable"), format!("{who}: replay of the log of '{}' {when}: {e}", f.name)))?;
        if &got != w {
            let (what, msg) = vault_diff(&got, w);
            return Err(Failure::new(format!("{sig}/log-replay/{what}"), format!("{who}: decrypted replay of the server's log of '{}' {when} differs from the model: {msg}", f.name)));
        }
        let vault = server.read_vault(&f.id).await.map_err(|e| Failure::new(format!("{sig}/vault-unreadable"), format!("{who}: read_vault('{}') {when}: {e}", f.name)))?;
        let head = decrypt_vault(&vault, key).await.map_err(|e| Failure::new(format!("{sig}/vault-undecryptable"), format!("{who}: stored vault of '{}' {when}: {e}", f.name)))?;
        for k in ["name", "flags", "description"] {
            if head[k] != w[k] {
                return Err(Failure::new(format!("{sig}/stored-vault/{k}"), format!("{who}: stored server vault of '{}' {when}: {k} {} vs model {}", f.name, head[k], w[k])));
            }
        }
        stored_ids.insert(f.id, vault.keys().cloned().collect::<BTreeSet<SecretId>>());
    }
    Ok(stored_ids)
}

pub fn check_upgrade_server(case: &UpgradeCase) -> (CaseInfo, CheckResult) {
    let mut info = CaseInfo::default();
    let r = block_on(async {
        sos_core::verif::set_clock(Some((1_700_000_000i128 * 1_000_000_000, 1_000_003)));
        let r = run_upgrade_server(case, &mut info).await;
        sos_core::verif::set_clock(None);
        r
    });
    (info, r)
}

/// A server account is built from the client's CreateSet, which leaves out folders flagged
/// NO_SYNC; the server-side comparison is about synced folders, so the flag choices of the
/// plan are folded onto the four sync-enabled ones.
fn sync_enabled_plan(case: &UpgradeCase) -> UpgradeCase {
    let mut c = case.clone();
    for a in c.accounts.iter_mut() {
        for op in a.history.ops.iter_mut() {
            if let Op::CreateFolder { flags, .. } | Op::SetFlags { flags, .. } = op {
                *flags %= 4;
            }
        }
        if let Some((_, flags)) = a.deleted_folder.as_mut() {
            *flags %= 4;
        }
    }
    c
}

async fn run_upgrade_server(case: &UpgradeCase, info: &mut CaseInfo) -> CheckResult {
    let case = &sync_enabled_plan(case);
    // clients live in their own dir, the server gets a separate data dir
    let client_temp = Arc::new(tempfile::Builder::new().prefix("sv-c19-cl-").tempdir().map_err(h("tempdir"))?);
    let plain = tempfile::Builder::new().prefix("sv-c19-plain-").tempdir().map_err(h("tempdir"))?;
    let server_temp = tempfile::Builder::new().prefix("sv-c19-srv-").tempdir().map_err(h("tempdir"))?;
    let sdir = server_temp.path().to_path_buf();
    // what the server does at start-up (sos_server backend)
    Paths::scaffold(&sdir).await.map_err(h("scaffold of the server data dir"))?;
    let mut befores = vec![];
    let mut sbefores = vec![];
    for (i, plan) in case.accounts.iter().enumerate() {
        let (mut w, before) = build_account(client_temp.clone(), plain.path(), i, plan).await?;
        let set = w.account.create_set().await.map_err(h("create_set of the client"))?;
        let target = BackendTarget::FileSystem(Paths::new_server(&sdir));
        let server = ServerStorage::create_account(target, &w.account_id, &set)
            .await
            .map_err(|e| Failure::new("c19/source/server-create-account-error", format!("[server account {i}] ServerStorage::create_account from the client's CreateSet: {e}")))?;
        // uploaded attachments: the server stores the client's ciphertext
        let spaths = Paths::new_server(&sdir).with_account_id(&w.account_id);
        let cpaths = Paths::new_client(client_temp.path()).with_account_id(&w.account_id);
        let mut blobs = BTreeMap::new();
        for a in &before.attachments {
            let name = a.file_name.to_string();
            let src = cpaths.into_legacy_file_path(&a.folder, &a.secret, &name);
            let dst = spaths.into_legacy_file_path(&a.folder, &a.secret, &name);
            std::fs::create_dir_all(dst.parent().unwrap()).map_err(h("mkdir server files"))?;
            let bytes = std::fs::read(&src).map_err(h("read the client's encrypted attachment"))?;
            std::fs::write(&dst, &bytes).map_err(h("write server attachment"))?;
            blobs.insert((a.folder, a.secret, name), hex::encode(Sha256::digest(&bytes)));
        }
        let status = server.sync_status().await.map_err(h("sync_status of the source server account"))?;
        // a server created from the client's full event logs agrees with the client
        compare_status(&before.status, &status_map(&status), &format!("[server account {i} vs its client, before the upgrade]")).map_err(|f| Failure::new(f.signature.replace("c19/", "c19/source/server-"), f.message))?;
        let stored_ids = server_folders_match(&server, &before, &format!("[server account {i}]"), "before the upgrade", "c19/source/server").await?;
        let sb = ServerBefore {
            stored_ids,
            status: status_map(&status),
            records: all_records(&server).await.map_err(h("records of the source server account"))?,
            device_keys: server.list_device_keys().into_iter().map(|k| k.to_string()).collect(),
            folders: folder_summaries(&server.folder_details().await.map_err(h("server folder_details"))?),
            blobs,
        };
        drop(server);
        w.account.sign_out().await.map_err(h("sign_out of the client"))?;
        drop(w);
        befores.push(before);
        sbefores.push(sb);
    }
    note_classes(info, &befores);
    info.class(if case.keep_stale_files { "keep-stale-files" } else { "delete-stale-files" });
    if case.backup {
        info.class("backup-directory");
    }
    let ids: BTreeMap<String, String> = befores.iter().map(|b| (b.account_id.to_string(), b.label.clone())).collect();
    dry_run_then_upgrade(&sdir, true, case, &ids).await?;

    for (i, (b, sb)) in befores.iter().zip(sbefores.iter()).enumerate() {
        let who = format!("server account {i} ({}, {})", b.account_id, b.cfg.label());
        let target = open_db_target(&sdir, true).await?;
        let server = ServerStorage::new(target, &b.account_id)
            .await
            .map_err(|e| Failure::new("c19/open-failed", format!("{who}: ServerStorage::new on the upgraded database: {e}")))?;
        info.inner_evals += 1;
        let status = server.sync_status().await.map_err(|e| Failure::new("c19/status-error", format!("{who}: sync_status after the upgrade: {e}")))?;
        compare_status(&sb.status, &status_map(&status), &who)?;
        let records = all_records(&server).await.map_err(|e| Failure::new("c19/events-unreadable", format!("{who}: {e}")))?;
        compare_records(&sb.records, &records, &who)?;
        let keys: BTreeSet<String> = server.list_device_keys().into_iter().map(|k| k.to_string()).collect();
        if keys != sb.device_keys {
            return Err(Failure::new("c19/devices-differ", format!("{who}: device keys after the upgrade {:?}, before {:?}", keys, sb.device_keys)));
        }
        let folders = folder_summaries(&server.folder_details().await.map_err(|e| Failure::new("c19/status-error", format!("{who}: folder_details: {e}")))?);
        if folders != sb.folders {
            return Err(Failure::new("c19/contents-server/folder-summaries", format!("{who}: folder summaries after the upgrade {:?}, before {:?}", folders, sb.folders)));
        }
        // decrypted contents of every server vault equal the model
        let stored_ids = server_folders_match(&server, b, &who, "after the upgrade", "c19/contents-server").await?;
        if stored_ids != sb.stored_ids {
            return Err(Failure::new("c19/contents-server/stored-vault/secret-ids", format!("{who}: secret ids in the stored server vaults after the upgrade {:?}, before {:?}", stored_ids, sb.stored_ids)));
        }
        let spaths = Paths::new_server(&sdir).with_account_id(&b.account_id);
        for ((fid, sid, name), hash) in &sb.blobs {
            let p = spaths.into_blob_file_path(fid, sid, name);
            let bytes = std::fs::read(&p).map_err(|e| Failure::new("c19/attachment-unreadable", format!("{who}: blob {} after the upgrade: {e}", p.display())))?;
            if &hex::encode(Sha256::digest(&bytes)) != hash {
                return Err(Failure::new("c19/attachment-differs", format!("{who}: blob {} differs from the uploaded ciphertext", p.display())));
            }
        }
    }
    Ok(())
}

// ---------------------------------------------------------------------------
// Sub-check 3: differential fs vs sqlite
// ---------------------------------------------------------------------------

/// Id-free shape of a model: folders in creation order, secrets in creation order.
fn model_shape(m: &Model) -> Vec<Value> {
    m.folders
        .iter()
        .map(|f| json!({"name": f.name, "flags": f.flags, "description": f.description, "secrets": f.secrets.iter().map(|s| json!([s.meta, s.secret])).collect::<Vec<_>>()}))
        .collect()
}

async fn log_lengths(w: &AcctWorld) -> Result<Vec<(String, usize)>, Failure> {
    let status = w.account.sync_status().await.map_err(hf("c19/differential/status-error", &format!("[{}] sync_status", w.cfg.label())))?;
    let mut v = vec![
        ("identity".to_string(), status.identity.1.len()),
        ("account".to_string(), status.account.1.len()),
        ("device".to_string(), status.device.1.len()),
        ("files".to_string(), status.files.as_ref().map(|f| f.1.len()).unwrap_or(0)),
    ];
    for (slot, f) in w.model.folders.iter().enumerate() {
        let n = status.folders.get(&f.id).map(|s| s.1.len());
        v.push((format!("folder#{slot}"), n.unwrap_or(usize::MAX)));
    }
    if status.folders.len() != w.model.folders.len() {
        v.push(("folder-count".to_string(), status.folders.len()));
    }
    Ok(v)
}

/// What the account itself serves, slot by slot (ids taken from the world's model).
async fn served_shape(w: &mut AcctWorld) -> Result<Vec<Value>, Failure> {
    let be = w.cfg.label();
    let listed = w.account.list_folders().await.map_err(hf("c19/differential/list-folders-error", &be))?;
    let mut out = vec![];
    for f in &w.model.folders {
        let Some(s) = listed.iter().find(|s| s.id() == &f.id) else {
            out.push(json!({"missing": true}));
            continue;
        };
        let description = w.account.folder_description(&f.id).await.map_err(hf("c19/differential/description-error", &be))?;
        let mut secrets = vec![];
        for m in &f.secrets {
            let (row, _) = w.account.read_secret(&m.id, Some(&f.id)).await.map_err(hf("c19/differential/read-error", &be))?;
            secrets.push(json!([proj_meta(row.meta()), proj_secret(row.secret())]));
        }
        out.push(json!({"name": s.name(), "flags": s.flags().bits(), "description": description, "secrets": secrets}));
    }
    if listed.len() != w.model.folders.len() {
        out.push(json!({"extra-folders": listed.len()}));
    }
    Ok(out)
}

fn shape_diff(a: &[Value], b: &[Value]) -> (&'static str, String) {
    if a.len() != b.len() {
        return ("folder-count", format!("{} folders vs {}", a.len(), b.len()));
    }
    for (i, (x, y)) in a.iter().zip(b.iter()).enumerate() {
        for k in ["name", "flags", "description"] {
            if x[k] != y[k] {
                return (
                    match k {
                        "name" => "folder-name",
                        "flags" => "folder-flags",
                        _ => "folder-description",
                    },
                    format!("folder slot {i}: {k} {} vs {}", x[k], y[k]),
                );
            }
        }
        let (sx, sy) = (x["secrets"].as_array().cloned().unwrap_or_default(), y["secrets"].as_array().cloned().unwrap_or_default());
        if sx.len() != sy.len() {
            return ("secret-count", format!("folder slot {i}: {} live secrets vs {}", sx.len(), sy.len()));
        }
        for (j, (p, q)) in sx.iter().zip(sy.iter()).enumerate() {
            if p[0] != q[0] {
                return ("secret-meta", format!("folder slot {i} secret slot {j}: meta {} vs {}", p[0], q[0]));
            }
            if p[1] != q[1] {
                return ("secret-value", format!("folder slot {i} secret slot {j}: value digests {} vs {}", digest(&p[0], &p[1]), digest(&q[0], &q[1])));
            }
        }
        if x != y {
            return ("folder-other", format!("folder slot {i}: {} vs {}", x, y));
        }
    }
    ("none", String::new())
}

pub fn check_differential(hist: &History) -> (CaseInfo, CheckResult) {
    let mut info = CaseInfo::default();
    let r = block_on(async {
        sos_core::verif::set_clock(Some((1_700_000_000i128 * 1_000_000_000, 1_000_003)));
        let r = run_differential(hist, &mut info).await;
        sos_core::verif::set_clock(None);
        r
    });
    (info, r)
}

async fn run_differential(hist: &History, info: &mut CaseInfo) -> CheckResult {
    let mut cfg_fs = hist.cfg.clone();
    cfg_fs.db = false;
    let mut cfg_db = hist.cfg.clone();
    cfg_db.db = true;
    let mut a = AcctWorld::new(&cfg_fs).await?;
    let mut b = AcctWorld::new(&cfg_db).await?;
    for w in [&mut a, &mut b] {
        // known finding c01/sqlite/create-steals-id-from-other-folder: skipped on both sides
        w.avoid.insert("id-live-in-two-folders".to_string());
    }
    info.class(format!("{}+{}", if hist.cfg.xchacha { "xchacha" } else { "aes" }, if hist.cfg.balloon { "balloon" } else { "argon2" }));
    let res = diff_steps(&mut a, &mut b, hist).await;
    info.inner_evals = a.stats.steps as u64;
    info.nontrivial = a.stats.reopen_after_delete;
    for c in &a.stats.classes {
        if let Some(x) = c.strip_prefix("excluded:") {
            info.excluded.push(x.to_string());
        } else {
            info.class(c.clone());
        }
    }
    if a.stats.reused_id {
        info.class("reused-id");
    }
    res
}

async fn diff_steps(a: &mut AcctWorld, b: &mut AcctWorld, hist: &History) -> CheckResult {
    let initial = (model_shape(&a.model), model_shape(&b.model));
    if initial.0 != initial.1 {
        let (what, msg) = shape_diff(&initial.0, &initial.1);
        return Err(Failure::new(format!("c19/differential/new-account/{what}"), format!("a new account differs between fs and sqlite: {msg}")));
    }
    for (i, op) in hist.ops.iter().enumerate() {
        let label = format!("op #{i} {}", crate::prop_c01::op_label(op));
        let ra = a.apply(op).await;
        let rb = b.apply(op).await;
        match (ra, rb) {
            (Ok(()), Ok(())) => {}
            (Err(fa), Err(fb)) if fa.signature == fb.signature => {
                // both backends misbehave in the same way: not a difference, but not hidden either
                return Err(Failure::new(fa.signature, format!("{label} (both backends): {}", fa.message)));
            }
            (Err(fa), Ok(())) => return Err(Failure::new(format!("c19/differential/only-fs-fails/{}", fa.signature), format!("{label}: fs: {} ; sqlite accepted the operation", fa.message))),
            (Ok(()), Err(fb)) => return Err(Failure::new(format!("c19/differential/only-sqlite-fails/{}", fb.signature), format!("{label}: sqlite: {} ; fs accepted the operation", fb.message))),
            (Err(fa), Err(fb)) => return Err(Failure::new(format!("c19/differential/fail-differently/{}", fa.signature), format!("{label}: fs: {} ; sqlite: [{}] {}", fa.message, fb.signature, fb.message))),
        }
        let (sa, sb) = (model_shape(&a.model), model_shape(&b.model));
        if sa != sb {
            let (what, msg) = shape_diff(&sa, &sb);
            return Err(Failure::new(format!("c19/differential/outcome/{what}"), format!("after {label}: the operation's outcome differs between fs and sqlite: {msg}")));
        }
        let ca = a.check_reads(&label).await;
        let cb = b.check_reads(&label).await;
        match (ca, cb) {
            (Ok(()), Ok(())) => {}
            (Err(fa), Err(fb)) if fa.signature.replace("/fs/", "/") == fb.signature.replace("/sqlite/", "/") => {
                return Err(Failure::new(fa.signature.replace("/fs/", "/both/"), format!("(both backends) {}", fa.message)));
            }
            (Err(fa), _) => return Err(Failure::new(format!("c19/differential/only-fs-fails/{}", fa.signature), fa.message)),
            (_, Err(fb)) => return Err(Failure::new(format!("c19/differential/only-sqlite-fails/{}", fb.signature), fb.message)),
        }
    }
    // direct comparison of what the two accounts serve
    let (sa, sb) = (served_shape(a).await?, served_shape(b).await?);
    if sa != sb {
        let (what, msg) = shape_diff(&sa, &sb);
        return Err(Failure::new(format!("c19/differential/served/{what}"), format!("at the end of the history fs and sqlite serve different accounts: {msg}")));
    }
    let (la, lb) = (log_lengths(a).await?, log_lengths(b).await?);
    if la != lb {
        let first = la.iter().zip(lb.iter()).find(|(x, y)| x != y).map(|(x, y)| (x.0.clone(), x.1, y.1)).unwrap_or(("folder-count".into(), la.len(), lb.len()));
        let class = if first.0.starts_with("folder#") { "folder".to_string() } else { first.0.clone() };
        return Err(Failure::new(format!("c19/differential/log-length/{class}"), format!("at the end of the history the {} log has {} events on fs and {} on sqlite", first.0, first.1, first.2)));
    }
    Ok(())
}

// ---------------------------------------------------------------------------
// Sync part (engine B) — hook
// ---------------------------------------------------------------------------

/// HOOK for engine B: "the upgraded device still syncs with its server without conflict".
pub fn run_sync_part(shard: &Shard, rep: &mut Report) {
    let t = shard.tier;
    drive(shard, rep, "upgrade-sync", shard.share(t.pick(128, 1_600)), upgrade_sync_strategy(), |c| check_upgrade_sync(c));
}

// ---------------------------------------------------------------------------
// Sync part (engine B): an upgraded device still syncs with its server
// ---------------------------------------------------------------------------

#[derive(Clone, Debug, Serialize, Deserialize, PartialEq, Eq, Hash)]
pub struct UpgradeSyncCase {
    pub xchacha: bool,
    pub balloon: bool,
    pub server_db: bool,
    /// edits made and synced before the upgrade
    pub synced: Vec<crate::engine_sync::Edit>,
    /// edits made after the last sync (unsynced state at upgrade time)
    pub unsynced: Vec<crate::engine_sync::Edit>,
}

fn upgrade_sync_strategy() -> impl Strategy<Value = UpgradeSyncCase> {
    (
        any::<bool>(),
        prop_oneof![3 => Just(false), 1 => Just(true)],
        any::<bool>(),
        proptest::collection::vec(crate::prop_c04::edit_strategy(), 0..6),
        proptest::collection::vec(crate::prop_c04::edit_strategy(), 0..4),
    )
        .prop_map(|(xchacha, balloon, server_db, synced, unsynced)| UpgradeSyncCase { xchacha, balloon, server_db, synced, unsynced })
}

pub fn check_upgrade_sync(c: &UpgradeSyncCase) -> (CaseInfo, CheckResult) {
    let mut info = CaseInfo::default();
    let r = block_on(async {
        let r = upgrade_sync_inner(c, &mut info).await;
        sos_core::verif::set_clock(None);
        r
    });
    (info, r)
}

async fn upgrade_sync_inner(c: &UpgradeSyncCase, info: &mut CaseInfo) -> CheckResult {
    use crate::engine_sync::*;
    use sos_protocol::{AsConflict, SyncOptions};
    use sos_remote_sync::AutoMerge;
    let cfg = AcctCfg { db: false, xchacha: c.xchacha, balloon: c.balloon };
    let mut w = SyncWorld::new(&cfg, c.server_db).await?;
    apply_edit(&mut w, 0, &Edit::CreateSecret { folder: 0, label: "one".into(), text: "1".into() }).await?;
    for e in &c.synced {
        apply_edit(&mut w, 0, e).await?;
    }
    for _ in 0..3 {
        w.sync(0).await.map_err(|e| Failure::new("harness/initial-sync", format!("sync before the upgrade failed: {e}")))?;
    }
    let mut applied_unsynced = 0;
    for e in &c.unsynced {
        if apply_edit(&mut w, 0, e).await? {
            applied_unsynced += 1;
        }
    }
    // known C04 root cause (events addressed by hash): once a log holds one hash twice, syncs can
    // stay diverged with or without an upgrade - excluded by construction, counted
    {
        let a = w.devices[0].account.lock().await;
        let logs = all_logs(&*a).await?;
        if logs.values().any(|l| crate::prop_c04::has_repeated_hash(l)) {
            info.excluded.push("repeated-event-hash-within-a-log".into());
            return Ok(());
        }
    }
    info.class(if applied_unsynced > 0 { "unsynced-state-at-upgrade" } else { "synced-state-at-upgrade" });
    info.nontrivial = applied_unsynced > 0 && !c.synced.is_empty();
    let before = w.device_status(0).await?;
    let dir = w.devices[0].temp.path().to_path_buf();
    {
        let mut a = w.devices[0].account.lock().await;
        a.sign_out().await.map_err(hf("harness/sign-out", "sign_out before upgrade"))?;
    }
    upgrade_accounts(dir.clone(), UpgradeOptions { paths: Paths::new_client(&dir), dry_run: false, keep_stale_files: false, ..Default::default() })
        .await
        .map_err(|e| upgrade_failure("upgrade", &e))?;
    let target = open_db_target(&dir, false).await?;
    let mut account = LocalAccount::new_unauthenticated(w.account_id, target).await.map_err(|e| Failure::new("c19/sync/open-failed", format!("open the upgraded account: {e}")))?;
    let key: AccessKey = w.password.clone().into();
    account.sign_in(&key).await.map_err(|e| Failure::new("c19/sign-in-failed", format!("sign_in on the upgraded account: {e}")))?;
    let after = account.sync_status().await.map_err(hf("harness/status", "sync_status after upgrade"))?;
    let d = status_diff(&before, &after);
    if !d.is_empty() {
        return Err(Failure::new(format!("c19/sync/status-differs/{}", d[0].split('(').next().unwrap_or("").split(' ').next().unwrap_or("")), format!("sync status changed across the upgrade: {:?}", d)));
    }
    // swap the upgraded account into device 0 and sync against the server that holds the pre-upgrade state
    let account = std::sync::Arc::new(tokio::sync::Mutex::new(account));
    w.devices[0].account = account.clone();
    w.devices[0].bridge = make_bridge(0, w.account_id, account, &w.server, &w.tap);
    let n0 = w.tap.trace.lock().unwrap().len();
    let bridge = w.devices[0].bridge.clone();
    w.enter(0);
    let res = bridge.execute_sync(&SyncOptions::default()).await;
    w.leave(0);
    let trace: Vec<&'static str> = w.tap.trace.lock().unwrap()[n0..].iter().map(|t| t.request).collect();
    if let Err(e) = res {
        return Err(Failure::new(
            if e.is_conflict() { "c19/sync/conflict-after-upgrade" } else { "c19/sync/error-after-upgrade" },
            format!("the upgraded device's first sync failed: {e} (requests {:?})", trace),
        ));
    }
    if trace.contains(&"scan") {
        return Err(Failure::new("c19/sync/conflict-after-upgrade", format!("the upgraded device's first sync went through conflict resolution (requests {:?})", trace)));
    }
    // a second sync settles folders created while unsynced (known C04 behaviour), then statuses must agree
    let _ = w.sync(0).await;
    let s = w.device_status(0).await?;
    let server = w.server_status().await?.ok_or_else(|| Failure::new("harness/no-server-account", "server lost the account"))?;
    let d = status_diff(&s, &server);
    if !d.is_empty() {
        return Err(Failure::new("c19/sync/diverged-after-upgrade", format!("after syncing the upgraded device its status differs from the server's: {:?}", d)));
    }
    Ok(())
}

// ---------------------------------------------------------------------------
// Driver
// ---------------------------------------------------------------------------

fn run(shard: &Shard, rep: &mut Report) {
    let t = shard.tier;
    drive(shard, rep, "upgrade", shard.share(t.pick(64, 1_000)), upgrade_strategy(12, 12), |c| check_upgrade(c));
    drive(shard, rep, "upgrade-server", shard.share(t.pick(32, 500)), upgrade_strategy(8, 12), |c| check_upgrade_server(c));
    drive(shard, rep, "differential", shard.share(t.pick(64, 1_000)), history_strategy(Mix::Reads, 25), |h| check_differential(h));
    run_sync_part(shard, rep);
}

fn replay(_shard: &Shard, sub: &str, case: &Value) -> CheckResult {
    match sub {
        "upgrade" => {
            let c: UpgradeCase = from_case(case).map_err(|e| Failure::new("harness", e))?;
            check_upgrade(&c).1
        }
        "upgrade-server" => {
            let c: UpgradeCase = from_case(case).map_err(|e| Failure::new("harness", e))?;
            check_upgrade_server(&c).1
        }
        "upgrade-sync" => {
            let c: UpgradeSyncCase = from_case(case).map_err(|e| Failure::new("harness", e))?;
            check_upgrade_sync(&c).1
        }
        "differential" => {
            let hst: History = from_case(case).map_err(|e| Failure::new("harness", e))?;
            check_differential(&hst).1
        }
        other => Err(Failure::new("harness", format!("unknown sub-check {other}"))),
    }
}
