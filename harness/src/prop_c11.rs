//! C11 — the server acts only for requests signed by a trusted device.
//!
//! Engine G (`engine_http`): the real server in-process, raw requests.
//!
//! Sub-checks
//! * `routes`: per generated account content ("body seed") the complete
//!   product route x credential form x access config is enumerated three
//!   times (before revocation of device 2, after revocation on the live
//!   server, after revocation + server restart [reduced form list]).  Access
//!   lists are switched on the running server (`State.config.access`, what
//!   `authenticate_endpoint` reads per request) so that every forged request
//!   is followed by its positive control on identical bytes.
//! * `access-file`: access lists loaded from `config.toml` at server start;
//!   correctly signed requests of a denied / not-allowed account on every
//!   route, account creation included; then the `allow + deny` config.
//! * `requests`: one recorded evaluation per request sent in the two checks
//!   above (the enumeration is exhaustive per body seed).
use crate::engine_http::*;
use crate::framework::*;
use proptest::prelude::*;
use serde::{Deserialize, Serialize};
use serde_json::Value;
use sos_account::Account;
use sos_core::{
    device::TrustedDevice,
    events::{DeviceEvent, EventLogType},
    AccountId, VaultId,
};
use sos_protocol::{DiffRequest, PatchRequest, ScanRequest, WireEncodeDecode};
use sos_sync::{SyncPacket, UpdateSet};
use std::cell::RefCell;

pub const META: PropertyMeta = PropertyMeta {
    id: "C11",
    level: "exploration",
    rule: "routes: proptest generates the account content and the pending local changes that make request bodies valid and state-changing (notes per folder, extra folder, new folder, file content, server backend fs/sqlite, how the revocation reaches the server); for every generated case the product {16 route steps taken from crates/server/src/server.rs} x {credential forms: none, 6 malformed, unknown key, revoked key, 4 'valid key over other bytes', 2 other-account, 5 legacy/odd} x {access: none, deny-list with A, allow-list without A, allow+deny with A, configured-but-empty allow list} is enumerated exhaustively before revocation, after revocation and after revocation+restart. One evaluation = one request ('requests'); oracle: response is neither 2xx nor 101 and the server snapshot (per-account sync status, folders, trusted devices read from the server backend; sha256 of every file below the data dir; websocket count) is unchanged. Positive control per route step: the same request (same bytes) correctly signed by trusted device 1 is accepted. Non-trivial = refused request whose positive control was accepted AND (changed the server snapshot, or is a read route that returned the account's data, or - for PUT on an existing account - created the account once it had been deleted). Distinct = distinct (case, phase, route, access config, credential form). access-file: same oracle with correctly signed requests of an account that is on the deny list / absent from the allow list loaded from config.toml.",
    assumptions: &[
        "routes that need no authentication by design are outside the statement and are only listed: GET / (redirect), GET /api/v1 (name+version), /api/v1/docs*, GET /api/v1/sync/connections (global websocket count), GET /api/v1/relay (pairing relay, addressed by public key)",
        "for an account id that does not exist on the server any signature is accepted (Backend::verify_device returns Ok when the account is unknown; needed for account creation); the statement is about existing accounts, so only the access lists are asserted for creation",
        "file routes and POST /sync/files are signed over the URL path by the real client although they carry a body; the harness treats the path as 'the signed bytes' there. An altered body of POST /sync/files (read-only comparison) under a valid path signature is accepted by design and is recorded as an observation, not asserted",
        "the signature does not cover the HTTP method or the query string (a token for GET /sync/account also authorises DELETE /sync/account; the move target of POST /sync/file is unsigned); the statement does not claim otherwise, recorded as an observation",
        "access lists are switched on the running server through the public ServerState in `routes`; loading them from config.toml is covered by `access-file`",
    ],
};

pub fn def() -> PropertyDef {
    PropertyDef {
        meta: META,
        shards: |t| t.pick(5, 12),
        run,
        replay,
        timeout_s: |t| t.pick(900, 3 * 3600),
    }
}

// ---------------------------------------------------------------------------
// Case
// ---------------------------------------------------------------------------

#[derive(Clone, Copy, Debug, Serialize, Deserialize, PartialEq, Eq)]
pub enum RevokeVia {
    /// `PATCH /sync/account` (merge_device)
    SyncPacket,
    /// `PATCH /sync/account/events` on the device log (merge_device)
    EventPatch,
    /// `POST /sync/account` (force_merge_device)
    UpdateSet,
}

#[derive(Clone, Debug, Serialize, Deserialize)]
pub struct Change {
    /// notes added (1..=3)
    pub notes: u8,
    /// add them to the extra folder when the account has one
    pub in_extra_folder: bool,
    /// also create a new folder (only used for the SyncPacket body)
    pub new_folder: bool,
    pub text: String,
}

#[derive(Clone, Debug, Serialize, Deserialize)]
pub struct Case {
    pub sqlite: bool,
    /// seed of the keys made by the harness (device 2, unknown key) and ids
    pub key_seed: [u8; 32],
    pub initial_notes: u8,
    pub extra_folder: bool,
    /// three changes per table run (SyncPacket, PatchRequest, UpdateSet)
    pub changes: Vec<Change>,
    pub revoke_via: RevokeVia,
    pub file: Vec<u8>,
    /// device 2 is trusted in the CreateSet the account is created from
    /// (true) or by a later sync of the device log (false)
    #[serde(default)]
    pub trust_in_create_set: bool,
}

fn change_strategy() -> impl Strategy<Value = Change> {
    (1u8..=3, any::<bool>(), any::<bool>(), "[a-z0-9 ]{0,24}").prop_map(
        |(notes, in_extra_folder, new_folder, text)| Change {
            notes,
            in_extra_folder,
            new_folder,
            text,
        },
    )
}

/// `flip_backend` alternates the server backend between shards so that both
/// backends are covered whatever the seed.
fn case_strategy(flip_backend: bool) -> impl Strategy<Value = Case> {
    (
        any::<bool>(),
        any::<[u8; 32]>(),
        0u8..3,
        any::<bool>(),
        proptest::collection::vec(change_strategy(), 9),
        prop_oneof![
            Just(RevokeVia::SyncPacket),
            Just(RevokeVia::EventPatch),
            Just(RevokeVia::UpdateSet)
        ],
        proptest::collection::vec(any::<u8>(), 1..600),
        any::<bool>(),
    )
        .prop_map(
            move |(sqlite, key_seed, initial_notes, extra_folder, changes, revoke_via, file, trust_in_create_set)| Case {
                sqlite: sqlite ^ flip_backend,
                key_seed,
                initial_notes,
                extra_folder,
                changes,
                revoke_via,
                file,
                trust_in_create_set,
            },
        )
}

// ---------------------------------------------------------------------------
// Credential forms and access configs
// ---------------------------------------------------------------------------

#[derive(Clone, Copy, Debug, PartialEq, Eq)]
enum Cfg {
    None,
    DenyA,
    AllowWithoutA,
    Both,
    /// an allow list that is configured but empty: nobody is on it
    EmptyAllow,
}

impl Cfg {
    const ALL: [Cfg; 5] = [Cfg::None, Cfg::DenyA, Cfg::AllowWithoutA, Cfg::Both, Cfg::EmptyAllow];
    fn name(&self) -> &'static str {
        match self {
            Cfg::None => "none",
            Cfg::DenyA => "deny-list-with-A",
            Cfg::AllowWithoutA => "allow-list-without-A",
            Cfg::Both => "allow+deny-with-A",
            Cfg::EmptyAllow => "empty-allow-list",
        }
    }
    fn lists(&self, a: &AccountId, b: &AccountId) -> Option<AccessLists> {
        match self {
            Cfg::None => None,
            Cfg::DenyA => Some(AccessLists {
                allow: None,
                deny: Some(vec![a.to_string()]),
            }),
            Cfg::AllowWithoutA => Some(AccessLists {
                allow: Some(vec![b.to_string()]),
                deny: None,
            }),
            Cfg::Both => Some(AccessLists {
                allow: Some(vec![a.to_string(), b.to_string()]),
                deny: Some(vec![a.to_string()]),
            }),
            Cfg::EmptyAllow => Some(AccessLists {
                allow: Some(vec![]),
                deny: None,
            }),
        }
    }
}

#[derive(Clone, Copy, Debug, PartialEq, Eq)]
enum Form {
    NoAuth,
    NonBase58,
    ShortToken,
    LongGarbage,
    EmptyToken,
    BasicScheme,
    NoScheme,
    UnknownKey,
    RevokedKey,
    /// valid signature of device 1 over *other valid bytes* of the same
    /// kind (captured from an innocuous request) attached to this request
    OtherBytesCaptured,
    /// body signed where the path is required and vice versa
    OtherBytesCross,
    /// one bit of a valid signature flipped
    SigBitflip,
    /// valid signature, but over path?query / the full url
    OtherBytesUrl,
    BKeyAHeader,
    AKeyBHeader,
    NoAccountHeader,
    DottedToken,
    DottedTokenNoHeader,
    GarbageAccountHeader,
    AccountHeaderNo0x,
    /// correctly signed by a trusted device of A (only under a config that
    /// denies A)
    Valid,
}

impl Form {
    const FORGED: [Form; 20] = [
        Form::NoAuth,
        Form::NonBase58,
        Form::ShortToken,
        Form::LongGarbage,
        Form::EmptyToken,
        Form::BasicScheme,
        Form::NoScheme,
        Form::UnknownKey,
        Form::RevokedKey,
        Form::OtherBytesCaptured,
        Form::OtherBytesCross,
        Form::SigBitflip,
        Form::OtherBytesUrl,
        Form::BKeyAHeader,
        Form::AKeyBHeader,
        Form::NoAccountHeader,
        Form::DottedToken,
        Form::DottedTokenNoHeader,
        Form::GarbageAccountHeader,
        Form::AccountHeaderNo0x,
    ];
    const REDUCED: [Form; 6] = [
        Form::NoAuth,
        Form::UnknownKey,
        Form::RevokedKey,
        Form::OtherBytesCaptured,
        Form::BKeyAHeader,
        Form::NoAccountHeader,
    ];
    fn name(&self) -> &'static str {
        match self {
            Form::NoAuth => "none",
            Form::NonBase58 => "malformed-non-base58",
            Form::ShortToken => "malformed-short",
            Form::LongGarbage => "malformed-long-garbage",
            Form::EmptyToken => "malformed-empty",
            Form::BasicScheme => "malformed-basic-scheme",
            Form::NoScheme => "malformed-no-scheme",
            Form::UnknownKey => "unknown-key",
            Form::RevokedKey => "revoked-key",
            Form::OtherBytesCaptured => "other-bytes-captured-signature",
            Form::OtherBytesCross => "other-bytes-body-vs-path",
            Form::SigBitflip => "other-bytes-signature-bitflip",
            Form::OtherBytesUrl => "other-bytes-path-with-query",
            Form::BKeyAHeader => "other-account-key-B-header-A",
            Form::AKeyBHeader => "other-account-key-A-header-B",
            Form::NoAccountHeader => "legacy-no-account-header",
            Form::DottedToken => "legacy-dotted-token",
            Form::DottedTokenNoHeader => "legacy-dotted-token-no-header",
            Form::GarbageAccountHeader => "legacy-garbage-account-header",
            Form::AccountHeaderNo0x => "legacy-account-header-without-0x",
            Form::Valid => "valid",
        }
    }
}

// ---------------------------------------------------------------------------
// Outcome collection
// ---------------------------------------------------------------------------

#[derive(Clone, Debug)]
struct ReqRecord {
    hash: u64,
    info: CaseInfo,
}

#[derive(Default)]
struct Outcome {
    records: Vec<ReqRecord>,
    failures: Vec<Failure>,
    notes: Vec<String>,
    controls: u64,
    control_changed: u64,
}

impl Outcome {
    fn fail(&mut self, sig: String, msg: String) {
        // keep one failure per signature
        if !self.failures.iter().any(|f| f.signature == sig) {
            self.failures.push(Failure::new(sig, msg));
        }
    }
    fn note(&mut self, n: String) {
        if !self.notes.contains(&n) {
            self.notes.push(n);
        }
    }
}

/// One route step of the table.
struct Step {
    /// e.g. `PATCH /sync/account`
    name: &'static str,
    req: RawRequest,
    /// other valid bytes of the same kind for `OtherBytesCaptured`
    captured: Vec<u8>,
    /// read route: the control must return data instead of changing state
    read: bool,
    /// control is expected to be refused by design (PUT on an existing account)
    control_conflict: bool,
}

struct World {
    client: reqwest::Client,
    server: TestServerHandle,
    a: ClientAccount,
    b: ClientAccount,
    c: ClientAccount,
    d2: DeviceKey,
    unknown: DeviceKey,
    extra_folder: Option<VaultId>,
    d2_revoked: bool,
    case_hash: u64,
    phase: &'static str,
    note_counter: u32,
}

type Res<T> = Result<T, Failure>;

fn hb<T>(r: EResult<T>, what: &str) -> Res<T> {
    r.map_err(|e| Failure::new(format!("harness/{what}"), format!("harness error ({what}): {e}")))
}

impl World {
    fn forge(&self, form: Form, step: &Step) -> (RawRequest, Credential) {
        let req = step.req.clone();
        let right = req.signed_bytes();
        let a_id = self.a.account_id;
        let b_id = self.b.account_id;
        let a_hdr = Some(a_id.to_string());
        let valid_token = self.a.device.token(&right);
        let cred = match form {
            Form::NoAuth => Credential {
                authorization: None,
                account_header: a_hdr,
            },
            Form::NonBase58 => Credential {
                authorization: Some("Bearer 0OIl+/not_base58==".into()),
                account_header: a_hdr,
            },
            Form::ShortToken => {
                let sig = self.a.device.sign(&right).to_bytes();
                Credential {
                    authorization: Some(bearer(&bs58::encode(&sig[..32]).into_string())),
                    account_header: a_hdr,
                }
            }
            Form::LongGarbage => {
                let mut g = vec![];
                for i in 0..96u8 {
                    g.push(right.get(i as usize).copied().unwrap_or(i).wrapping_mul(31).wrapping_add(i));
                }
                Credential {
                    authorization: Some(bearer(&bs58::encode(&g).into_string())),
                    account_header: a_hdr,
                }
            }
            Form::EmptyToken => Credential {
                authorization: Some("Bearer ".into()),
                account_header: a_hdr,
            },
            Form::BasicScheme => Credential {
                authorization: Some(format!("Basic {valid_token}")),
                account_header: a_hdr,
            },
            Form::NoScheme => Credential {
                authorization: Some(valid_token.clone()),
                account_header: a_hdr,
            },
            Form::UnknownKey => Credential {
                authorization: Some(bearer(&self.unknown.token(&right))),
                account_header: a_hdr,
            },
            Form::RevokedKey => Credential {
                authorization: Some(bearer(&self.d2.token(&right))),
                account_header: a_hdr,
            },
            Form::OtherBytesCaptured => Credential {
                authorization: Some(bearer(&self.a.device.token(&step.captured))),
                account_header: a_hdr,
            },
            Form::OtherBytesCross => {
                let other = if req.sign_over_path {
                    match &req.body {
                        Some(b) if !b.is_empty() => b.clone(),
                        // body-less: sign the path without the leading slash
                        _ => req.path.trim_start_matches('/').as_bytes().to_vec(),
                    }
                } else {
                    req.path.as_bytes().to_vec()
                };
                Credential {
                    authorization: Some(bearer(&self.a.device.token(&other))),
                    account_header: a_hdr,
                }
            }
            Form::SigBitflip => {
                let mut sig = self.a.device.sign(&right).to_bytes();
                sig[7] ^= 0x10;
                Credential {
                    authorization: Some(bearer(&bs58::encode(&sig[..]).into_string())),
                    account_header: a_hdr,
                }
            }
            Form::OtherBytesUrl => {
                let other = if req.sign_over_path {
                    req.path_and_query().into_bytes()
                } else {
                    // body routes: sign sha256(body) instead of the body
                    use sha2::{Digest, Sha256};
                    Sha256::digest(&right).to_vec()
                };
                Credential {
                    authorization: Some(bearer(&self.a.device.token(&other))),
                    account_header: a_hdr,
                }
            }
            Form::BKeyAHeader => Credential {
                authorization: Some(bearer(&self.b.device.token(&right))),
                account_header: a_hdr,
            },
            Form::AKeyBHeader => Credential {
                authorization: Some(bearer(&valid_token)),
                account_header: Some(b_id.to_string()),
            },
            Form::NoAccountHeader => Credential {
                authorization: Some(bearer(&valid_token)),
                account_header: None,
            },
            Form::DottedToken => Credential {
                authorization: Some(bearer(&format!("{valid_token}.{valid_token}"))),
                account_header: a_hdr,
            },
            Form::DottedTokenNoHeader => Credential {
                authorization: Some(bearer(&format!("{valid_token}.{valid_token}"))),
                account_header: None,
            },
            Form::GarbageAccountHeader => Credential {
                authorization: Some(bearer(&valid_token)),
                account_header: Some("not-an-account-id".into()),
            },
            Form::AccountHeaderNo0x => Credential {
                authorization: Some(bearer(&valid_token)),
                account_header: Some(a_id.to_string().trim_start_matches("0x").to_string()),
            },
            Form::Valid => Credential {
                authorization: Some(bearer(&valid_token)),
                account_header: a_hdr,
            },
        };
        (req, cred)
    }

    async fn snap(&self) -> Res<Snapshot> {
        hb(snapshot(&self.client, &self.server).await, "snapshot")
    }

    async fn set_cfg(&self, cfg: Cfg) -> Res<()> {
        let lists = cfg.lists(&self.a.account_id, &self.b.account_id);
        hb(self.server.set_access(lists.as_ref()).await, "set_access")
    }

    /// Correctly signed request of device 1 of A.
    async fn valid(&self, req: &RawRequest) -> Res<RawResponse> {
        hb(
            send_signed(&self.client, &self.server, req, &self.a.device, &self.a.account_id).await,
            "send",
        )
    }

    async fn server_status(&self) -> Res<sos_sync::SyncStatus> {
        let r = self.valid(&RawRequest::new(http::Method::GET, routes::STATUS)).await?;
        if r.status != 200 {
            return Err(Failure::new(
                "harness/control-refused/GET /sync/account/status",
                format!("correctly signed GET status returned {}", r.status),
            ));
        }
        hb(decode_status(r.body).await, "decode status")
    }

    /// The whole product for one route step, then the positive control.
    /// Returns the control's response.
    async fn run_step(
        &mut self,
        step: &Step,
        forms: &[Form],
        out: &mut Outcome,
    ) -> Res<RawResponse> {
        let mut before = self.snap().await?;
        let first = out.records.len();
        for cfg in Cfg::ALL {
            self.set_cfg(cfg).await?;
            let mut list: Vec<Form> = forms
                .iter()
                .copied()
                .filter(|f| *f != Form::RevokedKey || self.d2_revoked)
                .collect();
            if matches!(cfg, Cfg::DenyA | Cfg::AllowWithoutA | Cfg::EmptyAllow) {
                list.push(Form::Valid);
            }
            for form in list {
                let (req, cred) = self.forge(form, step);
                let resp = hb(send(&self.client, &self.server, &req, &cred).await, "send")?;
                let after = self.snap().await?;
                let form_name = if form == Form::Valid {
                    match cfg {
                        Cfg::DenyA => "denied-account",
                        _ => "not-allowed-account",
                    }
                } else {
                    form.name()
                };
                let mut info = CaseInfo::default();
                info.class(format!("route/{}", step.name));
                info.class(format!("form/{form_name}"));
                info.class(format!("config/{}", cfg.name()));
                info.class(format!("phase/{}", self.phase));
                info.class(format!("answer/{}/{}", form_name, resp.status));
                let hash = hash_of(&(self.case_hash, self.phase, step.name, cfg.name(), form_name));
                out.records.push(ReqRecord { hash, info });
                if resp.accepted() {
                    out.fail(
                        format!("accepted/{}/{}", form_name, step.name),
                        format!(
                            "{} with credential form '{}' under access config '{}' (phase {}) was accepted with status {} (expected a refusal)",
                            step.name, form_name, cfg.name(), self.phase, resp.status
                        ),
                    );
                }
                if after != before {
                    out.fail(
                        format!("state-changed/{}/{}", form_name, step.name),
                        format!(
                            "{} with credential form '{}' under access config '{}' (phase {}) returned {} and changed the server: {}",
                            step.name, form_name, cfg.name(), self.phase, resp.status, before.diff(&after)
                        ),
                    );
                    before = after;
                }
            }
        }
        self.set_cfg(Cfg::None).await?;
        // positive control: identical request, correctly signed
        let resp = self.valid(&step.req).await?;
        let after = self.snap().await?;
        out.controls += 1;
        let changed = after != before;
        if changed {
            out.control_changed += 1;
        }
        let ok = if step.control_conflict {
            resp.status == 409 && !changed
        } else {
            resp.accepted()
        };
        if !ok {
            return Err(Failure::new(
                format!("harness/control-refused/{}", step.name),
                format!(
                    "HARNESS BUG: correctly signed {} returned {} (phase {}): {}",
                    step.name,
                    resp.status,
                    self.phase,
                    String::from_utf8_lossy(&resp.body).chars().take(300).collect::<String>()
                ),
            ));
        }
        let nontrivial = if step.control_conflict {
            false // decided later by the caller (creation control after DELETE)
        } else if step.read {
            resp.accepted()
        } else {
            changed
        };
        if !step.read && !step.control_conflict && !changed {
            out.note(format!(
                "control of {} was accepted but did not change the snapshot in at least one run",
                step.name
            ));
        }
        for r in out.records[first..].iter_mut() {
            r.info.nontrivial = nontrivial;
            r.info.class(if step.control_conflict {
                "control/409-account-exists-by-design"
            } else if nontrivial {
                "control/accepted-and-effective"
            } else {
                "control/accepted-no-effect"
            });
        }
        Ok(resp)
    }

    async fn add_notes(&mut self, folder: VaultId, ch: &Change) -> Res<()> {
        for _ in 0..ch.notes.max(1) {
            self.note_counter += 1;
            let label = format!("note {}", self.note_counter);
            hb(self.a.add_note(&folder, &label, &ch.text).await, "add_note")?;
        }
        Ok(())
    }

    fn target_folder(&self, ch: &Change) -> VaultId {
        match (ch.in_extra_folder, self.extra_folder) {
            (true, Some(f)) => f,
            _ => self.a.default_folder,
        }
    }

    /// One complete table run.
    async fn run_table(
        &mut self,
        case: &Case,
        run_idx: usize,
        forms: &[Form],
        out: &mut Outcome,
    ) -> Res<()> {
        use http::Method;
        let changes = &case.changes[run_idx * 3..run_idx * 3 + 3];
        let a_status = hb(self.a.status().await, "status")?;
        let status_path = routes::STATUS.as_bytes().to_vec();
        let account_path = routes::ACCOUNT.as_bytes().to_vec();

        // second device: before revocation its requests are legitimate
        if !self.d2_revoked {
            let req = RawRequest::new(Method::GET, routes::STATUS);
            let r = hb(
                send_signed(&self.client, &self.server, &req, &self.d2, &self.a.account_id).await,
                "send",
            )?;
            if r.status != 200 {
                return Err(Failure::new(
                    "control-refused/second-device-after-trust-sync",
                    format!("device 2 (trusted in the device log, synced) got {} for a correctly signed GET status", r.status),
                ));
            }
        }

        // --- read routes -------------------------------------------------
        let step = Step {
            name: "GET /sync/account/status",
            req: RawRequest::new(Method::GET, routes::STATUS),
            captured: account_path.clone(),
            read: true,
            control_conflict: false,
        };
        self.run_step(&step, forms, out).await?;
        // observation (not asserted): a valid signature followed by junk
        {
            let req = RawRequest::new(Method::GET, routes::STATUS);
            let mut raw = self.a.device.sign(&req.signed_bytes()).to_bytes().to_vec();
            raw.extend_from_slice(&[0u8; 8]);
            let cred = Credential {
                authorization: Some(bearer(&bs58::encode(&raw).into_string())),
                account_header: Some(self.a.account_id.to_string()),
            };
            let r = hb(send(&self.client, &self.server, &req, &cred).await, "send")?;
            out.note(format!(
                "observation: token = base58(valid signature of a trusted device || 8 zero bytes) -> {} (the decoder reads 64 bytes and ignores the rest; still a signature of a trusted device over the right bytes)",
                r.status
            ));
        }

        let step = Step {
            name: "HEAD /sync/account",
            req: RawRequest::new(Method::HEAD, routes::ACCOUNT),
            captured: status_path.clone(),
            read: true,
            control_conflict: false,
        };
        self.run_step(&step, forms, out).await?;

        let step = Step {
            name: "GET /sync/account",
            req: RawRequest::new(Method::GET, routes::ACCOUNT),
            captured: status_path.clone(),
            read: true,
            control_conflict: false,
        };
        let r = self.run_step(&step, forms, out).await?;
        if r.body.is_empty() {
            out.note("GET /sync/account control returned an empty body".into());
        }

        let scan = ScanRequest {
            log_type: EventLogType::Folder(self.a.default_folder),
            limit: 16,
            offset: 0,
        };
        let scan_other = ScanRequest {
            log_type: EventLogType::Account,
            limit: 1,
            offset: 0,
        };
        let step = Step {
            name: "GET /sync/account/events",
            req: RawRequest::new(Method::GET, routes::EVENTS)
                .with_signed_body(hb(scan.encode().await.map_err(|e| e.to_string()), "encode")?),
            captured: hb(scan_other.encode().await.map_err(|e| e.to_string()), "encode")?,
            read: true,
            control_conflict: false,
        };
        self.run_step(&step, forms, out).await?;

        let diff = DiffRequest {
            log_type: EventLogType::Folder(self.a.default_folder),
            from_hash: None,
        };
        let diff_other = DiffRequest {
            log_type: EventLogType::Device,
            from_hash: None,
        };
        let step = Step {
            name: "POST /sync/account/events",
            req: RawRequest::new(Method::POST, routes::EVENTS)
                .with_signed_body(hb(diff.encode().await.map_err(|e| e.to_string()), "encode")?),
            captured: hb(diff_other.encode().await.map_err(|e| e.to_string()), "encode")?,
            read: true,
            control_conflict: false,
        };
        self.run_step(&step, forms, out).await?;

        // --- PATCH /sync/account (SyncPacket with a real diff) ------------
        {
            let ch = &changes[0];
            let innocuous = SyncPacket {
                status: a_status.clone(),
                diff: Default::default(),
                compare: None,
            };
            let captured = hb(innocuous.encode().await.map_err(|e| e.to_string()), "encode")?;
            let folder = self.target_folder(ch);
            self.add_notes(folder, ch).await?;
            if ch.new_folder {
                self.note_counter += 1;
                let name = format!("folder {}", self.note_counter);
                let id = hb(self.a.add_folder(&name).await, "add_folder")?;
                self.add_notes(id, ch).await?;
            }
            let remote = self.server_status().await?;
            let (needs, body) = hb(self.a.sync_packet_body(remote).await, "sync_packet_body")?;
            if !needs {
                out.note("SyncPacket body had needs_sync == false".into());
            }
            let step = Step {
                name: "PATCH /sync/account",
                req: RawRequest::new(Method::PATCH, routes::ACCOUNT).with_signed_body(body),
                captured,
                read: false,
                control_conflict: false,
            };
            self.run_step(&step, forms, out).await?;
        }

        // --- PATCH /sync/account/events (PatchRequest) --------------------
        {
            let ch = &changes[1];
            let folder = self.target_folder(ch);
            let remote = self.server_status().await?;
            let Some(state) = remote.folders.get(&folder).cloned() else {
                return Err(Failure::new(
                    "harness/folder-missing-on-server",
                    format!("server status has no folder {folder}"),
                ));
            };
            let empty = PatchRequest {
                log_type: EventLogType::Folder(folder),
                commit: None,
                proof: state.1.clone(),
                patch: vec![],
            };
            let captured = hb(empty.encode().await.map_err(|e| e.to_string()), "encode")?;
            self.add_notes(folder, ch).await?;
            let (n, body) = hb(
                self.a
                    .patch_request_body(EventLogType::Folder(folder), state.0, state.1)
                    .await,
                "patch_request_body",
            )?;
            if n == 0 {
                out.note("PatchRequest body had no records".into());
            }
            let step = Step {
                name: "PATCH /sync/account/events",
                req: RawRequest::new(Method::PATCH, routes::EVENTS).with_signed_body(body),
                captured,
                read: false,
                control_conflict: false,
            };
            self.run_step(&step, forms, out).await?;
        }

        // --- POST /sync/account (UpdateSet) -------------------------------
        {
            let ch = &changes[2];
            let folder = self.target_folder(ch);
            let captured = hb(
                UpdateSet::default().encode().await.map_err(|e| e.to_string()),
                "encode",
            )?;
            self.add_notes(folder, ch).await?;
            let body = hb(self.a.update_set_body(&[folder], false).await, "update_set_body")?;
            let step = Step {
                name: "POST /sync/account",
                req: RawRequest::new(Method::POST, routes::ACCOUNT).with_signed_body(body),
                captured,
                read: false,
                control_conflict: false,
            };
            self.run_step(&step, forms, out).await?;
        }

        // --- files ---------------------------------------------------------
        {
            use sha2::{Digest, Sha256};
            use sos_core::{ExternalFile, ExternalFileName, SecretPath};
            let mut content = case.file.clone();
            content.extend_from_slice(self.phase.as_bytes());
            let name: [u8; 32] = Sha256::digest(&content).into();
            let name = ExternalFileName::from(name);
            let other_name: [u8; 32] = Sha256::digest(b"another upload").into();
            let other_name = ExternalFileName::from(other_name);
            let mut sid = [0u8; 16];
            sid.copy_from_slice(&case.key_seed[..16]);
            let secret1 = uuid::Builder::from_random_bytes(sid).into_uuid();
            sid.copy_from_slice(&case.key_seed[16..]);
            let secret2 = uuid::Builder::from_random_bytes(sid).into_uuid();
            let vault = self.a.default_folder;
            let f1 = ExternalFile::new(SecretPath(vault, secret1), name);
            let f2 = ExternalFile::new(SecretPath(vault, secret2), name);
            let f_other = ExternalFile::new(SecretPath(vault, secret1), other_name);
            let p1 = format!("{}/{}", routes::FILE, f1);
            let p2 = format!("{}/{}", routes::FILE, f2);
            let p_other = format!("{}/{}", routes::FILE, f_other).into_bytes();

            // compare files (read)
            let set = {
                let mut s = indexmap::IndexSet::new();
                s.insert(f_other);
                sos_protocol::transfer::FileSet(s)
            };
            let set_body = hb(set.encode().await.map_err(|e| e.to_string()), "encode")?;
            let step = Step {
                name: "POST /sync/files",
                req: RawRequest::new(Method::POST, routes::FILES)
                    .with_unsigned_body(set_body.clone(), sos_protocol::constants::MIME_TYPE_PROTOBUF),
                captured: status_path.clone(),
                read: true,
                control_conflict: false,
            };
            self.run_step(&step, forms, out).await?;
            // observation: altered body under a valid path signature
            {
                let empty = hb(
                    sos_protocol::transfer::FileSet(Default::default())
                        .encode()
                        .await
                        .map_err(|e| e.to_string()),
                    "encode",
                )?;
                let req = RawRequest::new(Method::POST, routes::FILES)
                    .with_unsigned_body(empty, sos_protocol::constants::MIME_TYPE_PROTOBUF);
                let r = self.valid(&req).await?;
                out.note(format!(
                    "observation: POST /sync/files with another body under the same path signature -> {} (body is not covered by the signature; read-only route)",
                    r.status
                ));
            }

            let step = Step {
                name: "PUT /sync/file/{vault}/{secret}/{name}",
                req: RawRequest::new(Method::PUT, &p1)
                    .with_unsigned_body(content.clone(), "application/octet-stream"),
                captured: p_other.clone(),
                read: false,
                control_conflict: false,
            };
            // special form: valid path signature, body altered after signing
            {
                let before = self.snap().await?;
                let mut altered = content.clone();
                altered[0] ^= 1;
                let req = RawRequest::new(Method::PUT, &p1)
                    .with_unsigned_body(altered, "application/octet-stream");
                let r = self.valid(&req).await?;
                let after = self.snap().await?;
                let mut info = CaseInfo::default();
                info.nontrivial = true;
                info.class("route/PUT /sync/file/{vault}/{secret}/{name}");
                info.class("form/other-bytes-file-body-altered");
                info.class(format!("answer/other-bytes-file-body-altered/{}", r.status));
                out.records.push(ReqRecord {
                    hash: hash_of(&(self.case_hash, self.phase, "PUT file", "altered-body")),
                    info,
                });
                if r.accepted() {
                    out.fail(
                        "accepted/other-bytes-file-body-altered/PUT /sync/file/{vault}/{secret}/{name}".into(),
                        format!("upload whose body does not match the signed path (checksum) was accepted with {}", r.status),
                    );
                }
                if after != before {
                    out.fail(
                        "state-changed/other-bytes-file-body-altered/PUT /sync/file/{vault}/{secret}/{name}".into(),
                        format!("refused upload ({}) changed the server: {}", r.status, before.diff(&after)),
                    );
                }
            }
            self.run_step(&step, forms, out).await?;

            let step = Step {
                name: "GET /sync/file/{vault}/{secret}/{name}",
                req: RawRequest::new(Method::GET, &p1),
                captured: p_other.clone(),
                read: true,
                control_conflict: false,
            };
            let r = self.run_step(&step, forms, out).await?;
            if r.body != content {
                out.note("GET file control did not return the uploaded content".into());
            }

            let step = Step {
                name: "POST /sync/file/{vault}/{secret}/{name}",
                req: RawRequest::new(Method::POST, &p1)
                    .query("vault_id", &vault.to_string())
                    .query("secret_id", &secret2.to_string())
                    .query("name", &name.to_string()),
                captured: p_other.clone(),
                read: false,
                control_conflict: false,
            };
            self.run_step(&step, forms, out).await?;

            let step = Step {
                name: "DELETE /sync/file/{vault}/{secret}/{name}",
                req: RawRequest::new(Method::DELETE, &p2),
                captured: p_other.clone(),
                read: false,
                control_conflict: false,
            };
            self.run_step(&step, forms, out).await?;
        }

        // --- websocket upgrade ---------------------------------------------
        {
            let mut req = RawRequest::new(Method::GET, routes::CHANGES);
            req.headers = vec![
                ("connection", "Upgrade".to_string()),
                ("upgrade", "websocket".to_string()),
                ("sec-websocket-version", "13".to_string()),
                ("sec-websocket-key", "dGhlIHNhbXBsZSBub25jZQ==".to_string()),
            ];
            let step = Step {
                name: "GET /sync/changes (websocket)",
                req,
                captured: status_path.clone(),
                read: false,
                control_conflict: false,
            };
            let r = self.run_step(&step, forms, out).await?;
            if r.status != 101 {
                out.note(format!("websocket control returned {} (expected 101)", r.status));
            }
            // drop the control's connection and wait until it is gone
            drop(r);
            hb(wait_no_connections(&self.client, &self.server).await, "websocket close")?;
        }

        // --- PUT on the existing account, then DELETE, then re-create ------
        let create_body = hb(self.a.create_set_body().await, "create_set_body")?;
        let b_create = hb(self.b.create_set_body().await, "create_set_body")?;
        let put_first = out.records.len();
        let put = Step {
            name: "PUT /sync/account",
            req: RawRequest::new(Method::PUT, routes::ACCOUNT).with_signed_body(create_body),
            captured: b_create,
            read: false,
            control_conflict: true,
        };
        self.run_step(&put, forms, out).await?;
        let put_last = out.records.len();

        let step = Step {
            name: "DELETE /sync/account",
            req: RawRequest::new(Method::DELETE, routes::ACCOUNT),
            captured: status_path.clone(),
            read: false,
            control_conflict: false,
        };
        self.run_step(&step, forms, out).await?;
        // creation control: the PUT request used above, now that A is gone
        let before = self.snap().await?;
        let r = self.valid(&put.req).await?;
        let after = self.snap().await?;
        if !r.is_2xx() {
            return Err(Failure::new(
                "harness/control-refused/PUT /sync/account (re-create)",
                format!(
                    "HARNESS BUG: correctly signed PUT after DELETE returned {}: {}",
                    r.status,
                    String::from_utf8_lossy(&r.body).chars().take(300).collect::<String>()
                ),
            ));
        }
        let effective = before != after;
        for rec in out.records[put_first..put_last].iter_mut() {
            rec.info.nontrivial = effective;
        }
        Ok(())
    }

    /// Creation of an account that the access lists do not admit.
    async fn creation_under_lists(&mut self, out: &mut Outcome) -> Res<()> {
        use http::Method;
        let c_id = self.c.account_id;
        let body = hb(self.c.create_set_body().await, "create_set_body")?;
        let req = RawRequest::new(Method::PUT, routes::ACCOUNT).with_signed_body(body);
        let cred = Credential::signed(&self.c.device, &c_id, &req.signed_bytes());
        let lists = [
            (
                "denied-account",
                "deny-list-with-C",
                AccessLists {
                    allow: None,
                    deny: Some(vec![c_id.to_string()]),
                },
            ),
            (
                "not-allowed-account",
                "allow-list-without-C",
                AccessLists {
                    allow: Some(vec![self.a.account_id.to_string(), self.b.account_id.to_string()]),
                    deny: None,
                },
            ),
        ];
        let before = self.snap().await?;
        let first = out.records.len();
        for (form_name, cfg_name, l) in lists.iter() {
            hb(self.server.set_access(Some(l)).await, "set_access")?;
            let r = hb(send(&self.client, &self.server, &req, &cred).await, "send")?;
            let after = self.snap().await?;
            let mut info = CaseInfo::default();
            info.class("route/PUT /sync/account (new account)");
            info.class(format!("form/{form_name}"));
            info.class(format!("config/{cfg_name}"));
            info.class(format!("phase/{}", self.phase));
            info.class(format!("answer/{}/{}", form_name, r.status));
            out.records.push(ReqRecord {
                hash: hash_of(&(self.case_hash, self.phase, "PUT new", cfg_name)),
                info,
            });
            if r.accepted() {
                out.fail(
                    format!("accepted/{form_name}/PUT /sync/account (new account)"),
                    format!("creation of an account that is {form_name} ({cfg_name}) was accepted with {}", r.status),
                );
            }
            if after != before {
                out.fail(
                    format!("state-changed/{form_name}/PUT /sync/account (new account)"),
                    format!("refused creation ({}) changed the server: {}", r.status, before.diff(&after)),
                );
            }
        }
        hb(self.server.set_access(None).await, "set_access")?;
        // control: same bytes without lists, then clean up
        let r = hb(send(&self.client, &self.server, &req, &cred).await, "send")?;
        let after = self.snap().await?;
        if !r.is_2xx() {
            return Err(Failure::new(
                "harness/control-refused/PUT /sync/account (new account)",
                format!("HARNESS BUG: creation of C without access lists returned {}", r.status),
            ));
        }
        let effective = after != before;
        for rec in out.records[first..].iter_mut() {
            rec.info.nontrivial = effective;
        }
        let del = RawRequest::new(Method::DELETE, routes::ACCOUNT);
        let r = hb(
            send_signed(&self.client, &self.server, &del, &self.c.device, &c_id).await,
            "send",
        )?;
        if !r.is_2xx() {
            out.note(format!("cleanup DELETE of account C returned {}", r.status));
        }
        Ok(())
    }
}

fn derive_seed(seed: &[u8; 32], tag: u8) -> [u8; 32] {
    use sha2::{Digest, Sha256};
    let mut h = Sha256::new();
    h.update(seed);
    h.update([tag]);
    h.finalize().into()
}

async fn setup(case: &Case, case_hash: u64, out: &mut Outcome) -> Res<World> {
    use http::Method;
    let client = http_client();
    let server = hb(
        spawn_server(ServerOptions {
            data_dir: None,
            access: None,
            sqlite: case.sqlite,
        })
        .await,
        "spawn_server",
    )?;
    let mut a = hb(ClientAccount::create("account-a", "correct horse battery staple a").await, "create account")?;
    let b = hb(ClientAccount::create("account-b", "correct horse battery staple b").await, "create account")?;
    let c = hb(ClientAccount::create("account-c", "correct horse battery staple c").await, "create account")?;
    let d2 = DeviceKey::from_seed(derive_seed(&case.key_seed, 2));
    let unknown = DeviceKey::from_seed(derive_seed(&case.key_seed, 3));
    let default_folder = a.default_folder;
    for i in 0..case.initial_notes {
        hb(a.add_note(&default_folder, &format!("initial {i}"), "initial").await, "add_note")?;
    }
    let extra_folder = if case.extra_folder {
        let id = hb(a.add_folder("extra").await, "add_folder")?;
        hb(a.add_note(&id, "extra note", "x").await, "add_note")?;
        Some(id)
    } else {
        None
    };
    if case.trust_in_create_set {
        let trust = DeviceEvent::Trust(TrustedDevice::new(d2.public_key(), None, None));
        hb(
            a.account
                .patch_devices_unchecked(&[trust])
                .await
                .map_err(|e| e.to_string()),
            "patch_devices",
        )?;
    }
    // create A and B on the server (hand-signed PUT)
    for acct in [&a, &b] {
        let body = hb(acct.create_set_body().await, "create_set_body")?;
        let req = RawRequest::new(Method::PUT, routes::ACCOUNT).with_signed_body(body);
        let r = hb(
            send_signed(&client, &server, &req, &acct.device, &acct.account_id).await,
            "send",
        )?;
        if !r.is_2xx() {
            return Err(Failure::new(
                "harness/control-refused/PUT /sync/account (setup)",
                format!(
                    "HARNESS BUG: account creation returned {}: {}",
                    r.status,
                    String::from_utf8_lossy(&r.body)
                ),
            ));
        }
    }
    let mut w = World {
        client,
        server,
        a,
        b,
        c,
        d2,
        unknown,
        extra_folder,
        d2_revoked: false,
        case_hash,
        phase: "before-revocation",
        note_counter: 0,
    };
    if !case.trust_in_create_set {
        // trust device 2 locally and sync it to the server
        let trust = DeviceEvent::Trust(TrustedDevice::new(w.d2.public_key(), None, None));
        hb(
            w.a.account
                .patch_devices_unchecked(&[trust])
                .await
                .map_err(|e| e.to_string()),
            "patch_devices",
        )?;
        let remote = w.server_status().await?;
        let (_, body) = hb(w.a.sync_packet_body(remote).await, "sync_packet_body")?;
        let r = w
            .valid(&RawRequest::new(Method::PATCH, routes::ACCOUNT).with_signed_body(body))
            .await?;
        if !r.is_2xx() {
            return Err(Failure::new(
                "harness/control-refused/PATCH /sync/account (trust device 2)",
                format!("sync of the device log returned {}", r.status),
            ));
        }
    }
    let snap = w.snap().await?;
    let d2_hex = hex::encode(w.d2.public_key().as_ref());
    let trusted = snap
        .accounts
        .get(&w.a.account_id.to_string())
        .map(|v| v.devices.contains(&d2_hex))
        .unwrap_or(false);
    if !trusted {
        return Err(Failure::new(
            "control-refused/second-device-after-trust-sync",
            "device 2 was trusted in the device log and the log reached the server (CreateSet or sync), but it is not in the server's device set (harness bug, or the server does not refresh its cached device set)".to_string(),
        ));
    }
    let _ = out;
    Ok(w)
}

async fn revoke_d2(w: &mut World, via: RevokeVia, out: &mut Outcome) -> Res<()> {
    use http::Method;
    let pk = w.d2.public_key();
    hb(
        w.a.account.revoke_device(&pk).await.map_err(|e| e.to_string()),
        "revoke_device",
    )?;
    let remote = w.server_status().await?;
    let req = match via {
        RevokeVia::SyncPacket => {
            let (_, body) = hb(w.a.sync_packet_body(remote).await, "sync_packet_body")?;
            RawRequest::new(Method::PATCH, routes::ACCOUNT).with_signed_body(body)
        }
        RevokeVia::EventPatch => {
            let (_, body) = hb(
                w.a.patch_request_body(EventLogType::Device, remote.device.0, remote.device.1)
                    .await,
                "patch_request_body",
            )?;
            RawRequest::new(Method::PATCH, routes::EVENTS).with_signed_body(body)
        }
        RevokeVia::UpdateSet => {
            let body = hb(w.a.update_set_body(&[], true).await, "update_set_body")?;
            RawRequest::new(Method::POST, routes::ACCOUNT).with_signed_body(body)
        }
    };
    let r = w.valid(&req).await?;
    if !r.is_2xx() {
        return Err(Failure::new(
            "harness/control-refused/revocation-sync",
            format!("sync of the revocation ({via:?}) returned {}", r.status),
        ));
    }
    w.d2_revoked = true;
    let snap = w.snap().await?;
    let d2_hex = hex::encode(pk.as_ref());
    let still = snap
        .accounts
        .get(&w.a.account_id.to_string())
        .map(|v| v.devices.contains(&d2_hex))
        .unwrap_or(false);
    if still {
        out.note(format!(
            "after syncing the revocation via {via:?} the server's cached device set still contains device 2"
        ));
    }
    Ok(())
}

/// Account B revokes its own (only) device and syncs that. Afterwards the
/// account has no trusted device: every request signed by the former device
/// must be refused (an empty device set must not mean "anyone").
async fn all_devices_revoked(w: &mut World, case: &Case, out: &mut Outcome) -> Res<()> {
    use http::Method;
    let b_id = w.b.account_id;
    let key = w.b.device.clone();
    let folder = w.b.default_folder;
    let scan = ScanRequest {
        log_type: EventLogType::Account,
        limit: 8,
        offset: 0,
    };
    let diff = DiffRequest {
        log_type: EventLogType::Device,
        from_hash: None,
    };
    let scan_body = hb(scan.encode().await.map_err(|e| e.to_string()), "encode")?;
    let diff_body = hb(diff.encode().await.map_err(|e| e.to_string()), "encode")?;
    let files_body = hb(
        sos_protocol::transfer::FileSet(Default::default())
            .encode()
            .await
            .map_err(|e| e.to_string()),
        "encode",
    )?;
    let reads: Vec<(&'static str, RawRequest)> = vec![
        ("GET /sync/account/status", RawRequest::new(Method::GET, routes::STATUS)),
        ("HEAD /sync/account", RawRequest::new(Method::HEAD, routes::ACCOUNT)),
        ("GET /sync/account", RawRequest::new(Method::GET, routes::ACCOUNT)),
        ("GET /sync/account/events", RawRequest::new(Method::GET, routes::EVENTS).with_signed_body(scan_body)),
        ("POST /sync/account/events", RawRequest::new(Method::POST, routes::EVENTS).with_signed_body(diff_body)),
        (
            "POST /sync/files",
            RawRequest::new(Method::POST, routes::FILES)
                .with_unsigned_body(files_body, sos_protocol::constants::MIME_TYPE_PROTOBUF),
        ),
    ];
    // controls while the device is still trusted
    for (name, req) in &reads {
        let r = hb(send_signed(&w.client, &w.server, req, &key, &b_id).await, "send")?;
        out.controls += 1;
        if !r.accepted() {
            return Err(Failure::new(
                format!("harness/control-refused/{name} (account B)"),
                format!("HARNESS BUG: correctly signed {name} of account B returned {}", r.status),
            ));
        }
    }
    // revoke the only device and sync (this sync is signed by the device
    // while it is still trusted: control for PATCH /sync/account)
    let pk = key.public_key();
    hb(w.b.account.revoke_device(&pk).await.map_err(|e| e.to_string()), "revoke_device")?;
    let r = hb(
        send_signed(&w.client, &w.server, &RawRequest::new(Method::GET, routes::STATUS), &key, &b_id).await,
        "send",
    )?;
    let remote = hb(decode_status(r.body).await, "decode status")?;
    let (_, body) = hb(w.b.sync_packet_body(remote.clone()).await, "sync_packet_body")?;
    let before = w.snap().await?;
    let r = hb(
        send_signed(
            &w.client,
            &w.server,
            &RawRequest::new(Method::PATCH, routes::ACCOUNT).with_signed_body(body),
            &key,
            &b_id,
        )
        .await,
        "send",
    )?;
    let mut snap = w.snap().await?;
    out.controls += 1;
    if !r.is_2xx() {
        return Err(Failure::new(
            "harness/control-refused/PATCH /sync/account (account B revokes itself)",
            format!("status {}", r.status),
        ));
    }
    if snap != before {
        out.control_changed += 1;
    }
    let devices = snap
        .accounts
        .get(&b_id.to_string())
        .map(|v| v.devices.clone())
        .unwrap_or_default();
    out.note(format!(
        "all-devices-revoked: after the sync the server lists {} trusted device(s) for account B",
        devices.len()
    ));
    let effective = devices.is_empty();
    // a pending change makes the mutating bodies state-changing
    hb(w.b.add_note(&folder, "after revocation", &case.changes[0].text).await, "add_note")?;
    let remote = {
        // server status from the backend (no trusted device can ask for it)
        let backend = w.server.backend.read().await;
        let accts = backend.accounts();
        let accts = accts.read().await;
        let acct = accts.get(&b_id).ok_or_else(|| Failure::new("harness/no-account-b", "account B missing"))?;
        let acct = acct.read().await;
        use sos_sync::SyncStorage;
        acct.sync_status().await.map_err(|e| Failure::new("harness/status", e.to_string()))?
    };
    let (_, sync_body) = hb(w.b.sync_packet_body(remote.clone()).await, "sync_packet_body")?;
    let fstate = remote.folders.get(&folder).cloned().ok_or_else(|| Failure::new("harness/folder", "no folder"))?;
    let (_, patch_body) = hb(
        w.b.patch_request_body(EventLogType::Folder(folder), fstate.0, fstate.1).await,
        "patch_request_body",
    )?;
    let update_body = hb(w.b.update_set_body(&[folder], true).await, "update_set_body")?;
    let create_body = hb(w.b.create_set_body().await, "create_set_body")?;
    use sha2::{Digest, Sha256};
    let content = [&case.file[..], b"-b"].concat();
    let fname = hex::encode(Sha256::digest(&content));
    let sid = uuid::Builder::from_random_bytes(case.key_seed[..16].try_into().unwrap()).into_uuid();
    let fpath = format!("{}/{}/{}/{}", routes::FILE, folder, sid, fname);
    let mut ws = RawRequest::new(Method::GET, routes::CHANGES);
    ws.headers = vec![
        ("connection", "Upgrade".to_string()),
        ("upgrade", "websocket".to_string()),
        ("sec-websocket-version", "13".to_string()),
        ("sec-websocket-key", "dGhlIHNhbXBsZSBub25jZQ==".to_string()),
    ];
    let mut all = reads;
    all.extend(vec![
        ("PATCH /sync/account", RawRequest::new(Method::PATCH, routes::ACCOUNT).with_signed_body(sync_body)),
        ("PATCH /sync/account/events", RawRequest::new(Method::PATCH, routes::EVENTS).with_signed_body(patch_body)),
        ("POST /sync/account", RawRequest::new(Method::POST, routes::ACCOUNT).with_signed_body(update_body)),
        (
            "PUT /sync/file/{vault}/{secret}/{name}",
            RawRequest::new(Method::PUT, &fpath).with_unsigned_body(content, "application/octet-stream"),
        ),
        ("GET /sync/changes (websocket)", ws),
        ("PUT /sync/account", RawRequest::new(Method::PUT, routes::ACCOUNT).with_signed_body(create_body)),
        ("DELETE /sync/account", RawRequest::new(Method::DELETE, routes::ACCOUNT)),
    ]);
    for (name, req) in &all {
        let r = hb(send_signed(&w.client, &w.server, req, &key, &b_id).await, "send")?;
        let after = w.snap().await?;
        let mut info = CaseInfo::default();
        info.nontrivial = effective;
        info.class(format!("route/{name}"));
        info.class("form/revoked-last-device");
        info.class("config/none");
        info.class("phase/all-devices-revoked");
        info.class(format!("answer/revoked-last-device/{}", r.status));
        out.records.push(ReqRecord {
            hash: hash_of(&(w.case_hash, "all-devices-revoked", name)),
            info,
        });
        if r.accepted() {
            out.fail(
                format!("accepted/revoked-last-device/{name}"),
                format!(
                    "{name} signed by the former only device of account B, after that device was revoked and the revocation synced (server lists {} device(s)), was accepted with {}",
                    devices.len(),
                    r.status
                ),
            );
        }
        if after != snap {
            out.fail(
                format!("state-changed/revoked-last-device/{name}"),
                format!("{name} by a revoked device returned {} and changed the server: {}", r.status, snap.diff(&after)),
            );
            snap = after;
        }
    }
    Ok(())
}

async fn restart(w: &mut World) -> Res<()> {
    let opts = ServerOptions {
        data_dir: Some(w.server.data_dir.clone()),
        access: None,
        sqlite: w.server.sqlite,
    };
    let placeholder = hb(spawn_server(opts).await, "restart server")?;
    let old = std::mem::replace(&mut w.server, placeholder);
    // keep the temp dir alive for the rest of the case
    if let Some(tmp) = old.shutdown().await {
        keep_dir(tmp);
    }
    Ok(())
}

/// Temp dirs of restarted servers are kept until the case is over.
static KEPT_DIRS: std::sync::Mutex<Vec<tempfile::TempDir>> = std::sync::Mutex::new(vec![]);
fn keep_dir(t: tempfile::TempDir) {
    KEPT_DIRS.lock().unwrap().push(t);
}
fn drop_kept_dirs() {
    KEPT_DIRS.lock().unwrap().clear();
}

async fn routes_case(case: &Case, case_hash: u64, out: &mut Outcome) -> Res<()> {
    let mut w = setup(case, case_hash, out).await?;
    w.phase = "before-revocation";
    w.run_table(case, 0, &Form::FORGED, out).await?;
    w.creation_under_lists(out).await?;
    revoke_d2(&mut w, case.revoke_via, out).await?;
    w.phase = "after-revocation";
    w.run_table(case, 1, &Form::FORGED, out).await?;
    restart(&mut w).await?;
    w.phase = "after-revocation-and-restart";
    w.run_table(case, 2, &Form::REDUCED, out).await?;
    w.phase = "all-devices-revoked";
    all_devices_revoked(&mut w, case, out).await?;
    let World { server, .. } = w;
    let _ = server.shutdown().await;
    drop_kept_dirs();
    Ok(())
}

// ---------------------------------------------------------------------------
// access-file: lists loaded from config.toml
// ---------------------------------------------------------------------------

pub const SIG_DENY_IGNORED: &str = "access/deny-list-ignored-when-also-allowed";

async fn access_file_case(case: &Case, case_hash: u64, out: &mut Outcome) -> Res<()> {
    use http::Method;
    let mut w = setup(case, case_hash, out).await?;
    w.phase = "access-file";
    let a_id = w.a.account_id;
    let b_id = w.b.account_id;
    let c_id = w.c.account_id;
    // a pending change makes the sync packet state-changing
    let ch = case.changes[0].clone();
    let folder = w.target_folder(&ch);
    w.add_notes(folder, &ch).await?;
    let remote = w.server_status().await?;
    let (_, sync_body) = hb(w.a.sync_packet_body(remote.clone()).await, "sync_packet_body")?;
    let fstate = remote.folders.get(&folder).cloned().unwrap();
    let (_, patch_body) = hb(
        w.a.patch_request_body(EventLogType::Folder(folder), fstate.0, fstate.1).await,
        "patch_request_body",
    )?;
    let update_body = hb(w.a.update_set_body(&[folder], false).await, "update_set_body")?;
    let scan = ScanRequest {
        log_type: EventLogType::Account,
        limit: 8,
        offset: 0,
    };
    let diff = DiffRequest {
        log_type: EventLogType::Account,
        from_hash: None,
    };
    let scan_body = hb(scan.encode().await.map_err(|e| e.to_string()), "encode")?;
    let diff_body = hb(diff.encode().await.map_err(|e| e.to_string()), "encode")?;
    let files_body = hb(
        sos_protocol::transfer::FileSet(Default::default())
            .encode()
            .await
            .map_err(|e| e.to_string()),
        "encode",
    )?;
    // a file on the server so that the file routes would be effective
    use sha2::{Digest, Sha256};
    let content = case.file.clone();
    let name = hex::encode(Sha256::digest(&content));
    let content2 = [&content[..], b"2"].concat();
    let name2 = hex::encode(Sha256::digest(&content2));
    let sid = uuid::Builder::from_random_bytes(case.key_seed[..16].try_into().unwrap()).into_uuid();
    let sid2 = uuid::Builder::from_random_bytes(case.key_seed[16..].try_into().unwrap()).into_uuid();
    let vault = w.a.default_folder;
    let p_existing = format!("{}/{}/{}/{}", routes::FILE, vault, sid, name);
    let p_new = format!("{}/{}/{}/{}", routes::FILE, vault, sid, name2);
    let r = w
        .valid(&RawRequest::new(Method::PUT, &p_existing).with_unsigned_body(content.clone(), "application/octet-stream"))
        .await?;
    if !r.is_2xx() {
        return Err(Failure::new("harness/control-refused/PUT file (setup)", format!("status {}", r.status)));
    }
    let mut ws = RawRequest::new(Method::GET, routes::CHANGES);
    ws.headers = vec![
        ("connection", "Upgrade".to_string()),
        ("upgrade", "websocket".to_string()),
        ("sec-websocket-version", "13".to_string()),
        ("sec-websocket-key", "dGhlIHNhbXBsZSBub25jZQ==".to_string()),
    ];
    let create_c = hb(w.c.create_set_body().await, "create_set_body")?;
    // (name, request, mutating?) in an order in which every request would be
    // effective if admitted; DELETE account last.
    let reqs: Vec<(&'static str, RawRequest, bool)> = vec![
        ("GET /sync/account/status", RawRequest::new(Method::GET, routes::STATUS), false),
        ("HEAD /sync/account", RawRequest::new(Method::HEAD, routes::ACCOUNT), false),
        ("GET /sync/account", RawRequest::new(Method::GET, routes::ACCOUNT), false),
        ("GET /sync/account/events", RawRequest::new(Method::GET, routes::EVENTS).with_signed_body(scan_body), false),
        ("POST /sync/account/events", RawRequest::new(Method::POST, routes::EVENTS).with_signed_body(diff_body), false),
        ("POST /sync/files", RawRequest::new(Method::POST, routes::FILES).with_unsigned_body(files_body, sos_protocol::constants::MIME_TYPE_PROTOBUF), false),
        ("GET /sync/file/{vault}/{secret}/{name}", RawRequest::new(Method::GET, &p_existing), false),
        ("GET /sync/changes (websocket)", ws, true),
        ("PATCH /sync/account/events", RawRequest::new(Method::PATCH, routes::EVENTS).with_signed_body(patch_body), true),
        ("PATCH /sync/account", RawRequest::new(Method::PATCH, routes::ACCOUNT).with_signed_body(sync_body), true),
        ("POST /sync/account", RawRequest::new(Method::POST, routes::ACCOUNT).with_signed_body(update_body), true),
        ("PUT /sync/file/{vault}/{secret}/{name}", RawRequest::new(Method::PUT, &p_new).with_unsigned_body(content2, "application/octet-stream"), true),
        (
            "POST /sync/file/{vault}/{secret}/{name}",
            RawRequest::new(Method::POST, &p_existing)
                .query("vault_id", &vault.to_string())
                .query("secret_id", &sid2.to_string())
                .query("name", &name),
            true,
        ),
        ("DELETE /sync/file/{vault}/{secret}/{name}", RawRequest::new(Method::DELETE, &p_existing), true),
        ("DELETE /sync/account", RawRequest::new(Method::DELETE, routes::ACCOUNT), true),
    ];

    let configs: Vec<(&'static str, &'static str, AccessLists, AccessLists)> = vec![
        (
            "denied-account",
            "deny-list-with-A",
            AccessLists { allow: None, deny: Some(vec![a_id.to_string()]) },
            AccessLists { allow: None, deny: Some(vec![c_id.to_string()]) },
        ),
        (
            "not-allowed-account",
            "allow-list-without-A",
            AccessLists { allow: Some(vec![b_id.to_string()]), deny: None },
            AccessLists { allow: Some(vec![b_id.to_string()]), deny: None },
        ),
        (
            "not-allowed-account",
            "empty-allow-list",
            AccessLists { allow: Some(vec![]), deny: None },
            AccessLists { allow: Some(vec![]), deny: None },
        ),
        (
            "denied-and-allowed-account",
            "allow+deny-with-A",
            AccessLists { allow: Some(vec![a_id.to_string(), b_id.to_string()]), deny: Some(vec![a_id.to_string()]) },
            AccessLists { allow: Some(vec![c_id.to_string(), b_id.to_string()]), deny: Some(vec![c_id.to_string()]) },
        ),
    ];

    let mut rec_routes: Vec<(usize, &'static str)> = vec![];
    let mut both_admitted: Vec<String> = vec![];
    let mut stop_mutating_in_both = false;
    for (form_name, cfg_name, lists_a, lists_c) in configs.iter() {
        let is_both = *form_name == "denied-and-allowed-account";
        // restart from a config file that contains the lists
        let opts = ServerOptions {
            data_dir: Some(w.server.data_dir.clone()),
            access: Some(lists_a.clone()),
            sqlite: w.server.sqlite,
        };
        let placeholder = hb(spawn_server(opts).await, "restart server")?;
        let old = std::mem::replace(&mut w.server, placeholder);
        if let Some(tmp) = old.shutdown().await {
            keep_dir(tmp);
        }
        // B is admitted under every one of these configs (non-vacuity)
        let rb = hb(
            send_signed(&w.client, &w.server, &RawRequest::new(Method::GET, routes::STATUS), &w.b.device, &b_id).await,
            "send",
        )?;
        if rb.status != 200 {
            return Err(Failure::new(
                format!("harness/admission-control-refused/{cfg_name}"),
                format!("account B (admitted by {cfg_name}) got {} for a correctly signed GET status", rb.status),
            ));
        }
        let mut before = w.snap().await?;
        for (rname, req, mutating) in reqs.iter() {
            if is_both && *mutating && (stop_mutating_in_both || !both_admitted.is_empty()) {
                // the deny list is ignored: do not destroy the fixture
                continue;
            }
            let r = w.valid(req).await?;
            let after = w.snap().await?;
            let mut info = CaseInfo::default();
            info.class(format!("route/{rname}"));
            info.class(format!("form/{form_name}"));
            info.class(format!("config/{cfg_name} (config.toml)"));
            info.class("phase/access-file");
            info.class(format!("answer/{}/{}", form_name, r.status));
            rec_routes.push((out.records.len(), *rname));
            out.records.push(ReqRecord {
                hash: hash_of(&(case_hash, "access-file", rname, cfg_name)),
                info,
            });
            if r.accepted() {
                if is_both {
                    both_admitted.push(format!("{rname} -> {}", r.status));
                } else {
                    out.fail(
                        format!("accepted/{form_name}/{rname}"),
                        format!("{rname} correctly signed by account A, which is {form_name} ({cfg_name} in config.toml), was accepted with {}", r.status),
                    );
                }
            }
            if after != before {
                if !is_both {
                    out.fail(
                        format!("state-changed/{form_name}/{rname}"),
                        format!("{rname} of a {form_name} ({cfg_name}) returned {} and changed the server: {}", r.status, before.diff(&after)),
                    );
                }
                before = after;
            }
            if r.status == 101 {
                drop(r);
                hb(wait_no_connections(&w.client, &w.server).await, "websocket close")?;
                before = w.snap().await?;
            }
        }
        if is_both {
            stop_mutating_in_both = true;
        }
        // account creation of C under the corresponding lists
        hb(w.server.set_access(Some(lists_c)).await, "set_access")?;
        let req = RawRequest::new(Method::PUT, routes::ACCOUNT).with_signed_body(create_c.clone());
        let r = hb(send_signed(&w.client, &w.server, &req, &w.c.device, &c_id).await, "send")?;
        let after = w.snap().await?;
        let mut info = CaseInfo::default();
        info.class("route/PUT /sync/account (new account)");
        info.class(format!("form/{form_name}"));
        info.class(format!("config/{cfg_name}"));
        info.class("phase/access-file");
        info.class(format!("answer/{}/{}", form_name, r.status));
        rec_routes.push((out.records.len(), "PUT new"));
        out.records.push(ReqRecord {
            hash: hash_of(&(case_hash, "access-file", "PUT new", cfg_name)),
            info,
        });
        if r.accepted() {
            if is_both {
                both_admitted.push(format!("PUT /sync/account (new account) -> {}", r.status));
                let del = RawRequest::new(Method::DELETE, routes::ACCOUNT);
                hb(w.server.set_access(None).await, "set_access")?;
                let _ = hb(send_signed(&w.client, &w.server, &del, &w.c.device, &c_id).await, "send")?;
            } else {
                out.fail(
                    format!("accepted/{form_name}/PUT /sync/account (new account)"),
                    format!("creation of account C, which is {form_name}, was accepted with {}", r.status),
                );
            }
        } else if after != before {
            out.fail(
                format!("state-changed/{form_name}/PUT /sync/account (new account)"),
                format!("refused creation ({}) changed the server: {}", r.status, before.diff(&after)),
            );
        }
    }
    if !both_admitted.is_empty() {
        out.fail(
            SIG_DENY_IGNORED.to_string(),
            format!(
                "account on BOTH the allow and the deny list (config.toml: allow=[A,B] deny=[A]) is admitted although the statement and the doc comment of AccessControlConfig say deny takes precedence: {}",
                both_admitted.join("; ")
            ),
        );
    }
    // positive control without lists: the same requests are accepted. Every
    // control runs on a fresh copy of the (unchanged) data directory so that
    // it meets exactly the state the refused request met.
    let pristine = w.server.data_dir.clone();
    let backend_sqlite = w.server.sqlite;
    let copies = hb(
        tempfile::Builder::new().prefix("sv-http-copies-").tempdir().map_err(|e| e.to_string()),
        "tempdir",
    )?;
    let mut effective: std::collections::BTreeMap<&'static str, bool> = Default::default();
    let mut before = w.snap().await?;
    // stop the server that owns the pristine directory before copying it
    {
        let scratch = hb(spawn_server(ServerOptions::default()).await, "scratch server")?;
        let old = std::mem::replace(&mut w.server, scratch);
        if let Some(tmp) = old.shutdown().await {
            keep_dir(tmp);
        }
        wait_quiescent(&pristine).await;
    }
    for (i, (rname, req, mutating)) in reqs.iter().enumerate() {
        let copy = copies.path().join(format!("server-{i}"));
        hb(copy_dir_all(&pristine, &copy), "copy data dir")?;
        let opts = ServerOptions {
            data_dir: Some(copy),
            access: None,
            sqlite: backend_sqlite,
        };
        let fresh = hb(spawn_server(opts).await, "restart server")?;
        let old = std::mem::replace(&mut w.server, fresh);
        if let Some(tmp) = old.shutdown().await {
            keep_dir(tmp);
        }
        let start = w.snap().await?;
        if i > 0 && *mutating && start.accounts != before.accounts {
            // (sanity) every copy starts from the same account state
            out.note(format!("access-file: copies of the data dir differ in account state: {}", before.diff(&start)));
        }
        if i == 0 {
            before = start.clone();
        }
        let r = w.valid(req).await?;
        let after = w.snap().await?;
        out.controls += 1;
        if !r.accepted() {
            return Err(Failure::new(
                format!("harness/control-refused/{rname}"),
                format!("HARNESS BUG: correctly signed {rname} without access lists returned {}", r.status),
            ));
        }
        let changed = after != start;
        if *mutating && changed {
            out.control_changed += 1;
        }
        effective.insert(*rname, !*mutating || changed);
        if r.status == 101 {
            drop(r);
            hb(wait_no_connections(&w.client, &w.server).await, "websocket close")?;
        }
    }
    let before = w.snap().await?;
    // creation control: account A was deleted by the last control, C is new
    {
        let req = RawRequest::new(Method::PUT, routes::ACCOUNT).with_signed_body(create_c.clone());
        let r = hb(send_signed(&w.client, &w.server, &req, &w.c.device, &c_id).await, "send")?;
        let after = w.snap().await?;
        out.controls += 1;
        if !r.is_2xx() {
            return Err(Failure::new(
                "harness/control-refused/PUT /sync/account (new account)",
                format!("HARNESS BUG: creation of C without access lists returned {}", r.status),
            ));
        }
        if after != before {
            out.control_changed += 1;
        }
        effective.insert("PUT new", after != before);
    }
    for (idx, rname) in rec_routes {
        let nt = effective.get(rname).copied().unwrap_or(false);
        out.records[idx].info.nontrivial = nt;
        out.records[idx].info.class(if nt {
            "control/accepted-and-effective"
        } else {
            "control/accepted-no-effect"
        });
    }
    let World { server, .. } = w;
    let _ = server.shutdown().await;
    drop_kept_dirs();
    Ok(())
}

// ---------------------------------------------------------------------------
// Driver glue
// ---------------------------------------------------------------------------

#[derive(Clone, Copy, PartialEq, Eq)]
enum Mode {
    Routes,
    AccessFile,
}

/// Run a case; returns (case info, all failures in order, outcome).
fn run_case(case: &Case, mode: Mode) -> (CaseInfo, Vec<Failure>, Outcome) {
    let case_hash = hash_json(&serde_json::to_value(case).unwrap_or(Value::Null));
    let mut out = Outcome::default();
    let res = block_on_mt(async {
        match mode {
            Mode::Routes => routes_case(case, case_hash, &mut out).await,
            Mode::AccessFile => access_file_case(case, case_hash, &mut out).await,
        }
    });
    let mut failures = std::mem::take(&mut out.failures);
    if let Err(f) = res {
        failures.push(f);
    }
    if std::env::var("VERIF_DEBUG").is_ok() {
        for f in &failures {
            eprintln!("C11 failure: {} : {}", f.signature, f.message);
        }
        for n in &out.notes {
            eprintln!("C11 note: {n}");
        }
        eprintln!(
            "C11 requests={} controls={} effective={}",
            out.records.len(),
            out.controls,
            out.control_changed
        );
    }
    let mut info = CaseInfo::default();
    info.nontrivial = out.records.iter().any(|r| r.info.nontrivial);
    info.inner_evals = out.records.len() as u64;
    info.class(if case.sqlite { "server-backend/sqlite" } else { "server-backend/fs" });
    info.class(format!("revoke-via/{:?}", case.revoke_via));
    info.class(if case.trust_in_create_set {
        "trust-via/create-set"
    } else {
        "trust-via/sync"
    });
    info.class(format!("controls-effective/{}-of-{}", out.control_changed, out.controls));
    (info, failures, out)
}

fn choose_failure(shard: &Shard, failures: Vec<Failure>) -> CheckResult {
    if failures.is_empty() {
        return Ok(());
    }
    // an unknown failure wins over known findings
    if let Some(f) = failures.iter().find(|f| !shard.is_known(&f.signature)) {
        let mut f = f.clone();
        if failures.len() > 1 {
            f.message = format!(
                "{} [+{} more: {}]",
                f.message,
                failures.len() - 1,
                failures
                    .iter()
                    .map(|x| x.signature.clone())
                    .filter(|s| *s != f.signature)
                    .take(12)
                    .collect::<Vec<_>>()
                    .join(", ")
            );
        }
        return Err(f);
    }
    Err(failures[0].clone())
}

fn run(shard: &Shard, rep: &mut Report) {
    silence_stdout();
    rep.exhaustive = Some(true);
    let side: RefCell<(Vec<ReqRecord>, Vec<String>, bool)> = RefCell::new((vec![], vec![], false));
    let harness_errors: RefCell<Vec<String>> = RefCell::new(vec![]);
    let total_routes = shard.tier.pick(4, 33);
    let total_access = shard.tier.pick(1, 3);
    // the access-file cases go to the last shards
    let access_share = {
        let rev = Shard {
            index: shard.count - 1 - shard.index,
            ..shard.clone()
        };
        rev.share(total_access)
    };
    for (sub, mode, n) in [
        ("routes", Mode::Routes, shard.share(total_routes)),
        ("access-file", Mode::AccessFile, access_share),
    ] {
        drive(shard, rep, sub, n, case_strategy(shard.index % 2 == 1).no_shrink(), |case| {
            let (info, mut failures, out) = run_case(case, mode);
            // a failure of the harness itself (refused positive control,
            // server did not start, ...) is not a verdict on the property:
            // the run becomes inconclusive
            let harness: Vec<Failure> = failures
                .iter()
                .filter(|f| f.signature.starts_with("harness/"))
                .cloned()
                .collect();
            failures.retain(|f| !f.signature.starts_with("harness/"));
            for f in harness {
                harness_errors.borrow_mut().push(format!(
                    "{sub}: {}: {} (case {})",
                    f.signature,
                    f.message,
                    truncate_json(&serde_json::to_value(case).unwrap_or(Value::Null), 300)
                ));
            }
            let res = choose_failure(shard, failures);
            let mut s = side.borrow_mut();
            let known_or_ok = match &res {
                Ok(()) => true,
                Err(f) => shard.is_known(&f.signature),
            };
            if !s.2 {
                s.0.extend(out.records);
                for n in out.notes {
                    let everywhere = n.starts_with("observation:")
                        || n.starts_with("all-devices-revoked:")
                        || n.starts_with("access-file controls");
                    if (!everywhere || shard.index == 0)
                        && !s.1.contains(&n)
                    {
                        s.1.push(n);
                    }
                }
            }
            if !known_or_ok {
                // shrinking re-runs follow: stop collecting
                s.2 = true;
            }
            (info, res)
        });
        side.borrow_mut().2 = false;
    }
    let (records, notes, _) = side.into_inner();
    for r in records {
        rep.record_case("requests", r.hash, &r.info);
    }
    if shard.index == 0 {
        rep.notes.push("unauthenticated by design (not asserted): GET /, GET /api/v1, GET /api/v1/docs, /api/v1/docs/openapi.json, GET /api/v1/sync/connections, GET /api/v1/relay".into());
    }
    rep.notes.extend(notes);
    rep.transient.extend(harness_errors.into_inner());
}

fn replay(shard: &Shard, sub: &str, case: &Value) -> CheckResult {
    let case: Case = from_case(case).map_err(|e| Failure::new("replay/bad-case", e))?;
    let mode = if sub == "access-file" {
        Mode::AccessFile
    } else {
        Mode::Routes
    };
    let (_, failures, _) = with_silenced_stdout(|| run_case(&case, mode));
    choose_failure(shard, failures)
}
