use sos_verif::framework::*;
use std::path::Path;

#[global_allocator]
static GLOBAL: sos_verif::alloc_count::Counting = sos_verif::alloc_count::Counting;

fn usage() -> ! {
    eprintln!("usage: sv check <ID> [quick|thorough] | sv replay <file> | sv worker ... | sv list");
    std::process::exit(2)
}

fn main() {
    let args: Vec<String> = std::env::args().skip(1).collect();
    if args.is_empty() {
        usage();
    }
    let reg = sos_verif::registry();
    match args[0].as_str() {
        "list" => {
            for d in &reg {
                println!("{}", d.meta.id);
            }
        }
        "check" => {
            let id = args.get(1).unwrap_or_else(|| usage());
            let tier = match args
                .get(2)
                .cloned()
                .or_else(|| std::env::var("VERIF_TIER").ok())
                .as_deref()
            {
                Some("thorough") => Tier::Thorough,
                _ => Tier::Quick,
            };
            let Some(def) = reg.iter().find(|d| d.meta.id == id) else {
                eprintln!("unknown property {id}");
                std::process::exit(2);
            };
            std::process::exit(run_check(def, tier, seed_from_env()));
        }
        "worker" => {
            let id = args.get(1).unwrap_or_else(|| usage());
            let def = reg.iter().find(|d| d.meta.id == id).unwrap();
            std::process::exit(run_worker(def, &args[2..]));
        }
        "replay" => {
            let file = args.get(1).unwrap_or_else(|| usage());
            let bytes = std::fs::read(file).unwrap_or_default();
            let rf: Result<ReplayFile, _> = serde_json::from_slice(&bytes);
            let Ok(rf) = rf else {
                eprintln!("cannot parse replay file {file}");
                std::process::exit(2);
            };
            let Some(def) = reg.iter().find(|d| d.meta.id == rf.property) else {
                eprintln!("unknown property {}", rf.property);
                std::process::exit(2);
            };
            std::process::exit(run_replay(def, Path::new(file)));
        }
        other => {
            // internal sub-modes (crash children, decoder workers, ...)
            std::process::exit(sos_verif::internal_mode(other, &args[1..]));
        }
    }
}
