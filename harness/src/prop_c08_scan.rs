//! C08 scan part (ancestor search through AutoMerge::scan_proofs).
use crate::framework::*;
use serde_json::Value;

pub fn run(_shard: &Shard, _rep: &mut Report) {}

pub fn replay(_shard: &Shard, _case: &Value) -> CheckResult {
    Ok(())
}
