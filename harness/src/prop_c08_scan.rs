//! C08 scan part: the ancestor search `AutoMerge::scan_proofs` over the real
//! direct client, with the device's folder log set to P ++ A and the
//! server's to P ++ B.
use crate::engine_acct::{cfg_strategy, AcctCfg};
use crate::engine_sync::*;
use crate::framework::*;
use proptest::prelude::*;
use serde::{Deserialize, Serialize};
use serde_json::Value;
use sos_account::Account;
use sos_core::events::EventLogType;
use sos_protocol::{AsConflict, ScanRequest};
use sos_remote_sync::AutoMerge;

#[derive(Clone, Debug, Serialize, Deserialize, PartialEq, Eq, Hash)]
pub struct ScanCase {
    pub cfg: AcctCfg,
    pub server_db: bool,
    /// number of shared prefix events beyond the two seed secrets (0..70 crosses the 32-proof page)
    pub prefix: u8,
    /// device 0 suffix (A) and device 1 suffix (B, pushed to the server)
    pub a: Vec<Edit>,
    pub b: Vec<Edit>,
}

fn folder_edit() -> impl Strategy<Value = Edit> {
    let word = prop_oneof![Just("x".to_string()), Just("y".to_string())];
    prop_oneof![
        4 => (word.clone(), "[a-z]{1,4}").prop_map(|(label, text)| Edit::CreateSecret { folder: 0, label, text }),
        4 => (prop_oneof![Just(0u16), Just(40000u16), any::<u16>()], word.clone(), "[a-z]{1,4}").prop_map(|(sec, label, text)| Edit::UpdateSecret { sec, label, text }),
        3 => prop_oneof![Just(0u16), Just(40000u16), any::<u16>()].prop_map(|sec| Edit::DeleteSecret { sec }),
        2 => word.clone().prop_map(|name| Edit::RenameFolder { folder: 0, name }),
        2 => word.prop_map(|text| Edit::SetDescription { folder: 0, text }),
    ]
}

pub fn case_strategy() -> impl Strategy<Value = ScanCase> {
    (
        cfg_strategy(),
        any::<bool>(),
        prop_oneof![4 => 0u8..8, 2 => 25u8..40, 1 => 60u8..72],
        proptest::collection::vec(folder_edit(), 0..6),
        // the scan walks the server's log backwards in pages of 32 proofs: suffixes longer than
        // one and two pages put the common ancestor on a later page
        prop_oneof![
            4 => proptest::collection::vec(folder_edit(), 0..6),
            2 => proptest::collection::vec(folder_edit(), 30..40),
            1 => proptest::collection::vec(folder_edit(), 62..72),
        ],
    )
        .prop_map(|(cfg, server_db, prefix, a, b)| ScanCase { cfg, server_db, prefix, a, b })
}

pub fn check(c: &ScanCase) -> (CaseInfo, CheckResult) {
    let mut info = CaseInfo::default();
    let r = block_on(async {
        let r = run_case(c, &mut info).await;
        sos_core::verif::set_clock(None);
        r
    });
    (info, r)
}

async fn run_case(c: &ScanCase, info: &mut CaseInfo) -> CheckResult {
    let mut w = SyncWorld::new(&c.cfg, c.server_db).await?;
    apply_edit(&mut w, 0, &Edit::CreateSecret { folder: 0, label: "one".into(), text: "1".into() }).await?;
    apply_edit(&mut w, 0, &Edit::CreateSecret { folder: 0, label: "two".into(), text: "2".into() }).await?;
    for i in 0..c.prefix {
        apply_edit(&mut w, 0, &Edit::UpdateSecret { sec: 0, label: "one".into(), text: format!("p{i}") }).await?;
    }
    for _ in 0..2 {
        w.sync(0).await.map_err(|e| Failure::new("harness/initial-sync", format!("initial sync failed: {e}")))?;
    }
    w.clone_device(0).await?;
    // device 1 makes B and pushes it; device 0 makes A and stays offline
    for e in &c.b {
        apply_edit(&mut w, 1, e).await?;
    }
    w.sync(1).await.map_err(|e| Failure::new("harness/push-b", format!("pushing B failed: {e}")))?;
    for e in &c.a {
        apply_edit(&mut w, 0, e).await?;
    }
    // the default folder and both logs
    let folder_id = {
        let a = w.devices[0].account.lock().await;
        let f = a.default_folder().await.ok_or_else(|| Failure::new("harness/no-default-folder", "no default folder"))?;
        *f.id()
    };
    let key = format!("folder:{folder_id}");
    let local = {
        let a = w.devices[0].account.lock().await;
        all_logs(&*a).await?.remove(&key).unwrap_or_default()
    };
    let remote = {
        let sv = w.server.read().await;
        all_logs(sv.storage.as_ref().unwrap()).await?.remove(&key).unwrap_or_default()
    };
    let lc: Vec<[u8; 32]> = local.iter().map(|r| r.commit).collect();
    let rc: Vec<[u8; 32]> = remote.iter().map(|r| r.commit).collect();
    let common = lc.iter().zip(rc.iter()).take_while(|(a, b)| a == b).count();
    info.inner_evals = 1;
    info.class(format!("common-prefix/{}", if common > 32 { ">32" } else if common > 8 { "9..32" } else { "<=8" }));
    if lc == rc {
        info.class("equal-logs");
    }
    // positions where the leaves agree although an earlier position differs
    let false_points: Vec<usize> = (common..lc.len().min(rc.len())).filter(|i| lc[*i] == rc[*i]).collect();
    if !false_points.is_empty() {
        info.nontrivial = true;
        info.class("agreeing-leaf-after-divergence");
    }
    if rc.len() > common + 32 {
        info.nontrivial = true;
        info.class(if rc.len() > common + 64 { "ancestor-on-scan-page-3+" } else { "ancestor-on-scan-page-2" });
    }
    if lc.len() != rc.len() && common > 0 {
        info.nontrivial = true;
        info.class("different-lengths");
    }
    let bridge = w.devices[0].bridge.clone();
    w.enter(0);
    let res = bridge.scan_proofs(ScanRequest { log_type: EventLogType::Folder(folder_id), offset: 0, limit: 32 }).await;
    w.leave(0);
    match res {
        Ok(Some((commit, proof))) => {
            // the ancestor must be a common prefix point: logs equal up to and including it
            let pos = proof.length;
            if pos == 0 || pos > lc.len() || lc[pos - 1] != *commit.as_ref() {
                return Err(Failure::new(
                    "c08/scan/ancestor-proof-inconsistent",
                    format!("scan returned commit {} with a proof of length {} that does not end at that commit in the local log ({} records)", commit, pos, lc.len()),
                ));
            }
            if pos > common {
                return Err(Failure::new(
                    "c08/scan/ancestor-not-a-common-prefix",
                    format!("scan returned position {} as the common ancestor but the logs only share their first {} records (local {} / remote {} records)", pos, common, lc.len(), rc.len()),
                ));
            }
            if pos < common {
                info.class("non-longest-ancestor");
            } else {
                info.class("longest-ancestor");
            }
        }
        Ok(None) => {
            // exhausted without a match: only legitimate when nothing is shared within range
            if common > 0 {
                return Err(Failure::new(
                    "c08/scan/common-prefix-not-found",
                    format!("scan found no ancestor although the logs share their first {} records (local {} / remote {})", common, lc.len(), rc.len()),
                ));
            }
            info.class("no-ancestor");
        }
        Err(e) => {
            if e.is_hard_conflict() {
                if common > 0 {
                    return Err(Failure::new(
                        "c08/scan/hard-conflict-with-common-prefix",
                        format!("scan reported a hard conflict although the logs share their first {} records (local {} / remote {})", common, lc.len(), rc.len()),
                    ));
                }
                info.class("hard-conflict");
            } else {
                return Err(Failure::new("c08/scan/error", format!("scan_proofs failed: {e}")));
            }
        }
    }
    Ok(())
}

pub fn run(shard: &Shard, rep: &mut Report) {
    let t = shard.tier;
    drive(shard, rep, "scan", shard.share(t.pick(200, 3_000)), case_strategy(), |c| check(c));
}

pub fn replay(_shard: &Shard, case: &Value) -> CheckResult {
    let c: ScanCase = from_case(case).map_err(|e| Failure::new("harness", e))?;
    check(&c).1
}
