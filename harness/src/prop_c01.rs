//! C01 — folder contents obey read-your-writes and survive reload.
use crate::engine_acct::*;
use crate::framework::*;
use serde_json::Value;

pub const META: PropertyMeta = PropertyMeta {
    id: "C01",
    level: "exploration",
    rule: "proptest-generated histories (1..40 ops quick, 1..100 thorough) of account-level operations (create / update meta-only or meta+value, with destination = move / move / delete / archive / unarchive secrets of all 15 kinds with user data and custom fields, empty, non-ASCII and ~1 MiB values; create / rename / re-flag / describe / delete folders; refused updates and deletes of gone ids), session operations (lock+unlock of every folder with the delegated password, sign-out+sign-in, fresh LocalAccount on the same storage) and folder-level operations with caller-chosen ids (new, live in the same or another folder, previously deleted); backend x cipher x KDF drawn per case. After every step the account's answers (list_folders, folder_description, list_secret_ids, read_secret of every live id, read_secret of every gone id) are compared with an in-memory model updated only from the arguments passed and the ids returned. Non-trivial = the history contains a delete-or-move followed later by a reopen (sign-out/in or fresh instance). Distinct = distinct history.",
    assumptions: &[
        "SecretMeta.last_updated is not compared (the storage layer touches it on write by design)",
        "folder flags are drawn from {AUTHENTICATOR, CONTACT} on user-created folders; NO_SYNC/LOCAL/SHARED/DEVICE/IDENTITY change which API applies and are excluded",
        "at most 5 folders per account (Argon2 cost); the built-in default and archive folders are never deleted",
    ],
};

pub fn def() -> PropertyDef {
    PropertyDef {
        meta: META,
        shards: |_| 16,
        run,
        replay,
        timeout_s: |t| t.pick(1800, 5 * 3600),
    }
}

pub fn check_history(h: &History, avoid: &[&str]) -> (CaseInfo, CheckResult) {
    let mut info = CaseInfo::default();
    let r = block_on(async {
        sos_core::verif::set_clock(Some((1_700_000_000i128 * 1_000_000_000, 1_000_003)));
        let mut w = AcctWorld::new(&h.cfg).await?;
        for a in avoid {
            w.avoid.insert(a.to_string());
        }
        let mut res = Ok(());
        for (i, op) in h.ops.iter().enumerate() {
            let label = format!("op #{i} {}", op_label(op));
            if let Err(f) = w.apply(op).await {
                res = Err(Failure::new(f.signature, format!("{label}: {}", f.message)));
                break;
            }
            if let Err(f) = w.check_reads(&label).await {
                res = Err(f);
                break;
            }
        }
        let st = &w.stats;
        info.inner_evals = st.steps as u64;
        info.nontrivial = st.reopen_after_delete;
        info.class(h.cfg.label());
        if st.reused_id {
            info.class("reused-id");
        }
        if st.large_value {
            info.class("large-value");
        }
        for k in &st.kinds {
            info.class(format!("kind/{}", crate::secrets::KIND_NAMES[*k as usize]));
        }
        for c in &st.classes {
            if let Some(x) = c.strip_prefix("excluded:") {
                info.excluded.push(x.to_string());
            } else {
                info.class(c.clone());
            }
        }
        if st.refused > 0 {
            info.class("refused-op");
        }
        sos_core::verif::set_clock(None);
        res
    });
    (info, r)
}

pub fn op_label(op: &Op) -> String {
    let s = format!("{:?}", op);
    let mut t: String = s.chars().take(160).collect();
    if s.len() > 160 {
        t.push_str("…");
    }
    t
}

fn avoid_list(shard: &Shard, case_hash: u64) -> Vec<&'static str> {
    // a listed known finding is excluded by construction in ~90% of the cases
    let mut v = vec![];
    if shard.has_known("c01/live-id-recreate") && case_hash % 10 != 0 {
        v.push("create-with-live-id");
    }
    if shard.has_known("c01/sqlite/create-steals-id-from-other-folder") && case_hash % 10 != 0 {
        v.push("sqlite-id-live-in-two-folders");
    }
    v
}

fn run(shard: &Shard, rep: &mut Report) {
    let t = shard.tier;
    drive(
        shard,
        rep,
        "histories",
        shard.share(t.pick(400, 6_000)),
        history_strategy(Mix::Reads, t.pick(40, 100)),
        |h| {
            let avoid = avoid_list(shard, hash_of(h));
            check_history(h, &avoid)
        },
    );
}

fn replay(_shard: &Shard, _sub: &str, case: &Value) -> CheckResult {
    let h: History = from_case(case).map_err(|e| Failure::new("harness", e))?;
    check_history(&h, &[]).1
}
