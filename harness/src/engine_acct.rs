//! Engine A: generated operation histories against `LocalAccount` with an
//! in-memory reference model.  Serves C01, C02, C10 (history nonces), C12,
//! C16, C18, C20, C03 (local part).
use crate::framework::*;
use crate::secrets::*;
use proptest::prelude::*;
use secrecy::SecretString;
use serde::{Deserialize, Serialize};
use serde_json::{json, Value};
use sos_account::{Account, LocalAccount};
use sos_backend::BackendTarget;
use sos_client_storage::{AccessOptions, NewFolderOptions};
use sos_core::{
    crypto::{AccessKey, Cipher, KeyDerivation},
    events::{EventLog, WriteEvent},
    AccountId, Paths, SecretId, VaultFlags, VaultId,
};
use sos_login::DelegatedAccess;
use sos_reducers::FolderReducer;
use sos_vault::{
    secret::{Secret, SecretMeta, SecretRow},
    AccessPoint, SecretAccess, Vault,
};
use std::collections::{BTreeMap, BTreeSet};
use uuid::Uuid;

// ---------------------------------------------------------------------------
// Case data
// ---------------------------------------------------------------------------

#[derive(Clone, Debug, Serialize, Deserialize, PartialEq, Eq, Hash)]
pub struct AcctCfg {
    pub db: bool,
    pub xchacha: bool,
    pub balloon: bool,
}

impl AcctCfg {
    pub fn cipher(&self) -> Cipher {
        if self.xchacha {
            Cipher::XChaCha20Poly1305
        } else {
            Cipher::AesGcm256
        }
    }
    pub fn kdf(&self) -> KeyDerivation {
        if self.balloon {
            KeyDerivation::BalloonHash
        } else {
            KeyDerivation::Argon2Id
        }
    }
    pub fn label(&self) -> String {
        format!(
            "{}+{}+{}",
            if self.db { "sqlite" } else { "fs" },
            if self.xchacha { "xchacha" } else { "aes" },
            if self.balloon { "balloon" } else { "argon2" }
        )
    }
}

#[derive(Clone, Debug, Serialize, Deserialize, PartialEq, Eq, Hash)]
pub enum IdChoice {
    /// a fresh caller-chosen id
    New([u8; 16]),
    /// the id of a live secret (possibly in the same folder)
    Live(u16),
    /// an id that was deleted or moved away earlier
    Gone(u16),
}

#[derive(Clone, Debug, Serialize, Deserialize, PartialEq, Eq, Hash)]
pub enum Op {
    CreateSecret { folder: u16, spec: SecretSpec },
    UpdateSecret { sec: u16, meta_only: bool, spec: SecretSpec, dest: Option<u16> },
    MoveSecret { sec: u16, to: u16 },
    DeleteSecret { sec: u16 },
    Archive { sec: u16 },
    Unarchive { sec: u16 },
    /// account-level update / delete of an id that is gone: must be refused
    UpdateGone { gone: u16, spec: SecretSpec },
    DeleteGone { gone: u16 },
    CreateFolder { name: String, flags: u8 },
    RenameFolder { folder: u16, name: String },
    SetFlags { folder: u16, flags: u8 },
    SetDescription { folder: u16, text: String },
    DeleteFolder { folder: u16 },
    LockUnlock,
    SignOutIn,
    Reopen,
    FolderCreate { folder: u16, id: IdChoice, spec: SecretSpec },
    FolderUpdate { sec: u16, spec: SecretSpec },
    FolderDelete { sec: u16 },
    FolderUpdateMissing { folder: u16, spec: SecretSpec },
    FolderDeleteMissing { folder: u16 },
    CompactFolder { folder: u16 },
    CompactAccount,
    ChangeFolderPassword { folder: u16, password: String },
    ChangeAccountPassword { password: String },
    ChangeCipher { xchacha: bool, balloon: bool },
}

#[derive(Clone, Debug, Serialize, Deserialize, PartialEq, Eq, Hash)]
pub struct History {
    pub cfg: AcctCfg,
    pub ops: Vec<Op>,
}

// ---------------------------------------------------------------------------
// Model
// ---------------------------------------------------------------------------

#[derive(Clone, Debug)]
pub struct MSecret {
    pub id: SecretId,
    pub meta: Value,
    pub secret: Value,
    pub spec: SecretSpec,
}

#[derive(Clone, Debug)]
pub struct MFolder {
    pub id: VaultId,
    pub name: String,
    pub flags: u64,
    pub description: String,
    pub secrets: Vec<MSecret>,
    /// created by the account builder (default / archive): never deleted
    pub builtin: bool,
}

#[derive(Clone, Debug, Default)]
pub struct Model {
    pub folders: Vec<MFolder>,
    /// ids that were deleted or moved away: (folder, id)
    pub gone: Vec<(VaultId, SecretId)>,
    pub deleted_folders: Vec<VaultId>,
}

impl Model {
    pub fn flat(&self) -> Vec<(usize, usize)> {
        let mut v = vec![];
        for (fi, f) in self.folders.iter().enumerate() {
            for si in 0..f.secrets.len() {
                v.push((fi, si));
            }
        }
        v
    }
    pub fn folder_ix(&self, id: &VaultId) -> Option<usize> {
        self.folders.iter().position(|f| &f.id == id)
    }
    pub fn archive_ix(&self) -> Option<usize> {
        self.folders
            .iter()
            .position(|f| f.flags & VaultFlags::ARCHIVE.bits() != 0)
    }
    pub fn default_ix(&self) -> Option<usize> {
        self.folders
            .iter()
            .position(|f| f.flags & VaultFlags::DEFAULT.bits() != 0)
    }
    pub fn snapshot(&self) -> Value {
        let mut folders = BTreeMap::new();
        for f in &self.folders {
            let mut secrets = BTreeMap::new();
            for s in &f.secrets {
                secrets.insert(s.id.to_string(), json!([s.meta, s.secret]));
            }
            folders.insert(
                f.id.to_string(),
                json!({"name": f.name, "flags": f.flags, "description": f.description, "secrets": secrets}),
            );
        }
        json!(folders)
    }
}

#[derive(Default, Debug, Clone)]
pub struct HistStats {
    pub steps: usize,
    pub delete_or_move: bool,
    pub reopen_after_delete: bool,
    pub reopens: usize,
    pub reused_id: bool,
    pub large_value: bool,
    pub kinds: BTreeSet<u8>,
    pub refused: usize,
    pub compaction_after_delete: bool,
    pub rewrites: usize,
    pub flags_or_desc_changed: bool,
    pub password_changes: usize,
    pub skipped: usize,
    pub classes: BTreeSet<String>,
}

pub struct AcctWorld {
    /// data dir (shared when several accounts live in one dir, see `new_in`)
    pub temp: std::sync::Arc<tempfile::TempDir>,
    pub cfg: AcctCfg,
    pub account: LocalAccount,
    pub account_id: AccountId,
    pub password: SecretString,
    pub model: Model,
    pub stats: HistStats,
    /// avoid switches for known findings (shape names)
    pub avoid: BTreeSet<String>,
    /// history of per-folder keys (every key a folder ever had), for nonce scans
    pub old_keys: Vec<(VaultId, AccessKey)>,
    /// keep the search index initialised across sign-ins (as an application does)
    pub search: bool,
}

pub fn hf<E: std::fmt::Display>(sig: &str, what: &str) -> impl FnOnce(E) -> Failure + 'static {
    let sig = sig.to_string();
    let what = what.to_string();
    move |e| Failure::new(sig, format!("{what}: {e}"))
}

/// {}, AUTHENTICATOR, CONTACT, both (the sync engine uses these four), then NO_SYNC, the CLI's
/// authenticator folder (AUTHENTICATOR|NO_SYNC|LOCAL), LOCAL, CONTACT|NO_SYNC
pub const FLAG_CHOICES: [u64; 8] = [0, 8, 16, 24, 128, 8 | 128 | 256, 256, 16 | 128];

pub async fn make_target(dir: &std::path::Path, db: bool) -> Result<BackendTarget, Failure> {
    let paths = Paths::new_client(dir);
    if db {
        std::fs::create_dir_all(paths.documents_dir()).ok();
        let db_file = paths.database_file().clone();
        if let Some(p) = db_file.parent() {
            std::fs::create_dir_all(p).ok();
        }
        let mut client = sos_database::open_file(&db_file)
            .await
            .map_err(hf("harness/db-open", "open db"))?;
        sos_database::migrations::migrate_client(&mut client)
            .await
            .map_err(hf("harness/db-migrate", "migrate"))?;
        Ok(BackendTarget::Database(paths, client))
    } else {
        Paths::scaffold(paths.documents_dir())
            .await
            .map_err(hf("harness/scaffold", "scaffold"))?;
        Ok(BackendTarget::FileSystem(paths))
    }
}

impl AcctWorld {
    pub async fn new(cfg: &AcctCfg) -> Result<Self, Failure> {
        let temp = tempfile::Builder::new()
            .prefix("sv-acct-")
            .tempdir()
            .map_err(hf("harness/tempdir", "tempdir"))?;
        Self::new_in(std::sync::Arc::new(temp), cfg, "verif-account").await
    }

    /// A new account inside an existing data dir (several accounts may share one dir).
    pub async fn new_in(temp: std::sync::Arc<tempfile::TempDir>, cfg: &AcctCfg, name: &str) -> Result<Self, Failure> {
        let target = make_target(temp.path(), cfg.db).await?;
        let password: SecretString = "correct horse battery staple verif".to_string().into();
        let account = LocalAccount::new_account_with_builder(
            name.to_string(),
            password.clone(),
            target,
            |b| b.create_file_password(true).create_archive(true),
        )
        .await
        .map_err(hf("harness/new-account", "new_account"))?;
        let account_id = *account.account_id();
        let mut w = AcctWorld {
            temp,
            cfg: cfg.clone(),
            account,
            account_id,
            password,
            model: Model::default(),
            stats: HistStats::default(),
            avoid: BTreeSet::new(),
            old_keys: vec![],
            search: false,
        };
        let key: AccessKey = w.password.clone().into();
        let folders = w
            .account
            .sign_in(&key)
            .await
            .map_err(hf("harness/sign-in", "first sign_in"))?;
        for s in folders {
            let id = *s.id();
            let description = w
                .account
                .folder_description(&id)
                .await
                .map_err(hf("harness/description", "initial folder_description"))?;
            w.model.folders.push(MFolder {
                id,
                name: s.name().to_string(),
                flags: s.flags().bits(),
                description,
                secrets: vec![],
                builtin: true,
            });
        }
        Ok(w)
    }

    /// Wrap an account that is already signed in on existing storage (e.g. after an
    /// upgrade) together with the model it is expected to serve.
    pub fn from_existing(temp: std::sync::Arc<tempfile::TempDir>, cfg: &AcctCfg, account: LocalAccount, password: SecretString, model: Model) -> Self {
        let account_id = *account.account_id();
        AcctWorld {
            temp,
            cfg: cfg.clone(),
            account,
            account_id,
            password,
            model,
            stats: HistStats::default(),
            avoid: BTreeSet::new(),
            old_keys: vec![],
            search: false,
        }
    }

    pub async fn target(&self) -> BackendTarget {
        self.account.backend_target().await
    }

    pub async fn folder_key(&self, id: &VaultId) -> Result<AccessKey, Failure> {
        self.account
            .find_folder_password(id)
            .await
            .map_err(hf("harness/folder-password", "find_folder_password"))?
            .ok_or_else(|| Failure::new("c01/folder-password-missing", format!("no delegated password for folder {id}")))
    }

    /// Fresh instance on the same storage, signed in with `self.password`.
    pub async fn reopen(&mut self) -> CheckResult {
        let target = make_target(self.temp.path(), self.cfg.db).await?;
        let mut fresh = LocalAccount::new_unauthenticated(self.account_id, target)
            .await
            .map_err(hf("c01/reopen-failed", "new_unauthenticated on existing storage"))?;
        let key: AccessKey = self.password.clone().into();
        fresh
            .sign_in(&key)
            .await
            .map_err(hf("c01/sign-in-failed", "sign_in on a fresh instance"))?;
        self.account = fresh;
        if self.search {
            self.account
                .initialize_search_index()
                .await
                .map_err(hf("c20/initialize-search-index-error", "initialize_search_index on a fresh instance"))?;
        }
        self.stats.reopens += 1;
        if self.stats.delete_or_move {
            self.stats.reopen_after_delete = true;
        }
        Ok(())
    }

    fn pick_folder(&self, f: u16) -> usize {
        pick(f, self.model.folders.len())
    }

    fn pick_secret(&self, s: u16) -> Option<(usize, usize)> {
        let flat = self.model.flat();
        if flat.is_empty() {
            None
        } else {
            Some(flat[pick(s, flat.len())])
        }
    }

    fn msecret(id: SecretId, spec: &SecretSpec, meta: &SecretMeta, secret: &Secret) -> MSecret {
        MSecret {
            id,
            meta: proj_meta(meta),
            secret: proj_secret(secret),
            spec: spec.clone(),
        }
    }

    fn note_spec(&mut self, spec: &SecretSpec) {
        self.stats.kinds.insert(spec.kind % NUM_KINDS);
        if spec.big >= 900_000 {
            self.stats.large_value = true;
        }
    }

    /// Apply one operation to the implementation and the model.
    pub async fn apply(&mut self, op: &Op) -> CheckResult {
        self.stats.steps += 1;
        match op {
            Op::CreateSecret { folder, spec } => {
                let fi = self.pick_folder(*folder);
                let fid = self.model.folders[fi].id;
                let (meta, secret) = build_secret(spec);
                self.note_spec(spec);
                let res = self
                    .account
                    .create_secret(meta.clone(), secret.clone(), AccessOptions { folder: Some(fid), ..Default::default() })
                    .await
                    .map_err(hf("c01/create-secret-error", &format!("create_secret({}) in {}", spec.kind_name(), fid)))?;
                self.model.folders[fi].secrets.push(Self::msecret(res.id, spec, &meta, &secret));
            }
            Op::UpdateSecret { sec, meta_only, spec, dest } => {
                let Some((fi, si)) = self.pick_secret(*sec) else {
                    self.stats.skipped += 1;
                    return Ok(());
                };
                let fid = self.model.folders[fi].id;
                let old = self.model.folders[fi].secrets[si].clone();
                let (new_spec, meta, secret_opt) = if *meta_only {
                    // same kind and value, new label / tags / favourite
                    let mut s2 = old.spec.clone();
                    s2.label = spec.label.clone();
                    s2.tags = spec.tags.clone();
                    s2.favorite = spec.favorite;
                    let (m, _) = build_secret(&s2);
                    (s2, m, None)
                } else {
                    let (m, s) = build_secret(spec);
                    (spec.clone(), m, Some(s))
                };
                self.note_spec(&new_spec);
                let dest_ix = dest.map(|d| self.pick_folder(d)).filter(|d| *d != fi);
                let mut options = AccessOptions { folder: Some(fid), ..Default::default() };
                if let Some(d) = dest_ix {
                    options.destination = Some(self.model.folders[d].id);
                }
                let res = self
                    .account
                    .update_secret(&old.id, meta.clone(), secret_opt.clone(), options)
                    .await
                    .map_err(hf("c01/update-secret-error", &format!("update_secret({}) in {}", new_spec.kind_name(), fid)))?;
                let new_secret_proj = match &secret_opt {
                    Some(s) => proj_secret(s),
                    None => old.secret.clone(),
                };
                let entry = MSecret { id: res.id, meta: proj_meta(&meta), secret: new_secret_proj, spec: new_spec };
                if let Some(d) = dest_ix {
                    if res.id == old.id {
                        return Err(Failure::new("c01/move-kept-id", "update with destination returned the old id"));
                    }
                    self.model.folders[fi].secrets.remove(si);
                    self.model.gone.push((fid, old.id));
                    self.model.folders[d].secrets.push(entry);
                    self.stats.delete_or_move = true;
                } else {
                    if res.id != old.id {
                        return Err(Failure::new("c01/update-changed-id", "update without destination changed the id"));
                    }
                    self.model.folders[fi].secrets[si] = entry;
                }
            }
            Op::MoveSecret { sec, to } => {
                let Some((fi, si)) = self.pick_secret(*sec) else {
                    self.stats.skipped += 1;
                    return Ok(());
                };
                let ti = self.pick_folder(*to);
                if ti == fi {
                    self.stats.skipped += 1;
                    return Ok(());
                }
                let fid = self.model.folders[fi].id;
                let tid = self.model.folders[ti].id;
                let old = self.model.folders[fi].secrets[si].clone();
                let res = self
                    .account
                    .move_secret(&old.id, &fid, &tid, Default::default())
                    .await
                    .map_err(hf("c01/move-secret-error", "move_secret"))?;
                self.model.folders[fi].secrets.remove(si);
                self.model.gone.push((fid, old.id));
                let mut moved = old.clone();
                moved.id = res.id;
                self.model.folders[ti].secrets.push(moved);
                self.stats.delete_or_move = true;
            }
            Op::DeleteSecret { sec } => {
                let Some((fi, si)) = self.pick_secret(*sec) else {
                    self.stats.skipped += 1;
                    return Ok(());
                };
                let fid = self.model.folders[fi].id;
                let old = self.model.folders[fi].secrets[si].clone();
                self.account
                    .delete_secret(&old.id, AccessOptions { folder: Some(fid), ..Default::default() })
                    .await
                    .map_err(hf("c01/delete-secret-error", "delete_secret"))?;
                self.model.folders[fi].secrets.remove(si);
                self.model.gone.push((fid, old.id));
                self.stats.delete_or_move = true;
            }
            Op::Archive { sec } => {
                let Some(ai) = self.model.archive_ix() else {
                    self.stats.skipped += 1;
                    return Ok(());
                };
                let flat: Vec<(usize, usize)> = self.model.flat().into_iter().filter(|(f, _)| *f != ai).collect();
                if flat.is_empty() {
                    self.stats.skipped += 1;
                    return Ok(());
                }
                let (fi, si) = flat[pick(*sec, flat.len())];
                let fid = self.model.folders[fi].id;
                let old = self.model.folders[fi].secrets[si].clone();
                let res = self
                    .account
                    .archive(&fid, &old.id, Default::default())
                    .await
                    .map_err(hf("c01/archive-error", "archive"))?;
                self.model.folders[fi].secrets.remove(si);
                self.model.gone.push((fid, old.id));
                let mut moved = old.clone();
                moved.id = res.id;
                self.model.folders[ai].secrets.push(moved);
                self.stats.delete_or_move = true;
                self.stats.classes.insert("archive".into());
            }
            Op::Unarchive { sec } => {
                let Some(ai) = self.model.archive_ix() else {
                    self.stats.skipped += 1;
                    return Ok(());
                };
                let n = self.model.folders[ai].secrets.len();
                if n == 0 {
                    self.stats.skipped += 1;
                    return Ok(());
                }
                let si = pick(*sec, n);
                let aid = self.model.folders[ai].id;
                let old = self.model.folders[ai].secrets[si].clone();
                let (_, secret) = build_secret(&old.spec);
                let kind = secret.kind();
                let (res, dest) = self
                    .account
                    .unarchive(&old.id, &kind, Default::default())
                    .await
                    .map_err(hf("c01/unarchive-error", "unarchive"))?;
                let Some(di) = self.model.folder_ix(dest.id()) else {
                    return Err(Failure::new("c01/unarchive-unknown-destination", format!("unarchive reported destination {} which the model does not know", dest.id())));
                };
                // documented rule: contact -> contacts folder, totp -> authenticator folder, else default
                let want_flag = match old.spec.kind % NUM_KINDS {
                    7 => Some(VaultFlags::CONTACT.bits()),
                    8 => Some(VaultFlags::AUTHENTICATOR.bits()),
                    _ => None,
                };
                let flagged_exists = want_flag
                    .map(|fl| self.model.folders.iter().any(|f| f.flags & fl != 0))
                    .unwrap_or(false);
                let ok = if flagged_exists {
                    self.model.folders[di].flags & want_flag.unwrap() != 0
                } else {
                    self.model.folders[di].flags & VaultFlags::DEFAULT.bits() != 0
                };
                if !ok {
                    return Err(Failure::new(
                        "c01/unarchive-wrong-destination",
                        format!("unarchive of a {} went to folder '{}' (flags {})", old.spec.kind_name(), self.model.folders[di].name, self.model.folders[di].flags),
                    ));
                }
                self.model.folders[ai].secrets.remove(si);
                self.model.gone.push((aid, old.id));
                let mut moved = old.clone();
                moved.id = res.id;
                self.model.folders[di].secrets.push(moved);
                self.stats.delete_or_move = true;
                self.stats.classes.insert("unarchive".into());
            }
            Op::UpdateGone { gone, spec } => {
                let Some((fid, sid)) = self.pick_gone(*gone) else {
                    self.stats.skipped += 1;
                    return Ok(());
                };
                let (meta, secret) = build_secret(spec);
                let r = self
                    .account
                    .update_secret(&sid, meta, Some(secret), AccessOptions { folder: Some(fid), ..Default::default() })
                    .await;
                if r.is_ok() {
                    return Err(Failure::new("c01/update-of-deleted-accepted", format!("update_secret of deleted id {sid} in {fid} returned Ok")));
                }
                self.stats.refused += 1;
            }
            Op::DeleteGone { gone } => {
                let Some((fid, sid)) = self.pick_gone(*gone) else {
                    self.stats.skipped += 1;
                    return Ok(());
                };
                let r = self
                    .account
                    .delete_secret(&sid, AccessOptions { folder: Some(fid), ..Default::default() })
                    .await;
                if r.is_ok() {
                    return Err(Failure::new("c01/delete-of-deleted-accepted", format!("delete_secret of deleted id {sid} in {fid} returned Ok")));
                }
                self.stats.refused += 1;
            }
            Op::CreateFolder { name, flags } => {
                if self.model.folders.len() >= 5 {
                    self.stats.skipped += 1;
                    return Ok(());
                }
                let fl = FLAG_CHOICES[(*flags % 8) as usize];
                let options = NewFolderOptions {
                    name: name.clone(),
                    flags: if fl == 0 { None } else { VaultFlags::from_bits(fl) },
                    key: None,
                    cipher: Some(self.cfg.cipher()),
                    kdf: Some(self.cfg.kdf()),
                };
                let res = self
                    .account
                    .create_folder(options)
                    .await
                    .map_err(hf("c01/create-folder-error", "create_folder"))?;
                let id = *res.folder.id();
                let description = self
                    .account
                    .folder_description(&id)
                    .await
                    .map_err(hf("c01/description-error", "folder_description of new folder"))?;
                self.model.folders.push(MFolder {
                    id,
                    name: name.clone(),
                    flags: fl,
                    description,
                    secrets: vec![],
                    builtin: false,
                });
                self.stats.classes.insert("create-folder".into());
            }
            Op::RenameFolder { folder, name } => {
                let fi = self.pick_folder(*folder);
                let fid = self.model.folders[fi].id;
                self.account
                    .rename_folder(&fid, name.clone())
                    .await
                    .map_err(hf("c01/rename-folder-error", "rename_folder"))?;
                self.model.folders[fi].name = name.clone();
                self.stats.classes.insert("rename-folder".into());
            }
            Op::SetFlags { folder, flags } => {
                let user: Vec<usize> = self.model.folders.iter().enumerate().filter(|(_, f)| !f.builtin).map(|(i, _)| i).collect();
                if user.is_empty() {
                    self.stats.skipped += 1;
                    return Ok(());
                }
                let fi = user[pick(*folder, user.len())];
                let fid = self.model.folders[fi].id;
                let fl = FLAG_CHOICES[(*flags % 8) as usize];
                self.account
                    .update_folder_flags(&fid, VaultFlags::from_bits(fl).unwrap())
                    .await
                    .map_err(hf("c01/update-flags-error", "update_folder_flags"))?;
                self.model.folders[fi].flags = fl;
                self.stats.flags_or_desc_changed = true;
                self.stats.classes.insert("set-flags".into());
            }
            Op::SetDescription { folder, text } => {
                let fi = self.pick_folder(*folder);
                let fid = self.model.folders[fi].id;
                self.account
                    .set_folder_description(&fid, text)
                    .await
                    .map_err(hf("c01/set-description-error", "set_folder_description"))?;
                self.model.folders[fi].description = text.clone();
                self.stats.flags_or_desc_changed = true;
                self.stats.classes.insert("set-description".into());
            }
            Op::DeleteFolder { folder } => {
                let user: Vec<usize> = self.model.folders.iter().enumerate().filter(|(_, f)| !f.builtin).map(|(i, _)| i).collect();
                if user.is_empty() {
                    self.stats.skipped += 1;
                    return Ok(());
                }
                let fi = user[pick(*folder, user.len())];
                let fid = self.model.folders[fi].id;
                self.account
                    .delete_folder(&fid)
                    .await
                    .map_err(hf("c01/delete-folder-error", "delete_folder"))?;
                self.model.folders.remove(fi);
                self.model.deleted_folders.push(fid);
                self.stats.classes.insert("delete-folder".into());
            }
            Op::LockUnlock => {
                for f in self.model.folders.clone() {
                    let key = self.folder_key(&f.id).await?;
                    let mut folder = self
                        .account
                        .folder(&f.id)
                        .await
                        .map_err(hf("c01/folder-lookup-error", "Account::folder"))?;
                    folder.lock().await;
                    folder
                        .unlock(&key)
                        .await
                        .map_err(hf("c01/unlock-error", "Folder::unlock with the delegated password"))?;
                }
                self.stats.classes.insert("lock-unlock".into());
            }
            Op::SignOutIn => {
                self.account
                    .sign_out()
                    .await
                    .map_err(hf("c01/sign-out-error", "sign_out"))?;
                let key: AccessKey = self.password.clone().into();
                self.account
                    .sign_in(&key)
                    .await
                    .map_err(hf("c01/sign-in-failed", "sign_in after sign_out"))?;
                if self.search {
                    self.account
                        .initialize_search_index()
                        .await
                        .map_err(hf("c20/initialize-search-index-error", "initialize_search_index after sign_in"))?;
                }
                self.stats.reopens += 1;
                if self.stats.delete_or_move {
                    self.stats.reopen_after_delete = true;
                }
                self.stats.classes.insert("sign-out-in".into());
            }
            Op::Reopen => {
                self.reopen().await?;
                self.stats.classes.insert("fresh-instance".into());
            }
            Op::FolderCreate { folder, id, spec } => {
                let fi = self.pick_folder(*folder);
                let fid = self.model.folders[fi].id;
                let (sid, class) = match id {
                    IdChoice::New(b) => (Uuid::from_bytes(*b), "new-id"),
                    IdChoice::Live(s) => match self.pick_secret(*s) {
                        Some((f2, s2)) => (
                            self.model.folders[f2].secrets[s2].id,
                            if f2 == fi { "live-id-same-folder" } else { "live-id-other-folder" },
                        ),
                        None => {
                            self.stats.skipped += 1;
                            return Ok(());
                        }
                    },
                    IdChoice::Gone(g) => match self.pick_gone(*g) {
                        Some((gf, gs)) => (gs, if gf == fid { "gone-id-same-folder" } else { "gone-id-other-folder" }),
                        None => {
                            self.stats.skipped += 1;
                            return Ok(());
                        }
                    },
                };
                let live_here = self.model.folders[fi].secrets.iter().position(|s| s.id == sid);
                let live_elsewhere: Vec<usize> = self
                    .model
                    .folders
                    .iter()
                    .enumerate()
                    .filter(|(i, f)| *i != fi && f.secrets.iter().any(|s| s.id == sid))
                    .map(|(i, _)| i)
                    .collect();
                // "id-live-in-two-folders" skips the shape on either backend (differential runs)
                if !live_elsewhere.is_empty() && ((self.cfg.db && self.avoid.contains("sqlite-id-live-in-two-folders")) || self.avoid.contains("id-live-in-two-folders")) {
                    self.stats.skipped += 1;
                    self.stats.classes.insert("excluded:sqlite-id-live-in-two-folders".into());
                    return Ok(());
                }
                if live_here.is_some() && self.avoid.contains("create-with-live-id") {
                    self.stats.skipped += 1;
                    self.stats.classes.insert("excluded:create-with-live-id".into());
                    return Ok(());
                }
                let (meta, secret) = build_secret(spec);
                self.note_spec(spec);
                let row = SecretRow::new(sid, meta.clone(), secret.clone());
                let mut folder = self
                    .account
                    .folder(&fid)
                    .await
                    .map_err(hf("c01/folder-lookup-error", "Account::folder"))?;
                let res = folder.create_secret(&row).await;
                self.stats.classes.insert(format!("folder-create/{class}"));
                if class != "new-id" {
                    self.stats.reused_id = true;
                }
                if res.is_ok() {
                    // the same id in another folder must be untouched
                    for oi in &live_elsewhere {
                        let ofid = self.model.folders[*oi].id;
                        let ids = self
                            .account
                            .list_secret_ids(&ofid)
                            .await
                            .map_err(hf("c01/list-secret-ids-error", "list_secret_ids"))?;
                        if !ids.contains(&sid) {
                            let be = if self.cfg.db { "sqlite" } else { "fs" };
                            return Err(Failure::new(
                                format!("c01/{be}/create-steals-id-from-other-folder"),
                                format!("[{be}] Folder::create_secret in '{}' with an id that is live in '{}' removed the secret from '{}' (list_secret_ids no longer has it)", self.model.folders[fi].name, self.model.folders[*oi].name, self.model.folders[*oi].name),
                            ));
                        }
                    }
                }
                match res {
                    Ok(_) => {
                        let entry = Self::msecret(sid, spec, &meta, &secret);
                        if let Some(si) = live_here {
                            // last write wins: check right away so the root cause gets its own signature
                            let got = self.account.read_secret(&sid, Some(&fid)).await;
                            let same = match &got {
                                Ok((row, _)) => proj_meta(row.meta()) == entry.meta && proj_secret(row.secret()) == entry.secret,
                                Err(_) => false,
                            };
                            if !same {
                                return Err(Failure::new(
                                    "c01/live-id-recreate",
                                    format!("Folder::create_secret with an id that is live in the same folder returned Ok but read_secret does not return the value just written ({})", if got.is_ok() { "returns the previous value" } else { "fails" }),
                                ));
                            }
                            self.model.folders[fi].secrets[si] = entry;
                        } else {
                            self.model.folders[fi].secrets.push(entry);
                        }
                    }
                    Err(e) => {
                        if live_here.is_some() {
                            // refusing to overwrite a live id is acceptable: nothing changes
                            self.stats.refused += 1;
                        } else {
                            return Err(Failure::new("c01/folder-create-error", format!("Folder::create_secret with {class}: {e}")));
                        }
                    }
                }
            }
            Op::FolderUpdate { sec, spec } => {
                let Some((fi, si)) = self.pick_secret(*sec) else {
                    self.stats.skipped += 1;
                    return Ok(());
                };
                let fid = self.model.folders[fi].id;
                let sid = self.model.folders[fi].secrets[si].id;
                let (meta, secret) = build_secret(spec);
                self.note_spec(spec);
                let mut folder = self
                    .account
                    .folder(&fid)
                    .await
                    .map_err(hf("c01/folder-lookup-error", "Account::folder"))?;
                let r = folder
                    .update_secret(&sid, meta.clone(), secret.clone())
                    .await
                    .map_err(hf("c01/folder-update-error", "Folder::update_secret"))?;
                if r.is_none() {
                    return Err(Failure::new("c01/folder-update-live-id-ignored", "Folder::update_secret of a live id returned None"));
                }
                self.model.folders[fi].secrets[si] = Self::msecret(sid, spec, &meta, &secret);
                self.stats.classes.insert("folder-update".into());
            }
            Op::FolderDelete { sec } => {
                let Some((fi, si)) = self.pick_secret(*sec) else {
                    self.stats.skipped += 1;
                    return Ok(());
                };
                let fid = self.model.folders[fi].id;
                let sid = self.model.folders[fi].secrets[si].id;
                let mut folder = self
                    .account
                    .folder(&fid)
                    .await
                    .map_err(hf("c01/folder-lookup-error", "Account::folder"))?;
                let r = folder
                    .delete_secret(&sid)
                    .await
                    .map_err(hf("c01/folder-delete-error", "Folder::delete_secret"))?;
                if r.is_none() {
                    return Err(Failure::new("c01/folder-delete-live-id-ignored", "Folder::delete_secret of a live id returned None"));
                }
                self.model.folders[fi].secrets.remove(si);
                self.model.gone.push((fid, sid));
                self.stats.delete_or_move = true;
                self.stats.classes.insert("folder-delete".into());
            }
            Op::FolderUpdateMissing { folder, spec } => {
                let fi = self.pick_folder(*folder);
                let fid = self.model.folders[fi].id;
                let sid = Uuid::from_bytes([0xEE; 16]);
                let (meta, secret) = build_secret(spec);
                let mut f = self
                    .account
                    .folder(&fid)
                    .await
                    .map_err(hf("c01/folder-lookup-error", "Account::folder"))?;
                match f.update_secret(&sid, meta, secret).await {
                    Ok(None) | Err(_) => self.stats.refused += 1,
                    Ok(Some(_)) => return Err(Failure::new("c01/update-of-missing-accepted", "Folder::update_secret of an absent id produced an event")),
                }
            }
            Op::FolderDeleteMissing { folder } => {
                let fi = self.pick_folder(*folder);
                let fid = self.model.folders[fi].id;
                let sid = Uuid::from_bytes([0xEE; 16]);
                let mut f = self
                    .account
                    .folder(&fid)
                    .await
                    .map_err(hf("c01/folder-lookup-error", "Account::folder"))?;
                match f.delete_secret(&sid).await {
                    Ok(None) | Err(_) => self.stats.refused += 1,
                    Ok(Some(_)) => return Err(Failure::new("c01/delete-of-missing-accepted", "Folder::delete_secret of an absent id produced an event")),
                }
            }
            Op::CompactFolder { folder } => {
                let fi = self.pick_folder(*folder);
                let fid = self.model.folders[fi].id;
                self.account
                    .compact_folder(&fid)
                    .await
                    .map_err(hf("c12/compact-folder-error", "compact_folder"))?;
                if self.stats.delete_or_move {
                    self.stats.compaction_after_delete = true;
                }
                self.stats.rewrites += 1;
                self.stats.classes.insert("compact-folder".into());
            }
            Op::CompactAccount => {
                self.account
                    .compact_account()
                    .await
                    .map_err(hf("c12/compact-account-error", "compact_account"))?;
                if self.stats.delete_or_move {
                    self.stats.compaction_after_delete = true;
                }
                self.stats.rewrites += 1;
                self.stats.classes.insert("compact-account".into());
            }
            Op::ChangeFolderPassword { folder, password } => {
                let fi = self.pick_folder(*folder);
                let fid = self.model.folders[fi].id;
                let old = self.folder_key(&fid).await?;
                let new_key: AccessKey = SecretString::from(format!("{}-folder-pw-{}", password, self.stats.steps)).into();
                self.account
                    .change_folder_password(&fid, new_key)
                    .await
                    .map_err(hf("c12/change-folder-password-error", "change_folder_password"))?;
                self.old_keys.push((fid, old));
                self.stats.rewrites += 1;
                self.stats.password_changes += 1;
                self.stats.classes.insert("change-folder-password".into());
            }
            Op::ChangeAccountPassword { password } => {
                let new_pw: SecretString = format!("{}-account-pw-{}", password, self.stats.steps).into();
                self.account
                    .change_account_password(new_pw.clone())
                    .await
                    .map_err(hf("c12/change-account-password-error", "change_account_password"))?;
                self.password = new_pw;
                self.stats.rewrites += 1;
                self.stats.password_changes += 1;
                self.stats.classes.insert("change-account-password".into());
            }
            Op::ChangeCipher { xchacha, balloon } => {
                let key: AccessKey = self.password.clone().into();
                let cipher = if *xchacha { Cipher::XChaCha20Poly1305 } else { Cipher::AesGcm256 };
                let kdf = if *balloon { KeyDerivation::BalloonHash } else { KeyDerivation::Argon2Id };
                for f in self.model.folders.clone() {
                    if let Ok(k) = self.folder_key(&f.id).await {
                        self.old_keys.push((f.id, k));
                    }
                }
                self.account
                    .change_cipher(&key, &cipher, Some(kdf))
                    .await
                    .map_err(hf("c12/change-cipher-error", "change_cipher"))?;
                self.stats.rewrites += 1;
                self.stats.classes.insert("change-cipher".into());
            }
        }
        Ok(())
    }

    fn pick_gone(&self, g: u16) -> Option<(VaultId, SecretId)> {
        // gone ids whose folder still exists and that are not live there again
        let cands: Vec<(VaultId, SecretId)> = self
            .model
            .gone
            .iter()
            .filter(|(f, s)| {
                self.model
                    .folder_ix(f)
                    .map(|fi| !self.model.folders[fi].secrets.iter().any(|m| &m.id == s))
                    .unwrap_or(false)
            })
            .cloned()
            .collect();
        if cands.is_empty() {
            None
        } else {
            Some(cands[pick(g, cands.len())])
        }
    }

    /// C01 oracle: what the account serves equals the model.
    pub async fn check_reads(&mut self, after: &str) -> CheckResult {
        let be = if self.cfg.db { "sqlite" } else { "fs" };
        let listed = self
            .account
            .list_folders()
            .await
            .map_err(hf("c01/list-folders-error", "list_folders"))?;
        let got: BTreeMap<VaultId, (String, u64)> = listed
            .iter()
            .map(|s| (*s.id(), (s.name().to_string(), s.flags().bits())))
            .collect();
        let want: BTreeMap<VaultId, (String, u64)> = self
            .model
            .folders
            .iter()
            .map(|f| (f.id, (f.name.clone(), f.flags)))
            .collect();
        if got != want {
            let sig = if got.keys().collect::<Vec<_>>() != want.keys().collect::<Vec<_>>() {
                "folder-set"
            } else if got.values().map(|v| &v.0).collect::<Vec<_>>() != want.values().map(|v| &v.0).collect::<Vec<_>>() {
                "folder-name"
            } else {
                "folder-flags"
            };
            return Err(Failure::new(
                format!("c01/{be}/{sig}-differs"),
                format!("[{be}] after {after}: list_folders = {:?} but model = {:?}", got, want),
            ));
        }
        for f in self.model.folders.clone() {
            let desc = self
                .account
                .folder_description(&f.id)
                .await
                .map_err(hf(&format!("c01/{be}/description-error"), &format!("after {after}: folder_description({})", f.name)))?;
            if desc != f.description {
                return Err(Failure::new(
                    format!("c01/{be}/description-differs"),
                    format!("[{be}] after {after}: description of '{}' is {:?}, last written {:?}", f.name, desc, f.description),
                ));
            }
            let ids = self
                .account
                .list_secret_ids(&f.id)
                .await
                .map_err(hf(&format!("c01/{be}/list-secret-ids-error"), &format!("after {after}: list_secret_ids")))?;
            let got_ids: BTreeSet<SecretId> = ids.iter().cloned().collect();
            let want_ids: BTreeSet<SecretId> = f.secrets.iter().map(|s| s.id).collect();
            if got_ids != want_ids || ids.len() != want_ids.len() {
                return Err(Failure::new(
                    format!("c01/{be}/secret-ids-differ"),
                    format!("[{be}] after {after}: list_secret_ids('{}') = {:?} (len {}), live ids in the model = {:?}", f.name, got_ids, ids.len(), want_ids),
                ));
            }
            for s in &f.secrets {
                let (row, _) = self
                    .account
                    .read_secret(&s.id, Some(&f.id))
                    .await
                    .map_err(hf(&format!("c01/{be}/read-live-secret-error"), &format!("after {after}: read_secret({}) of a live {} in '{}'", s.id, s.spec.kind_name(), f.name)))?;
                let m = proj_meta(row.meta());
                let v = proj_secret(row.secret());
                if m != s.meta {
                    return Err(Failure::new(
                        format!("c01/{be}/meta-differs"),
                        format!("[{be}] after {after}: meta of {} in '{}' is {} but last written {}", s.id, f.name, m, s.meta),
                    ));
                }
                if v != s.secret {
                    return Err(Failure::new(
                        format!("c01/{be}/secret-differs"),
                        format!("[{be}] after {after}: value of {} ({}) in '{}' differs from the last written value (digest {} vs {})", s.id, s.spec.kind_name(), f.name, digest(&m, &v), digest(&s.meta, &s.secret)),
                    ));
                }
            }
        }
        // gone ids must be absent
        for (fid, sid) in self.model.gone.clone() {
            let Some(fi) = self.model.folder_ix(&fid) else { continue };
            if self.model.folders[fi].secrets.iter().any(|m| m.id == sid) {
                continue;
            }
            if self.account.read_secret(&sid, Some(&fid)).await.is_ok() {
                return Err(Failure::new(
                    format!("c01/{be}/deleted-secret-readable"),
                    format!("[{be}] after {after}: secret {sid} was deleted/moved out of '{}' but read_secret still returns it", self.model.folders[fi].name),
                ));
            }
        }
        // a moved secret lives in exactly one folder: ids the account level API produced are unique
        Ok(())
    }
}

// ---------------------------------------------------------------------------
// Decrypted views (used by C02, C12, C13, C19)
// ---------------------------------------------------------------------------

/// Decrypted projection of a vault: name, flags, description, secrets.
pub async fn decrypt_vault(vault: &Vault, key: &AccessKey) -> Result<Value, String> {
    let mut ap = AccessPoint::<sos_vault::Error>::new(vault.clone());
    let meta = ap.unlock(key).await.map_err(|e| format!("unlock: {e}"))?;
    let mut secrets = BTreeMap::new();
    let ids: Vec<SecretId> = vault.keys().cloned().collect();
    for id in ids {
        match ap.read_secret(&id).await {
            Ok(Some((m, s, _))) => {
                secrets.insert(id.to_string(), json!([proj_meta(&m), proj_secret(&s)]));
            }
            Ok(None) => {}
            Err(e) => return Err(format!("read_secret({id}): {e}")),
        }
    }
    Ok(json!({
        "name": vault.name(),
        "flags": vault.flags().bits(),
        "description": meta.description(),
        "secrets": secrets,
    }))
}

/// The three views of a folder: replay of the log (R), in-memory (M), persisted mirror (P).
pub async fn folder_views(w: &AcctWorld, fid: &VaultId) -> Result<(Vault, Vault, Vault), Failure> {
    let folder = w
        .account
        .folder(fid)
        .await
        .map_err(hf("c02/folder-lookup-error", "Account::folder"))?;
    let r = {
        let log = folder.event_log();
        let log = log.read().await;
        FolderReducer::new()
            .reduce(&*log)
            .await
            .map_err(hf("c02/reduce-error", "FolderReducer::reduce"))?
            .build(true)
            .await
            .map_err(hf("c02/reduce-build-error", "FolderReducer::build"))?
    };
    let m = {
        let ap = folder.access_point();
        let ap = ap.lock().await;
        ap.vault().clone()
    };
    let p = match w.target().await {
        BackendTarget::FileSystem(paths) => {
            let path = paths.with_account_id(&w.account_id).vault_path(fid);
            let buf = std::fs::read(&path).map_err(hf("c02/mirror-read-error", &format!("read {}", path.display())))?;
            sos_core::decode::<Vault>(&buf)
                .await
                .map_err(hf("c02/mirror-decode-error", "decode persisted vault"))?
        }
        BackendTarget::Database(_, client) => sos_database::entity::FolderEntity::compute_folder_vault(&client, fid)
            .await
            .map_err(hf("c02/mirror-read-error", "compute_folder_vault"))?,
    };
    Ok((r, m, p))
}

fn first_diff(a: &Value, b: &Value) -> String {
    for k in ["name", "flags", "description"] {
        if a[k] != b[k] {
            return format!("{k}: {} vs {}", a[k], b[k]);
        }
    }
    let sa = a["secrets"].as_object().cloned().unwrap_or_default();
    let sb = b["secrets"].as_object().cloned().unwrap_or_default();
    let ka: BTreeSet<&String> = sa.keys().collect();
    let kb: BTreeSet<&String> = sb.keys().collect();
    if ka != kb {
        return format!("secret ids: only-left {:?} only-right {:?}", ka.difference(&kb).collect::<Vec<_>>(), kb.difference(&ka).collect::<Vec<_>>());
    }
    for k in ka {
        if sa[k] != sb[k] {
            return format!("secret {k}: label {} vs {}", sa[k][0]["label"], sb[k][0]["label"]);
        }
    }
    "equal".into()
}

fn diff_class(a: &Value, b: &Value) -> &'static str {
    for k in ["name", "flags", "description"] {
        if a[k] != b[k] {
            return k;
        }
    }
    let sa = a["secrets"].as_object().cloned().unwrap_or_default();
    let sb = b["secrets"].as_object().cloned().unwrap_or_default();
    if sa.keys().collect::<Vec<_>>() != sb.keys().collect::<Vec<_>>() {
        return "secret-ids";
    }
    "secret-content"
}

/// C02 oracle on one folder: R == M == P (decrypted), and all equal the model.
pub async fn check_replay(w: &AcctWorld, after: &str, against_model: bool) -> CheckResult {
    let be = if w.cfg.db { "sqlite" } else { "fs" };
    for f in &w.model.folders {
        let key = w.folder_key(&f.id).await?;
        let (r, m, p) = folder_views(w, &f.id).await?;
        let dr = decrypt_vault(&r, &key).await.map_err(|e| Failure::new(format!("c02/{be}/replay-undecryptable"), format!("[{be}] after {after}: replay of the log of '{}' cannot be decrypted with the folder key: {e}", f.name)))?;
        let dm = decrypt_vault(&m, &key).await.map_err(|e| Failure::new(format!("c02/{be}/memory-undecryptable"), format!("[{be}] after {after}: in-memory vault of '{}' cannot be decrypted: {e}", f.name)))?;
        let dp = decrypt_vault(&p, &key).await.map_err(|e| Failure::new(format!("c02/{be}/mirror-undecryptable"), format!("[{be}] after {after}: persisted vault of '{}' cannot be decrypted: {e}", f.name)))?;
        if dr != dm {
            return Err(Failure::new(
                format!("c02/{be}/replay-vs-memory/{}", diff_class(&dr, &dm)),
                format!("[{be}] after {after}: replay of the event log of '{}' differs from the folder the account serves: {}", f.name, first_diff(&dr, &dm)),
            ));
        }
        if dr != dp {
            return Err(Failure::new(
                format!("c02/{be}/replay-vs-mirror/{}", diff_class(&dr, &dp)),
                format!("[{be}] after {after}: replay of the event log of '{}' differs from the persisted vault: {}", f.name, first_diff(&dr, &dp)),
            ));
        }
        if against_model {
            let mut secrets = BTreeMap::new();
            for s in &f.secrets {
                secrets.insert(s.id.to_string(), json!([s.meta, s.secret]));
            }
            let dmodel = json!({"name": f.name, "flags": f.flags, "description": f.description, "secrets": secrets});
            if dr != dmodel {
                return Err(Failure::new(
                    format!("c02/{be}/replay-vs-model/{}", diff_class(&dr, &dmodel)),
                    format!("[{be}] after {after}: replay of the event log of '{}' differs from what was written: {}", f.name, first_diff(&dr, &dmodel)),
                ));
            }
        }
    }
    Ok(())
}

// ---------------------------------------------------------------------------
// Generators
// ---------------------------------------------------------------------------

pub fn cfg_strategy() -> impl Strategy<Value = AcctCfg> {
    (any::<bool>(), any::<bool>(), prop_oneof![3 => Just(false), 1 => Just(true)]).prop_map(|(db, xchacha, balloon)| AcctCfg { db, xchacha, balloon })
}

fn id_choice() -> impl Strategy<Value = IdChoice> {
    prop_oneof![
        3 => any::<[u8; 16]>().prop_map(IdChoice::New),
        2 => any::<u16>().prop_map(IdChoice::Live),
        3 => any::<u16>().prop_map(IdChoice::Gone),
    ]
}

pub fn name_strategy() -> impl Strategy<Value = String> {
    // a small pool makes several folders share a name (names are not unique), incl. the names
    // of the built-in folders
    prop_oneof![
        4 => "[a-z]{1,8}",
        1 => "[ -~]{1,16}",
        1 => "\\PC{1,5}",
        2 => prop_oneof![Just("Work".to_string()), Just("Personal".to_string()), Just("Documents".to_string()), Just("Archive".to_string())],
    ]
}

#[derive(Clone, Copy, Debug, PartialEq, Eq)]
pub enum Mix {
    /// C01: everything except rewrites
    Reads,
    /// C02 local: account-level and folder-level ops plus compaction
    Replay,
    /// C12: content ops (before the rewrite sequence)
    Content,
    /// C20: account-level only (the index is maintained at account level)
    Search,
}

pub fn op_strategy(mix: Mix) -> BoxedStrategy<Op> {
    let folder_level = matches!(mix, Mix::Reads | Mix::Replay);
    let mut v: Vec<(u32, BoxedStrategy<Op>)> = vec![
        (10, (any::<u16>(), spec_strategy()).prop_map(|(folder, spec)| Op::CreateSecret { folder, spec }).boxed()),
        (6, (any::<u16>(), any::<bool>(), spec_strategy(), proptest::option::weighted(0.25, any::<u16>())).prop_map(|(sec, meta_only, spec, dest)| Op::UpdateSecret { sec, meta_only, spec, dest }).boxed()),
        (3, (any::<u16>(), any::<u16>()).prop_map(|(sec, to)| Op::MoveSecret { sec, to }).boxed()),
        (4, any::<u16>().prop_map(|sec| Op::DeleteSecret { sec }).boxed()),
        (2, any::<u16>().prop_map(|sec| Op::Archive { sec }).boxed()),
        (2, any::<u16>().prop_map(|sec| Op::Unarchive { sec }).boxed()),
        (1, (any::<u16>(), spec_strategy()).prop_map(|(gone, spec)| Op::UpdateGone { gone, spec }).boxed()),
        (1, any::<u16>().prop_map(|gone| Op::DeleteGone { gone }).boxed()),
        (4, (name_strategy(), 0u8..8).prop_map(|(name, flags)| Op::CreateFolder { name, flags }).boxed()),
        (2, (any::<u16>(), name_strategy()).prop_map(|(folder, name)| Op::RenameFolder { folder, name }).boxed()),
        (3, (any::<u16>(), 0u8..8).prop_map(|(folder, flags)| Op::SetFlags { folder, flags }).boxed()),
        (2, (any::<u16>(), "[ -~]{0,30}|\\PC{0,8}").prop_map(|(folder, text)| Op::SetDescription { folder, text }).boxed()),
        (1, any::<u16>().prop_map(|folder| Op::DeleteFolder { folder }).boxed()),
    ];
    if mix != Mix::Content {
        v.push((1, Just(Op::LockUnlock).boxed()));
        v.push((2, Just(Op::SignOutIn).boxed()));
        v.push((3, Just(Op::Reopen).boxed()));
    }
    if folder_level {
        v.push((4, (any::<u16>(), id_choice(), spec_strategy()).prop_map(|(folder, id, spec)| Op::FolderCreate { folder, id, spec }).boxed()));
        v.push((2, (any::<u16>(), spec_strategy()).prop_map(|(sec, spec)| Op::FolderUpdate { sec, spec }).boxed()));
        v.push((2, any::<u16>().prop_map(|sec| Op::FolderDelete { sec }).boxed()));
        v.push((1, (any::<u16>(), spec_strategy()).prop_map(|(folder, spec)| Op::FolderUpdateMissing { folder, spec }).boxed()));
        v.push((1, any::<u16>().prop_map(|folder| Op::FolderDeleteMissing { folder }).boxed()));
    }
    if mix == Mix::Replay {
        v.push((2, any::<u16>().prop_map(|folder| Op::CompactFolder { folder }).boxed()));
    }
    proptest::strategy::Union::new_weighted(v).boxed()
}

pub fn rewrite_strategy() -> impl Strategy<Value = Op> {
    prop_oneof![
        3 => any::<u16>().prop_map(|folder| Op::CompactFolder { folder }),
        1 => Just(Op::CompactAccount),
        3 => (any::<u16>(), "[a-z]{4,10}").prop_map(|(folder, password)| Op::ChangeFolderPassword { folder, password }),
        2 => "[a-z]{4,10}".prop_map(|password| Op::ChangeAccountPassword { password }),
        2 => (any::<bool>(), any::<bool>()).prop_map(|(xchacha, balloon)| Op::ChangeCipher { xchacha, balloon }),
    ]
}

pub fn history_strategy(mix: Mix, max_ops: usize) -> impl Strategy<Value = History> {
    (cfg_strategy(), proptest::collection::vec(op_strategy(mix), 1..max_ops)).prop_map(|(cfg, ops)| History { cfg, ops })
}

// ---------------------------------------------------------------------------
// C10: nonce scan over everything a history encrypted
// ---------------------------------------------------------------------------

pub fn run_c10_history_nonces(shard: &Shard, rep: &mut Report) {
    crate::prop_c10_hist::run(shard, rep);
}

pub fn replay_c10_history_nonces(_shard: &Shard, case: &Value) -> CheckResult {
    crate::prop_c10_hist::replay(case)
}

#[allow(dead_code)]
fn _unused(_: WriteEvent, _: &dyn EventLog<WriteEvent, Error = sos_backend::Error>) {}


/// `download_file` with a retry for one environment effect: age derives the largest scrypt work
/// factor it accepts from a ~1 ms benchmark taken at decryption time (not pinned by the SDK), so
/// on a loaded machine a blob encrypted a moment ago can be refused with "Excessive work
/// parameter". Retried with back-off (about 10 s in total) before the error is returned.
pub async fn download_file_retry<A>(account: &A, folder: &VaultId, id: &sos_core::SecretId, name: &sos_core::ExternalFileName) -> Result<Vec<u8>, String>
where
    A: Account + Send + Sync,
    <A as Account>::Error: std::fmt::Display,
{
    let mut last = String::new();
    for attempt in 0..12u64 {
        match account.download_file(folder, id, name).await {
            Ok(b) => return Ok(b),
            Err(e) => {
                last = e.to_string();
                if !last.contains("Excessive work") {
                    return Err(last);
                }
                tokio::time::sleep(std::time::Duration::from_millis(150 * (attempt + 1))).await;
            }
        }
    }
    Err(last)
}
