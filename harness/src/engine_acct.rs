//! Engine A: generated operation histories against `LocalAccount`.
use crate::framework::*;
use serde_json::Value;

pub fn run_c10_history_nonces(_shard: &Shard, _rep: &mut Report) {}

pub fn replay_c10_history_nonces(_shard: &Shard, _case: &Value) -> CheckResult {
    Ok(())
}
