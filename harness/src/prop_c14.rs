//! C14 — every stored and transmitted type survives encode/decode unchanged.
//!
//! Engine E.  For every registered type (binary format through
//! `sos_core::{encode, decode}`, protobuf wire format through
//! `WireEncodeDecode`, database row mapping through `EventRecordRow`) a value
//! is built from generated entropy and checked for
//! * `decode(encode(x)) == x` (faithful `PartialEq` or a harness projection),
//! * `encode(decode(encode(x))) == encode(x)`,
//! * determinism: the same value encoded twice, and an equal value rebuilt
//!   field by field (fresh hash maps/sets), give identical bytes.
//! Values the encoder rejects are counted, not failed.
//!
//! One sub-check per type family, so that a defect in one family does not
//! stop the search in the others.  Families whose values can contain
//! hash-ordered collections are run twice: with at most one element per
//! `HashMap`/`HashSet` (`secret`, `wire-sets`) and with several
//! (`secret-multi-hash`, `wire-sets-multi-hash`).
use crate::engine_codec::*;
use crate::fail;
use crate::framework::*;
use proptest::prelude::*;
use serde_json::Value;

pub const META: PropertyMeta = PropertyMeta {
    id: "C14",
    level: "exploration",
    rule: "case = (type, entropy bytes); the value is built from the entropy by a structure-aware reader that decides every enum variant, optional member, collection length (0, 1, several, occasionally 40-1000), string class (empty, ASCII, non-ASCII table, arbitrary scalar values, 300-5000 chars), byte payload class (empty, 1 byte, small, medium, 64-320 KiB) and number class (0, 1, u32::MAX, u32::MAX+1, i64::MAX, u64::MAX; timestamps 0001-01-01, 9999-12-31T23:59:59, -1 s, i32 edges, negative seconds, nanos 0/1/999_999_999); commit proofs are real proofs of CommitTrees with 1-300 leaves (head, first, single, multi-leaf) plus default and synthetic ones. Types: binary WriteEvent AccountEvent DeviceEvent FileEvent (all variants but Noop) EventRecord CommitHash CommitProof CommitState Comparison UtcDateTime AeadPack Cipher KeyDerivation VaultEntry VaultCommit Vault Header(+Auth) Summary SharedAccess VaultMeta SecretMeta Secret(15 kinds, user data, nested custom fields) SecretRow AuditEvent(all event kinds, all AuditData variants); wire UtcDateTime CommitHash CommitProof CommitState Comparison EventRecord CheckedPatch EventLogType Origin ExternalFile Patch Diff MaybeDiff SyncStatus SyncDiff SyncCompare SyncPacket CreateSet UpdateSet TrackedChanges MergeOutcome NetworkChangeEvent Scan/Diff/Patch Request/Response FileSet FileTransfersSet; db EventRecordRow. Non-trivial = the value uses at least one non-default optional member, non-empty collection, non-first enum variant or boundary number/string. Distinct = distinct (type, entropy).",
    assumptions: &[
        "recipients of SharedAccess::WriteAccess and keys of Secret::Age are syntactically valid age x25519 strings (the decoder validates them by design); URLs, URNs, vCards, PEM tags and TOTP parameters are drawn from valid values of the respective third-party types",
        "MergeOutcome.external_files is not part of the wire format by design (doc(hidden), rebuilt locally) and is generated empty; EventRecordRow does not store last_commit by design",
        "timestamps are generated within years 1..=9999 (RFC 3339 range used by the database mapping)",
        "VaultFlags / SecretFlags only carry defined bits (values built with from_bits_truncate)",
    ],
};

pub fn def() -> PropertyDef {
    PropertyDef {
        meta: META,
        shards: |_| 16,
        run,
        replay,
        timeout_s: |t| t.pick(900, 4 * 3600),
    }
}

pub fn entropy_strategy() -> impl Strategy<Value = Vec<u8>> {
    prop_oneof![
        2 => proptest::collection::vec(any::<u8>(), 0..8),
        5 => proptest::collection::vec(any::<u8>(), 8..64),
        5 => proptest::collection::vec(any::<u8>(), 64..300),
        1 => proptest::collection::vec(any::<u8>(), 300..1200),
    ]
}

/// Sub-check name -> (family, allow multi-element hash collections).
fn sub_of(sub: &str) -> (&str, bool) {
    match sub.strip_suffix("-multi-hash") {
        Some(f) => (f, true),
        None => (sub, !HASH_ORDER_FAMILIES.contains(&sub)),
    }
}

pub fn check(types: &[TypeDef], case: &CodecCase, multi: bool) -> (CaseInfo, CheckResult) {
    match types.iter().find(|t| t.label() == case.ty) {
        Some(t) => (t.c14)(&case.entropy, multi),
        None => (CaseInfo::default(), Err(Failure::new("harness", format!("unknown type {}", case.ty)))),
    }
}

fn run(shard: &Shard, rep: &mut Report) {
    let all = types();
    let per_type = shard.tier.pick(700u64, 36_000);
    let mut subs: Vec<String> = vec![];
    for t in &all {
        if !subs.iter().any(|s| s == t.family) {
            subs.push(t.family.to_string());
        }
    }
    for f in HASH_ORDER_FAMILIES {
        subs.push(format!("{}-multi-hash", f));
    }
    for sub in subs {
        let (family, multi) = sub_of(&sub);
        let members: Vec<(String, fn(&[u8]) -> String)> =
            all.iter().filter(|t| t.family == family).map(|t| (t.label(), t.describe)).collect();
        if members.is_empty() {
            continue;
        }
        let weight = if sub.ends_with("-multi-hash") { per_type / 2 } else { per_type };
        let total = weight * members.len() as u64;
        let n = members.len();
        let m2 = members.clone();
        let strategy = (0..n, entropy_strategy()).prop_map(move |(i, entropy)| {
            let d = m2[i].1;
            let shown = std::panic::catch_unwind(|| d(&entropy)).unwrap_or_default();
            CodecCase { ty: m2[i].0.clone(), entropy, shown }
        });
        drive(shard, rep, &sub, shard.share(total), strategy, |c| check(&all, c, multi));
    }
}

/// Sub-check name of replay files converted from libFuzzer artifacts (`tools/fuzz.sh C14`).
pub const FUZZ_SUB: &str = "fuzz/roundtrip";

/// `{ "ty": "VaultMeta", "multi": true, "entropy_hex": ".." }`: the entropy handed to the
/// generator of one registry type (`multi` = several elements per hash-ordered collection allowed).
#[derive(Clone, Debug, serde::Serialize, serde::Deserialize, PartialEq, Eq, Hash)]
pub struct FuzzRoundtripCase {
    pub ty: String,
    #[serde(default = "yes")]
    pub multi: bool,
    pub entropy_hex: String,
    /// rendering of the built value (informative; ignored on replay)
    #[serde(default)]
    pub shown: String,
}

fn yes() -> bool {
    true
}

pub fn check_fuzz_roundtrip(all: &[TypeDef], c: &FuzzRoundtripCase) -> (CaseInfo, CheckResult) {
    match hex::decode(&c.entropy_hex) {
        Ok(entropy) => check(all, &CodecCase { ty: c.ty.clone(), entropy, shown: String::new() }, c.multi),
        Err(e) => (CaseInfo::default(), Err(Failure::new("harness", format!("bad entropy_hex: {e}")))),
    }
}

fn replay(_shard: &Shard, sub: &str, case: &Value) -> CheckResult {
    let all = types();
    if sub == FUZZ_SUB {
        return match from_case::<FuzzRoundtripCase>(case) {
            Ok(c) => check_fuzz_roundtrip(&all, &c).1,
            Err(e) => Err(Failure::new("harness", e)),
        };
    }
    let (_, multi) = sub_of(sub);
    let case: CodecCase = match from_case(case) {
        Ok(c) => c,
        Err(e) => fail!("harness", "{}", e),
    };
    check(&all, &case, multi).1
}
