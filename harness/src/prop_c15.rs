//! C15 — malformed bytes are rejected with an error, never a crash.
//!
//! Engine E.  Seeds are valid encodings built by the C14 generators;
//! mutators produce malformed inputs; every input is handed to one decoder
//! *entry point* inside a **decoder worker process** (`sv codec-worker`, fed
//! over a pipe) so that an abort / allocation failure / stack overflow kills
//! the worker and not the search.  The worker brackets each call with the
//! counting allocator guard (`64 MiB + 16 x input`), catches panics and
//! reports `value | error | panic@site | contained panic | allocation trip`.
//! A worker that dies without an answer is re-spawned and the last input is
//! re-run alone to confirm before an `abort/..` violation is reported.
//!
//! One sub-check per entry point (`decode/<Type>`, `wire/<Type>`,
//! `decode_event/<E>`, `header/..`, `from_str/..`, `fs/..`), plus exhaustive
//! sub-checks over the complete kind-tag spaces (`tags-u16/<Event>`,
//! `tags-u8/<Type>`), so that one defect does not stop the search elsewhere.
use crate::alloc_count;
use crate::engine_codec::*;
use crate::framework::*;
use crate::prop_c14::entropy_strategy;
use proptest::prelude::*;
use serde::{Deserialize, Serialize};
use serde_json::{json, Value};
use sos_core::events::{AccountEvent, DeviceEvent, EventRecord, FileEvent, WriteEvent};
use std::io::{Read, Write};
use std::sync::atomic::{AtomicU64, Ordering};
use std::sync::Mutex;

pub const META: PropertyMeta = PropertyMeta {
    id: "C15",
    level: "exploration",
    rule: "case = (entry point, seed type + entropy, optional second seed, mutation list); the seed is the valid encoding of a value built by the C14 generators for the entry point's own type (or a related type); mutations: bit flip, byte set, insert, delete, truncate, length-field edit (a u32 that looks like a length, or any offset, overwritten with 0, 1, v-1, v+1, remaining+1, 2^24, 2^24+1, 2^31-1, 2^31, 2^32-1, 2^32-4, 2^32-8, 2^32-12, 2^32-16, 2v, 2^16-1), splice with a second seed, tag substitution, or a short random string (<= 64 B) instead of a seed. Enumerated sub-checks: length-wrap/<entry> overwrites each u32 of a valid encoding that looks like a length (up to 24 offsets spread over the encoding; 6 for file-level readers in the quick tier) with each of 2^32-1 .. 2^32-17, 2^31-1, 2^31, 2^31+1 (the values that wrap when a header or trailer size is added in 32 bits); truncate/<entry> decodes every proper prefix of valid encodings <= 2 KiB (file-level readers: <= 768 B in the quick tier), 2 (file-level: 1) seeds per shard and entry in the quick tier, 60 (12) in the thorough tier; every u16 kind tag for the four event decoders and EventRecord::decode_event (each tag with an empty body, a random body and the bodies of two valid events) and every u8 value of the leading tag byte of Cipher, KeyDerivation, Comparison, Secret, SecretMeta, SharedAccess, AeadPack, FileContent, SecretSigner. Non-trivial = the input differs from the unmutated seed and either its first structural bytes (1 byte; 2 for events; 8 for vault/header) are intact or the decoder returned a value. Distinct = distinct case.",
    assumptions: &[
        "a hang is never inferred from wall-clock time: a decoder call that does not answer within 120 s is killed and reported as inconclusive",
        "allocation accounting counts requested heap bytes of the whole worker process (single decode in flight); a single request or a peak above 64 MiB + 16 x input length is a violation, the request itself is refused so that the verdict does not depend on the overcommit policy of the machine",
        "for wire types the observable API is WireEncodeDecode::decode, which runs the decoder in spawn_blocking: a panic contained there (join error) is counted as a class and is not a violation",
        "server routes, archives and bearer tokens are covered by engine G (http), not here",
    ],
};

pub fn def() -> PropertyDef {
    PropertyDef {
        meta: META,
        shards: |_| 16,
        run: run_shard,
        replay,
        timeout_s: |t| t.pick(900, 6 * 3600),
    }
}

// ---------------------------------------------------------------------------
// entry points
// ---------------------------------------------------------------------------

pub struct Entry {
    /// sub-check / signature name, e.g. `decode/WriteEvent`
    pub name: String,
    /// decode arbitrary bytes: Ok = value, Err = the decoder's error
    pub run: fn(&[u8]) -> Result<(), String>,
    /// labels of registry types whose encodings are the seeds
    pub seeds: Vec<String>,
    /// contained panics (spawn_blocking) are not violations
    pub wire: bool,
    /// number of leading bytes that form the first structural check
    pub header: usize,
    /// text entry point (seeds are strings)
    pub text: bool,
}

fn decode_event_as<E: binary_stream::futures::Decodable + Default + Send + Sync>(b: &[u8]) -> Result<(), String> {
    let rec = EventRecord::new(Default::default(), Default::default(), Default::default(), b.to_vec());
    run(rec.decode_event::<E>()).map(|_| ()).map_err(|e| e.to_string())
}

fn from_str_as<T: std::str::FromStr>(b: &[u8]) -> Result<(), String>
where
    T::Err: std::fmt::Display,
{
    let s = String::from_utf8_lossy(b);
    s.parse::<T>().map(|_| ()).map_err(|e| e.to_string())
}

/// Deliberately misbehaving decoder used by the machinery self-test only.
fn misbehave(b: &[u8]) -> Result<(), String> {
    #[allow(unconditional_recursion)]
    fn deep(n: u64, pad: [u8; 512]) -> u64 {
        if n == u64::MAX {
            return pad[0] as u64;
        }
        std::hint::black_box(deep(n + 1, std::hint::black_box([n as u8; 512]))) + 1
    }
    match b.first() {
        Some(b'A') => std::process::abort(),
        Some(b'M') => {
            let v: Vec<u64> = Vec::with_capacity(u32::MAX as usize);
            Err(format!("allocated {}", v.capacity()))
        }
        Some(b'm') => {
            // many medium allocations that add up above the budget
            let mut keep = vec![];
            for _ in 0..80 {
                keep.push(vec![1u8; 1024 * 1024]);
            }
            Ok(drop(keep))
        }
        Some(b'P') => panic!("selftest panic"),
        Some(b'T') => {
            // a panic swallowed by a spawned task
            run(async {
                let _ = tokio::task::spawn(async { panic!("selftest task panic") }).await;
            });
            Ok(())
        }
        Some(b'S') => Err(format!("{}", deep(0, [0u8; 512]))),
        Some(b'E') => Err("selftest error".into()),
        // never returns (timeout handling of the libFuzzer driver script)
        Some(b'H') => loop {
            std::thread::sleep(std::time::Duration::from_millis(10));
        },
        _ => Ok(()),
    }
}

/// Exercise the worker / client machinery with the misbehaving decoder.
pub fn selftest() -> i32 {
    std::env::set_var("SV_CODEC_SELFTEST", "1");
    let ctx = Ctx::new();
    let Some((idx, entry)) = ctx.entry("selftest/misbehave") else {
        println!("FAIL selftest entry missing");
        return 1;
    };
    let mut bad = 0;
    let mut expect = |what: &str, ok: bool, got: String| {
        println!("{} {} [{}]", if ok { "ok  " } else { "FAIL" }, what, got.chars().take(160).collect::<String>());
        if !ok {
            bad += 1;
        }
    };
    let sig = |o: &Outcome, input: &[u8]| -> String {
        let mut info = CaseInfo::default();
        match judge(entry, input, o, &mut info) {
            Ok(()) => format!("ok {:?}", info.classes),
            Err(f) => f.signature,
        }
    };
    let o = exec(idx, b"ok");
    expect("a value is a pass", o == Outcome::Value, format!("{:?}", o));
    let o = exec(idx, b"E");
    expect("an error is a pass", matches!(o, Outcome::Error(_)) && sig(&o, b"E").starts_with("ok"), format!("{:?}", o));
    let o = exec(idx, b"P");
    expect("a panic is reported with its site", sig(&o, b"P").starts_with("decode-panic/selftest/misbehave/src/prop_c15.rs:"), sig(&o, b"P"));
    let o = exec(idx, b"T");
    expect("a panic swallowed by a task is reported", sig(&o, b"T").starts_with("task-panic/selftest/misbehave/"), sig(&o, b"T"));
    let o = exec(idx, b"M");
    expect("a huge single allocation trips the guard", sig(&o, b"M") == "alloc/selftest/misbehave", format!("{:?}", o));
    let o = exec(idx, b"m");
    expect("many allocations above the budget trip the guard", sig(&o, b"m") == "alloc/selftest/misbehave", format!("{:?}", o));
    let o = exec(idx, b"ok");
    expect("the worker is respawned after a trip", o == Outcome::Value, format!("{:?}", o));
    let o = exec(idx, b"A");
    expect("an abort is confirmed and reported", sig(&o, b"A").starts_with("abort/selftest/misbehave/"), sig(&o, b"A"));
    let o = exec(idx, b"S");
    expect("a stack overflow is confirmed and reported", sig(&o, b"S").starts_with("abort/selftest/misbehave/"), sig(&o, b"S"));
    let o = exec(idx, b"ok");
    expect("the worker is respawned after a death", o == Outcome::Value, format!("{:?}", o));
    shutdown_client();
    bad
}

fn header_of(label: &str) -> usize {
    match label {
        "WriteEvent" | "AccountEvent" | "DeviceEvent" | "FileEvent" => 2,
        "Vault" | "Header" => 8,
        "EventRecord" => 4,
        _ => 1,
    }
}

pub fn entries() -> Vec<Entry> {
    let mut v = vec![];
    for t in types() {
        match t.format {
            Format::Bin => v.push(Entry {
                name: format!("decode/{}", t.name),
                run: t.decode,
                seeds: vec![t.label()],
                wire: false,
                header: header_of(t.name),
                text: false,
            }),
            Format::Wire => v.push(Entry {
                name: format!("wire/{}", t.name),
                run: t.decode,
                seeds: vec![t.label()],
                wire: true,
                header: 1,
                text: false,
            }),
            Format::Db => {}
        }
    }
    let ev = |name: &str, run: fn(&[u8]) -> Result<(), String>, seed: &str| Entry {
        name: name.to_string(),
        run,
        seeds: vec![seed.to_string()],
        wire: false,
        header: 2,
        text: false,
    };
    v.push(ev("decode_event/WriteEvent", decode_event_as::<WriteEvent>, "WriteEvent"));
    v.push(ev("decode_event/AccountEvent", decode_event_as::<AccountEvent>, "AccountEvent"));
    v.push(ev("decode_event/DeviceEvent", decode_event_as::<DeviceEvent>, "DeviceEvent"));
    v.push(ev("decode_event/FileEvent", decode_event_as::<FileEvent>, "FileEvent"));
    let hd = |name: &str, run: fn(&[u8]) -> Result<(), String>| Entry {
        name: name.to_string(),
        run,
        seeds: vec!["Vault".to_string(), "Header".to_string()],
        wire: false,
        header: 8,
        text: false,
    };
    v.push(hd("header/read_summary_slice", |b| {
        run(sos_vault::Header::read_summary_slice(b)).map(|_| ()).map_err(|e| e.to_string())
    }));
    v.push(hd("header/read_content_offset_slice", |b| {
        run(sos_vault::Header::read_content_offset_slice(b)).map(|_| ()).map_err(|e| e.to_string())
    }));
    // decode-only binary types seeded from related encodings
    let rel = |name: &str, run: fn(&[u8]) -> Result<(), String>, seeds: &[&str]| Entry {
        name: name.to_string(),
        run,
        seeds: seeds.iter().map(|s| s.to_string()).collect(),
        wire: false,
        header: 1,
        text: false,
    };
    v.push(rel("decode/FileContent", decode_bin::<sos_vault::secret::FileContent>, &["seed:FileContent"]));
    v.push(rel("decode/SecretSigner", decode_bin::<sos_vault::secret::SecretSigner>, &["seed:SecretSigner"]));
    v.push(rel("decode/EventKind", decode_bin::<sos_core::events::EventKind>, &["WriteEvent", "AccountEvent"]));
    v.push(rel("decode/Contents", decode_bin::<sos_vault::Contents>, &["seed:Contents"]));
    v.push(rel("decode/fs:EventLogRecord", decode_bin::<sos_filesystem::formats::EventLogRecord>, &["seed:EventRecordBody"]));
    v.push(rel("decode/fs:VaultRecord", decode_bin::<sos_filesystem::formats::VaultRecord>, &["seed:Contents"]));
    // file-level readers over mutated event-log and vault files
    let fs = |name: &str, run: fn(&[u8]) -> Result<(), String>, seed: &str, header: usize| Entry {
        name: name.to_string(),
        run,
        seeds: vec![seed.to_string()],
        wire: false,
        header,
        text: false,
    };
    v.push(fs("fs/folder_event_log", fs_folder_event_log, "file:folder-event-log", 4));
    v.push(fs("fs/account_event_log", fs_account_event_log, "file:account-event-log", 6));
    v.push(fs(
        "fs/format_stream(event_log)",
        |b| fs_format_stream::<sos_filesystem::formats::EventLogRecord>(b, &sos_core::constants::FOLDER_EVENT_LOG_IDENTITY, false),
        "file:folder-event-log",
        4,
    ));
    v.push(fs(
        "fs/format_stream(vault)",
        |b| fs_format_stream::<sos_filesystem::formats::VaultRecord>(b, &sos_core::constants::VAULT_IDENTITY, true),
        "Vault",
        8,
    ));
    v.push(fs("fs/header_files", fs_header_files, "Vault", 8));
    // machinery self-test (`sv codec-selftest` sets SV_CODEC_SELFTEST for itself and its workers)
    if std::env::var("SV_CODEC_SELFTEST").is_ok() {
        v.push(rel("selftest/misbehave", misbehave, &["Cipher"]));
    }
    // text entry points
    let tx = |name: &str, run: fn(&[u8]) -> Result<(), String>, seed: &str| Entry {
        name: name.to_string(),
        run,
        seeds: vec![seed.to_string()],
        wire: false,
        header: 2,
        text: true,
    };
    v.push(tx("from_str/AccountId", from_str_as::<sos_core::AccountId>, "text:AccountId"));
    v.push(tx("from_str/ExternalFile", from_str_as::<sos_core::ExternalFile>, "text:ExternalFile"));
    v.push(tx("from_str/ExternalFileName", from_str_as::<sos_core::ExternalFileName>, "text:ExternalFileName"));
    v.push(tx("from_str/CommitHash", from_str_as::<sos_core::commit::CommitHash>, "text:CommitHash"));
    v.push(tx("from_str/ServerPairUrl", from_str_as::<sos_net::pairing::ServerPairUrl>, "text:ServerPairUrl"));
    v
}


// ---------------------------------------------------------------------------
// file-level entry points (run inside the worker; the input is written to a
// file in the directory named by SV_CODEC_DIR)
// ---------------------------------------------------------------------------

fn input_file(b: &[u8]) -> Result<std::path::PathBuf, String> {
    let dir = std::env::var("SV_CODEC_DIR").unwrap_or_else(|_| std::env::temp_dir().to_string_lossy().to_string());
    let p = std::path::Path::new(&dir).join(format!("input-{}.bin", std::process::id()));
    std::fs::write(&p, b).map_err(|e| format!("harness: cannot write input file: {e}"))?;
    Ok(p)
}

pub const RUNAWAY: &str = "RUNAWAY-ITERATION";

/// More rows than this cannot come out of `len` bytes (a row is >= 8 bytes).
fn row_cap(len: usize) -> usize {
    len / 8 + 16
}

async fn exercise_log<T>(mut log: sos_filesystem::FileSystemEventLog<T, sos_filesystem::Error>, len: usize) -> Result<(), String>
where
    T: Default + binary_stream::futures::Encodable + binary_stream::futures::Decodable + Send + Sync + 'static,
{
    use futures::StreamExt;
    use sos_core::events::EventLog;
    let cap = row_cap(len);
    let mut first_err: Option<String> = None;
    if let Err(e) = log.load_tree().await {
        first_err.get_or_insert(format!("load_tree: {e}"));
    }
    for reverse in [false, true] {
        let stream = log.record_stream(reverse).await;
        futures::pin_mut!(stream);
        let mut n = 0usize;
        while let Some(item) = stream.next().await {
            n += 1;
            if let Err(e) = item {
                first_err.get_or_insert(format!("record_stream({reverse}): {e}"));
                break;
            }
            if n > cap {
                return Err(format!("{RUNAWAY}: record_stream(reverse={reverse}) yielded more than {cap} rows from {len} bytes"));
            }
        }
    }
    match log.diff_records(None).await {
        Ok(r) if r.len() > cap => return Err(format!("{RUNAWAY}: diff_records(None) returned {} rows from {len} bytes", r.len())),
        Ok(_) => {}
        Err(e) => {
            first_err.get_or_insert(format!("diff_records(None): {e}"));
        }
    }
    let needle = sos_core::commit::CommitHash([7u8; 32]);
    if let Err(e) = log.diff_records(Some(&needle)).await {
        first_err.get_or_insert(format!("diff_records(Some): {e}"));
    }
    match first_err {
        None => Ok(()),
        Some(e) => Err(e),
    }
}

fn fs_folder_event_log(b: &[u8]) -> Result<(), String> {
    let p = input_file(b)?;
    run(async {
        let id = sos_core::AccountId::from([1u8; 20]);
        match sos_filesystem::FolderEventLog::<sos_filesystem::Error>::new_folder(&p, id, sos_core::events::EventLogType::Identity).await {
            Ok(l) => exercise_log(l, b.len()).await,
            Err(e) => Err(e.to_string()),
        }
    })
}

fn fs_account_event_log(b: &[u8]) -> Result<(), String> {
    let p = input_file(b)?;
    run(async {
        let id = sos_core::AccountId::from([1u8; 20]);
        match sos_filesystem::AccountEventLog::<sos_filesystem::Error>::new_account(&p, id).await {
            Ok(l) => exercise_log(l, b.len()).await,
            Err(e) => Err(e.to_string()),
        }
    })
}

fn fs_format_stream<T: sos_filesystem::formats::FileItem + Send>(b: &[u8], identity: &'static [u8], vault: bool) -> Result<(), String> {
    use sos_filesystem::formats::{FormatStream, FormatStreamIterator};
    let p = input_file(b)?;
    let cap = row_cap(b.len());
    run(async {
        let mut first_err: Option<String> = None;
        let offset = if vault {
            match sos_vault::Header::read_content_offset(&p).await {
                Ok(o) => Some(o),
                Err(e) => return Err(format!("read_content_offset: {e}")),
            }
        } else {
            None
        };
        for reverse in [false, true] {
            let file = match sos_vfs::File::open(&p).await {
                Ok(f) => f,
                Err(e) => return Err(format!("harness: open: {e}")),
            };
            let mut it = match FormatStream::<T, sos_vfs::File>::new_file(file, identity, true, offset, reverse).await {
                Ok(i) => i,
                Err(e) => {
                    first_err.get_or_insert(format!("new_file: {e}"));
                    continue;
                }
            };
            let mut n = 0usize;
            loop {
                match it.next().await {
                    Ok(Some(_)) => {
                        n += 1;
                        if n > cap {
                            return Err(format!("{RUNAWAY}: FormatStream(reverse={reverse}) yielded more than {cap} rows from {} bytes", b.len()));
                        }
                    }
                    Ok(None) => break,
                    Err(e) => {
                        first_err.get_or_insert(format!("next(reverse={reverse}): {e}"));
                        break;
                    }
                }
            }
        }
        match first_err {
            None => Ok(()),
            Some(e) => Err(e),
        }
    })
}

fn fs_header_files(b: &[u8]) -> Result<(), String> {
    let p = input_file(b)?;
    run(async {
        let a = sos_vault::Header::read_summary_file(&p).await.map(|_| ()).map_err(|e| format!("read_summary_file: {e}"));
        let h = sos_vault::Header::read_header_file(&p).await.map(|_| ()).map_err(|e| format!("read_header_file: {e}"));
        let c = sos_vault::Header::read_content_offset(&p).await.map(|_| ()).map_err(|e| format!("read_content_offset: {e}"));
        a.and(h).and(c)
    })
}

/// Seed bytes for a seed label (registry type label or a special `seed:`/`text:` label).
pub fn seed_bytes(all: &[TypeDef], label: &str, entropy: &[u8]) -> Option<Vec<u8>> {
    if let Some(t) = all.iter().find(|t| t.label() == label) {
        return (t.seed)(entropy);
    }
    let mut u = U::new(entropy);
    match label {
        "seed:FileContent" => {
            // the encoding of Secret::File is [kind][FileContent][user data]
            let s = g_secret_of(&mut u, sos_vault::secret::SecretType::File);
            run(sos_core::encode(&s)).ok().map(|b| b[1..].to_vec())
        }
        "seed:SecretSigner" => {
            let s = g_secret_of(&mut u, sos_vault::secret::SecretType::Signer);
            run(sos_core::encode(&s)).ok().map(|b| b[1..].to_vec())
        }
        "seed:Contents" => {
            // rows of a vault file (everything after the header)
            let v = g_vault(&mut u);
            let b = run(sos_core::encode(&v)).ok()?;
            let off = run(sos_vault::Header::read_content_offset_slice(&b)).ok()? as usize;
            Some(b[off.min(b.len())..].to_vec())
        }
        "seed:EventRecordBody" => {
            // an event log row without its leading length: [time][last][commit]...
            let r = g_event_record(&mut u);
            run(sos_core::encode(&r)).ok().map(|b| b[4..].to_vec())
        }
        "file:folder-event-log" | "file:account-event-log" => {
            let account = label == "file:account-event-log";
            let mut out = if account {
                let mut h = sos_core::constants::ACCOUNT_EVENT_LOG_IDENTITY.to_vec();
                h.extend_from_slice(&sos_core::encoding::VERSION.to_le_bytes());
                h
            } else {
                sos_core::constants::FOLDER_EVENT_LOG_IDENTITY.to_vec()
            };
            let n = match u.below(8) {
                0 => 0,
                7 => 20,
                k => k,
            };
            for _ in 0..n {
                let r = g_event_record_of(&mut u, if account { 1 } else { 0 });
                out.extend_from_slice(&run(sos_core::encode(&r)).ok()?);
            }
            Some(out)
        }
        "text:AccountId" => Some(g_account_id(&mut u).to_string().into_bytes()),
        "text:ExternalFile" => Some(g_external_file(&mut u).to_string().into_bytes()),
        "text:ExternalFileName" => Some(g_file_name(&mut u).to_string().into_bytes()),
        "text:CommitHash" => Some(u.hash().to_string().into_bytes()),
        "text:ServerPairUrl" => {
            let mut url = url::Url::parse("data:text/plain,sos-pair").ok()?;
            let aid = g_account_id(&mut u).to_string();
            let server = format!("https://{}.example.com/{}", u.ident(8), u.ident(4));
            let n = u.below(40);
            let key: Vec<u8> = (0..n).map(|_| u.byte()).collect();
            let psk = u.arr::<32>();
            url.query_pairs_mut()
                .append_pair("aid", &aid)
                .append_pair("url", &server)
                .append_pair("key", &hex::encode(key))
                .append_pair("psk", &hex::encode(psk));
            Some(url.to_string().into_bytes())
        }
        _ => None,
    }
}

// ---------------------------------------------------------------------------
// worker process (child)
// ---------------------------------------------------------------------------

const ST_VALUE: u8 = 0;
const ST_ERROR: u8 = 1;
const ST_PANIC: u8 = 2;
const ST_CONTAINED: u8 = 3;
const ST_ALLOC_TRIP: u8 = alloc_count::STATUS_ALLOC_TRIP; // 4
const ST_BAD_ENTRY: u8 = 5;

pub const BUDGET_BASE: usize = 64 * 1024 * 1024;
pub const BUDGET_FACTOR: usize = 16;

static PANICS: AtomicU64 = AtomicU64::new(0);
static LAST_SITE: Mutex<String> = Mutex::new(String::new());
static LAST_MSG: Mutex<String> = Mutex::new(String::new());
static IN_FLIGHT_SINCE: AtomicU64 = AtomicU64::new(0);

/// `file:line` with machine-specific prefixes removed.
pub fn normalize_site(file: &str, line: u32) -> String {
    let f = if let Some(rest) = file.strip_prefix("/repo/") {
        rest.to_string()
    } else if let Some(i) = file.find("/registry/src/") {
        // ~/.cargo/registry/src/<index>/<crate>-<ver>/src/..
        let rest = &file[i + "/registry/src/".len()..];
        rest.split_once('/').map(|x| x.1).unwrap_or(rest).to_string()
    } else if let Some(i) = file.find("/library/") {
        format!("rust{}", &file[i..])
    } else {
        file.to_string()
    };
    format!("{}:{}", f, line)
}

/// Record a panic (site, message, counter) without printing it; the body of the worker's
/// panic hook, also used by the hook of the libFuzzer targets (`crate::fuzz`).
pub fn record_panic(info: &std::panic::PanicHookInfo<'_>) {
    let site = info.location().map(|l| normalize_site(l.file(), l.line())).unwrap_or_default();
    let msg = if let Some(s) = info.payload().downcast_ref::<&str>() {
        s.to_string()
    } else if let Some(s) = info.payload().downcast_ref::<String>() {
        s.clone()
    } else {
        "panic".to_string()
    };
    if let Ok(mut l) = LAST_SITE.lock() {
        *l = site;
    }
    if let Ok(mut l) = LAST_MSG.lock() {
        *l = msg.chars().take(300).collect();
    }
    PANICS.fetch_add(1, Ordering::SeqCst);
}

fn install_worker_hook() {
    std::panic::set_hook(Box::new(|info| record_panic(info)));
}

/// One decoder call in *this* process, bracketed exactly like a worker request (allocation
/// guard `64 MiB + 16 x input`, `catch_unwind`, contained-panic detection).  Needs the
/// counting allocator as global allocator and a hook that calls [`record_panic`].  An
/// allocation trip aborts the process (see `alloc_count`), so it never shows up as an
/// `Outcome` here: the libFuzzer targets rely on the abort being recorded as a crash.
pub fn run_in_process(entry: &Entry, payload: &[u8]) -> Outcome {
    let before = PANICS.load(Ordering::SeqCst);
    alloc_count::guard_begin(BUDGET_BASE + BUDGET_FACTOR * payload.len());
    let r = std::panic::catch_unwind(std::panic::AssertUnwindSafe(|| (entry.run)(payload)));
    let _peak = alloc_count::guard_end();
    let panicked = PANICS.load(Ordering::SeqCst) > before;
    let site = || LAST_SITE.lock().map(|s| s.clone()).unwrap_or_default();
    let pmsg = || LAST_MSG.lock().map(|s| s.clone()).unwrap_or_default();
    match r {
        Err(_) => Outcome::Panic { site: site(), msg: pmsg() },
        Ok(Ok(())) if !panicked => Outcome::Value,
        Ok(Err(e)) if !panicked => Outcome::Error(e.chars().take(200).collect()),
        Ok(_) => Outcome::Contained { site: site(), msg: pmsg() },
    }
}

fn read_frame(r: &mut impl Read) -> Option<Vec<u8>> {
    let mut len = [0u8; 4];
    r.read_exact(&mut len).ok()?;
    let n = u32::from_le_bytes(len) as usize;
    let mut buf = vec![0u8; n];
    r.read_exact(&mut buf).ok()?;
    Some(buf)
}

fn write_frame(w: &mut impl Write, payload: &[u8]) -> std::io::Result<()> {
    w.write_all(&(payload.len() as u32).to_le_bytes())?;
    w.write_all(payload)?;
    w.flush()
}

/// `sv codec-worker`: decode requests from stdin, answers on stdout.
pub fn worker_main() -> i32 {
    install_worker_hook();
    let entries = entries();
    let _ = rt(); // build the runtime outside any guard
    alloc_count::set_trip_fd(1);
    // orphan protection: a call that spins for 10 minutes ends the worker
    std::thread::spawn(|| loop {
        std::thread::sleep(std::time::Duration::from_secs(5));
        let since = IN_FLIGHT_SINCE.load(Ordering::SeqCst);
        if since != 0 {
            let now = std::time::SystemTime::now().duration_since(std::time::UNIX_EPOCH).map(|d| d.as_secs()).unwrap_or(0);
            if now.saturating_sub(since) > 600 {
                std::process::abort();
            }
        }
    });
    let stdin = std::io::stdin();
    let mut stdin = stdin.lock();
    let mut out = std::io::stdout();
    PANICS.store(0, Ordering::SeqCst);
    while let Some(req) = read_frame(&mut stdin) {
        if req.len() < 2 {
            return 2;
        }
        let idx = u16::from_le_bytes([req[0], req[1]]) as usize;
        let payload = &req[2..];
        let mut resp: Vec<u8> = Vec::with_capacity(256);
        let Some(entry) = entries.get(idx) else {
            resp.push(ST_BAD_ENTRY);
            resp.extend_from_slice(&0u64.to_le_bytes());
            let _ = write_frame(&mut out, &resp);
            continue;
        };
        let before = PANICS.load(Ordering::SeqCst);
        let now = std::time::SystemTime::now().duration_since(std::time::UNIX_EPOCH).map(|d| d.as_secs()).unwrap_or(1);
        IN_FLIGHT_SINCE.store(now.max(1), Ordering::SeqCst);
        alloc_count::guard_begin(BUDGET_BASE + BUDGET_FACTOR * payload.len());
        let r = std::panic::catch_unwind(std::panic::AssertUnwindSafe(|| (entry.run)(payload)));
        let peak = alloc_count::guard_end();
        IN_FLIGHT_SINCE.store(0, Ordering::SeqCst);
        let panicked = PANICS.load(Ordering::SeqCst) > before;
        let site = || LAST_SITE.lock().map(|s| s.clone()).unwrap_or_default();
        let pmsg = || LAST_MSG.lock().map(|s| s.clone()).unwrap_or_default();
        let (status, msg) = match r {
            Err(_) => (ST_PANIC, format!("{}\n{}", site(), pmsg())),
            Ok(Ok(())) if !panicked => (ST_VALUE, String::new()),
            Ok(Err(e)) if !panicked => (ST_ERROR, e.chars().take(200).collect()),
            Ok(_) => (ST_CONTAINED, format!("{}\n{}", site(), pmsg())),
        };
        resp.push(status);
        resp.extend_from_slice(&(peak as u64).to_le_bytes());
        resp.extend_from_slice(msg.as_bytes());
        if write_frame(&mut out, &resp).is_err() {
            return 0;
        }
    }
    0
}

// ---------------------------------------------------------------------------
// client (parent side)
// ---------------------------------------------------------------------------

#[derive(Clone, Debug, PartialEq)]
pub enum Outcome {
    Value,
    Error(String),
    Panic { site: String, msg: String },
    Contained { site: String, msg: String },
    /// allocation guard tripped (peak extra bytes that would have been live, size of the request)
    AllocTrip { extra: u64, request: u64 },
    /// the call finished but its peak exceeded the budget (cannot happen with the trip guard; kept for completeness)
    Died { status: String },
    Hang,
}

struct Client {
    child: std::process::Child,
    stdin: std::process::ChildStdin,
    rx: std::sync::mpsc::Receiver<Vec<u8>>,
}

impl Client {
    fn spawn() -> std::io::Result<Client> {
        let exe = std::env::current_exe()?;
        let mut child = std::process::Command::new(exe)
            .arg("codec-worker")
            .env("SV_CODEC_DIR", work_dir())
            .stdin(std::process::Stdio::piped())
            .stdout(std::process::Stdio::piped())
            .stderr(std::process::Stdio::null())
            .spawn()?;
        let stdin = child.stdin.take().expect("piped stdin");
        let mut stdout = child.stdout.take().expect("piped stdout");
        let (tx, rx) = std::sync::mpsc::channel();
        std::thread::spawn(move || {
            while let Some(f) = read_frame(&mut stdout) {
                if tx.send(f).is_err() {
                    break;
                }
            }
        });
        Ok(Client { child, stdin, rx })
    }

    fn kill(mut self) -> String {
        let _ = self.child.kill();
        self.child.wait().map(|s| s.to_string()).unwrap_or_default()
    }

    fn reap(mut self) -> String {
        drop(self.stdin);
        // the process is gone or going: wait for its status
        for _ in 0..200 {
            match self.child.try_wait() {
                Ok(Some(s)) => return s.to_string(),
                Ok(None) => std::thread::sleep(std::time::Duration::from_millis(10)),
                Err(_) => break,
            }
        }
        let _ = self.child.kill();
        self.child.wait().map(|s| s.to_string()).unwrap_or_default()
    }
}

static CLIENT: Mutex<Option<Client>> = Mutex::new(None);
static WORK_DIR: Mutex<Option<tempfile::TempDir>> = Mutex::new(None);

/// Directory for the input files of file-level entry points (removed by `shutdown_client`).
fn work_dir() -> std::path::PathBuf {
    let mut g = WORK_DIR.lock().unwrap_or_else(|p| p.into_inner());
    if g.is_none() {
        *g = tempfile::Builder::new().prefix("sv-codec-").tempdir().ok();
    }
    g.as_ref().map(|d| d.path().to_path_buf()).unwrap_or_else(std::env::temp_dir)
}
/// Notes produced by the client (hangs, unconfirmed deaths); drained into the report.
static NOTES: Mutex<Vec<String>> = Mutex::new(Vec::new());
pub const CALL_TIMEOUT_S: u64 = 120;

fn note(s: String) {
    if let Ok(mut n) = NOTES.lock() {
        if n.len() < 20 {
            n.push(s);
        }
    }
}

fn exec_once(idx: usize, bytes: &[u8]) -> Outcome {
    let mut guard = CLIENT.lock().unwrap_or_else(|p| p.into_inner());
    if guard.is_none() {
        match Client::spawn() {
            Ok(c) => *guard = Some(c),
            Err(e) => return Outcome::Died { status: format!("cannot spawn worker: {e}") },
        }
    }
    let c = guard.as_mut().expect("client");
    let mut req = Vec::with_capacity(bytes.len() + 2);
    req.extend_from_slice(&(idx as u16).to_le_bytes());
    req.extend_from_slice(bytes);
    if write_frame(&mut c.stdin, &req).is_err() {
        let status = guard.take().map(|c| c.reap()).unwrap_or_default();
        return Outcome::Died { status };
    }
    match c.rx.recv_timeout(std::time::Duration::from_secs(CALL_TIMEOUT_S)) {
        Ok(f) if f.len() >= 9 => {
            let status = f[0];
            let n = u64::from_le_bytes(f[1..9].try_into().expect("8 bytes"));
            let text = String::from_utf8_lossy(&f[9..]).to_string();
            let (site, msg) = text.split_once('\n').map(|(a, b)| (a.to_string(), b.to_string())).unwrap_or((text.clone(), String::new()));
            match status {
                ST_VALUE => Outcome::Value,
                ST_ERROR => Outcome::Error(text),
                ST_PANIC => Outcome::Panic { site, msg },
                ST_CONTAINED => Outcome::Contained { site, msg },
                ST_ALLOC_TRIP => {
                    let request = if f.len() >= 17 { u64::from_le_bytes(f[9..17].try_into().expect("8 bytes")) } else { 0 };
                    // the worker aborted itself right after this frame
                    if let Some(c) = guard.take() {
                        let _ = c.reap();
                    }
                    Outcome::AllocTrip { extra: n, request }
                }
                _ => Outcome::Died { status: format!("protocol error: status {}", status) },
            }
        }
        Ok(_) => {
            let status = guard.take().map(|c| c.kill()).unwrap_or_default();
            Outcome::Died { status: format!("protocol error: short frame ({status})") }
        }
        Err(std::sync::mpsc::RecvTimeoutError::Timeout) => {
            if let Some(c) = guard.take() {
                let _ = c.kill();
            }
            Outcome::Hang
        }
        Err(std::sync::mpsc::RecvTimeoutError::Disconnected) => {
            let status = guard.take().map(|c| c.reap()).unwrap_or_default();
            Outcome::Died { status }
        }
    }
}

/// Run one decode in the worker; a death is confirmed by a second, isolated run.
pub fn exec(idx: usize, bytes: &[u8]) -> Outcome {
    match exec_once(idx, bytes) {
        Outcome::Died { status } => match exec_once(idx, bytes) {
            Outcome::Died { status: s2 } => Outcome::Died { status: if s2.is_empty() { status } else { s2 } },
            other => {
                note(format!("worker died ({status}) but the isolated re-run of the same input did not: {:?}", other));
                other
            }
        },
        o => o,
    }
}

pub fn shutdown_client() {
    if let Ok(mut g) = WORK_DIR.lock() {
        g.take();
    }
    if let Ok(mut g) = CLIENT.lock() {
        if let Some(c) = g.take() {
            drop(c.stdin);
            let mut child = c.child;
            let _ = child.wait();
        }
    }
}

// ---------------------------------------------------------------------------
// mutations
// ---------------------------------------------------------------------------

#[derive(Clone, Debug, Serialize, Deserialize, PartialEq, Eq, Hash)]
pub enum Mutation {
    BitFlip { pos: u16, bit: u8 },
    SetByte { pos: u16, val: u8 },
    Insert { pos: u16, bytes: Vec<u8> },
    Delete { pos: u16, len: u8 },
    Truncate { pos: u16 },
    /// overwrite a u32: `slot` picks among offsets whose value looks like a
    /// length (or any offset when `any`), `how` picks the new value
    LenEdit { slot: u16, how: u8, any: bool },
    /// first `at` fraction of this input followed by the tail of the second seed from `other_at`
    Splice { at: u16, other_at: u16 },
    /// overwrite the leading u16 / u8 tag
    TagU16 { tag: u16 },
    TagU8 { tag: u8 },
}

pub fn len_edit_value(how: u8, cur: u32, remaining: usize) -> u32 {
    match how % 16 {
        0 => 0,
        1 => 1,
        2 => cur.wrapping_sub(1),
        3 => cur.wrapping_add(1),
        4 => (remaining as u32).wrapping_add(1),
        5 => 1 << 24,
        6 => (1 << 24) + 1,
        7 => 1 << 31,
        8 => u32::MAX,
        // values that wrap when a small header / trailer size is added in 32 bits
        9 => u32::MAX - 7,
        10 => u32::MAX - 3,
        11 => u32::MAX - 11,
        12 => u32::MAX - 15,
        13 => (1 << 31) - 1,
        14 => cur.wrapping_mul(2),
        _ => 0xFFFF,
    }
}

pub fn apply(mut b: Vec<u8>, other: &[u8], m: &Mutation) -> Vec<u8> {
    match m {
        Mutation::BitFlip { pos, bit } => {
            if !b.is_empty() {
                let i = pick(*pos, b.len());
                b[i] ^= 1 << (bit % 8);
            }
        }
        Mutation::SetByte { pos, val } => {
            if !b.is_empty() {
                let i = pick(*pos, b.len());
                b[i] = *val;
            }
        }
        Mutation::Insert { pos, bytes } => {
            let i = pick(*pos, b.len() + 1);
            let tail = b.split_off(i);
            b.extend_from_slice(bytes);
            b.extend_from_slice(&tail);
        }
        Mutation::Delete { pos, len } => {
            if !b.is_empty() {
                let i = pick(*pos, b.len());
                let n = (*len as usize % 16 + 1).min(b.len() - i);
                b.drain(i..i + n);
            }
        }
        Mutation::Truncate { pos } => {
            let i = pick(*pos, b.len());
            b.truncate(i);
        }
        Mutation::LenEdit { slot, how, any } => {
            if b.len() >= 4 {
                let offs: Vec<usize> = if *any {
                    (0..=b.len() - 4).collect()
                } else {
                    let c: Vec<usize> = (0..=b.len() - 4)
                        .filter(|i| {
                            let v = u32::from_le_bytes(b[*i..*i + 4].try_into().expect("4 bytes")) as usize;
                            v <= b.len() - i - 4 + 8 && (v > 0 || b[*i..*i + 4] == [0, 0, 0, 0])
                        })
                        .collect();
                    if c.is_empty() {
                        (0..=b.len() - 4).collect()
                    } else {
                        c
                    }
                };
                let i = offs[pick(*slot, offs.len())];
                let cur = u32::from_le_bytes(b[i..i + 4].try_into().expect("4 bytes"));
                let v = len_edit_value(*how, cur, b.len() - i - 4);
                b[i..i + 4].copy_from_slice(&v.to_le_bytes());
            }
        }
        Mutation::Splice { at, other_at } => {
            let i = pick(*at, b.len() + 1);
            let j = pick(*other_at, other.len() + 1);
            b.truncate(i);
            b.extend_from_slice(&other[j..]);
        }
        Mutation::TagU16 { tag } => {
            if b.len() >= 2 {
                b[0..2].copy_from_slice(&tag.to_le_bytes());
            }
        }
        Mutation::TagU8 { tag } => {
            if !b.is_empty() {
                b[0] = *tag;
            }
        }
    }
    b
}

fn mutation_strategy() -> impl Strategy<Value = Mutation> {
    prop_oneof![
        4 => (any::<u16>(), 0u8..8).prop_map(|(pos, bit)| Mutation::BitFlip { pos, bit }),
        3 => (any::<u16>(), prop_oneof![Just(0u8), Just(1u8), Just(0xffu8), Just(0x80u8), any::<u8>()]).prop_map(|(pos, val)| Mutation::SetByte { pos, val }),
        2 => (any::<u16>(), proptest::collection::vec(any::<u8>(), 1..9)).prop_map(|(pos, bytes)| Mutation::Insert { pos, bytes }),
        2 => (any::<u16>(), any::<u8>()).prop_map(|(pos, len)| Mutation::Delete { pos, len }),
        3 => any::<u16>().prop_map(|pos| Mutation::Truncate { pos }),
        6 => (any::<u16>(), 0u8..16, prop::bool::weighted(0.25)).prop_map(|(slot, how, any)| Mutation::LenEdit { slot, how, any }),
        2 => (any::<u16>(), any::<u16>()).prop_map(|(at, other_at)| Mutation::Splice { at, other_at }),
        1 => any::<u16>().prop_map(|tag| Mutation::TagU16 { tag: tag % 40 }),
        1 => any::<u8>().prop_map(|tag| Mutation::TagU8 { tag }),
    ]
}

#[derive(Clone, Debug, Serialize, Deserialize, PartialEq, Eq, Hash)]
pub struct FuzzCase {
    /// entry point name
    pub entry: String,
    /// label of the seed type; empty = `raw` is the input
    pub seed: String,
    pub entropy: Vec<u8>,
    /// second seed for splices
    pub other_seed: String,
    pub other_entropy: Vec<u8>,
    pub mutations: Vec<Mutation>,
    /// short random input used instead of a seed
    pub raw: Vec<u8>,
}

fn case_strategy(entry: String, seeds: Vec<String>, all_seeds: Vec<String>) -> impl Strategy<Value = FuzzCase> {
    let n = seeds.len();
    let m = all_seeds.len();
    (
        0..n,
        entropy_strategy(),
        0..m,
        entropy_strategy(),
        proptest::collection::vec(mutation_strategy(), 0..4),
        prop_oneof![
            9 => Just(None),
            1 => proptest::collection::vec(any::<u8>(), 0..65).prop_map(Some),
        ],
    )
        .prop_map(move |(i, entropy, j, other_entropy, mutations, raw)| match raw {
            Some(raw) => FuzzCase {
                entry: entry.clone(),
                seed: String::new(),
                entropy: vec![],
                other_seed: String::new(),
                other_entropy: vec![],
                mutations: vec![],
                raw,
            },
            None => {
                let uses_other = mutations.iter().any(|m| matches!(m, Mutation::Splice { .. }));
                FuzzCase {
                    entry: entry.clone(),
                    seed: seeds[i].clone(),
                    entropy,
                    other_seed: if uses_other { all_seeds[j].clone() } else { String::new() },
                    other_entropy: if uses_other { other_entropy } else { vec![] },
                    mutations,
                    raw: vec![],
                }
            }
        })
}

// ---------------------------------------------------------------------------
// oracle
// ---------------------------------------------------------------------------

pub struct Ctx {
    pub types: Vec<TypeDef>,
    pub entries: Vec<Entry>,
}

impl Ctx {
    pub fn new() -> Self {
        Ctx { types: types(), entries: entries() }
    }
    pub fn entry(&self, name: &str) -> Option<(usize, &Entry)> {
        self.entries.iter().enumerate().find(|(_, e)| e.name == name)
    }
}

/// Verdict for one decoder call.
pub fn judge(entry: &Entry, input: &[u8], o: &Outcome, info: &mut CaseInfo) -> CheckResult {
    // `decode/WriteEvent` -> `WriteEvent`; other entry kinds keep their prefix
    let name = entry.name.strip_prefix("decode/").unwrap_or(&entry.name);
    let show = || {
        let h = hex::encode(&input[..input.len().min(96)]);
        format!("input ({} bytes): {}{}", input.len(), h, if input.len() > 96 { "…" } else { "" })
    };
    match o {
        Outcome::Value => {
            info.class("outcome:value");
            Ok(())
        }
        Outcome::Error(e) if e.starts_with(RUNAWAY) => Err(Failure::new(
            format!("runaway-iteration/{}", name),
            format!("{}: {}; {}", name, e, show()),
        )),
        Outcome::Error(_) => {
            info.class("outcome:error");
            Ok(())
        }
        Outcome::Contained { site, msg } if entry.wire => {
            info.class(format!("contained-panic/{}/{}", name, site));
            let _ = msg;
            Ok(())
        }
        Outcome::Contained { site, msg } => Err(Failure::new(
            format!("task-panic/{}/{}", name, site),
            format!("{} returned normally but a panic was raised (and swallowed by a spawned task) at {}: {}; {}", name, site, msg, show()),
        )),
        Outcome::Panic { site, msg } => Err(Failure::new(
            format!("decode-panic/{}/{}", name, site),
            format!("{} panicked at {}: {}; {}", name, site, msg, show()),
        )),
        Outcome::AllocTrip { extra, request } => Err(Failure::new(
            format!("alloc/{}", name),
            format!(
                "{} requested {} heap bytes in one allocation ({} bytes above the baseline; budget {} + {} x {}) — the request was refused and the worker stopped; {}",
                name,
                request,
                extra,
                BUDGET_BASE,
                BUDGET_FACTOR,
                input.len(),
                show()
            ),
        )),
        Outcome::Died { status } => Err(Failure::new(
            format!("abort/{}/{}", name, status.replace(' ', "-")),
            format!("the decoder worker died twice on this input ({}) in {}; {}", status, name, show()),
        )),
        Outcome::Hang => {
            info.class("outcome:hang-inconclusive");
            note(format!("{}: no answer within {} s; {}", name, CALL_TIMEOUT_S, show()));
            Ok(())
        }
    }
}

pub fn build_input(ctx: &Ctx, c: &FuzzCase) -> Result<(Vec<u8>, Vec<u8>), Failure> {
    if c.seed.is_empty() {
        return Ok((vec![], c.raw.clone()));
    }
    let seed = seed_bytes(&ctx.types, &c.seed, &c.entropy);
    let Some(seed) = seed else {
        return Ok((vec![], vec![]));
    };
    let other = if c.other_seed.is_empty() { vec![] } else { seed_bytes(&ctx.types, &c.other_seed, &c.other_entropy).unwrap_or_default() };
    let mut b = seed.clone();
    for m in &c.mutations {
        b = apply(b, &other, m);
    }
    Ok((seed, b))
}

pub fn check(ctx: &Ctx, c: &FuzzCase) -> (CaseInfo, CheckResult) {
    let mut info = CaseInfo::default();
    let Some((idx, entry)) = ctx.entry(&c.entry) else {
        return (info, Err(Failure::new("harness", format!("unknown entry {}", c.entry))));
    };
    let (seed, input) = match build_input(ctx, c) {
        Ok(x) => x,
        Err(f) => return (info, Err(f)),
    };
    info.class(format!("entry:{}", entry.name));
    if c.seed.is_empty() {
        info.class("input:short-random");
    } else if c.mutations.is_empty() {
        info.class("input:valid-seed");
    }
    for m in &c.mutations {
        info.class(match m {
            Mutation::BitFlip { .. } => "mut:bit-flip",
            Mutation::SetByte { .. } => "mut:set-byte",
            Mutation::Insert { .. } => "mut:insert",
            Mutation::Delete { .. } => "mut:delete",
            Mutation::Truncate { .. } => "mut:truncate",
            Mutation::LenEdit { .. } => "mut:length-edit",
            Mutation::Splice { .. } => "mut:splice",
            Mutation::TagU16 { .. } => "mut:tag-u16",
            Mutation::TagU8 { .. } => "mut:tag-u8",
        });
    }
    let o = exec(idx, &input);
    info.inner_evals += 1;
    let h = entry.header.min(seed.len()).min(input.len());
    let intact = !seed.is_empty() && seed[..h] == input[..h];
    if input != seed && (intact || o == Outcome::Value || c.seed.is_empty() && o == Outcome::Value) {
        info.nontrivial = true;
    }
    if let Err(f) = judge(entry, &input, &o, &mut info) {
        return (info, Err(f));
    }
    (info, Ok(()))
}

// ---------------------------------------------------------------------------
// inputs found by the coverage-guided tier (`tools/fuzz.sh C15`, target `decode`)
// ---------------------------------------------------------------------------

/// Sub-check name of replay files converted from libFuzzer artifacts.
pub const FUZZ_SUB: &str = "fuzz/decode";

/// `{ "entry": "decode/WriteEvent", "bytes_hex": "0000" }`: the bytes handed to one entry point.
#[derive(Clone, Debug, Serialize, Deserialize, PartialEq, Eq, Hash)]
pub struct FuzzDecodeCase {
    pub entry: String,
    pub bytes_hex: String,
}

/// Re-execution of a fuzzer input through the decoder worker (no libFuzzer involved).
pub fn check_fuzz_decode(ctx: &Ctx, c: &FuzzDecodeCase) -> (CaseInfo, CheckResult) {
    let mut info = CaseInfo::default();
    let Some((idx, entry)) = ctx.entry(&c.entry) else {
        return (info, Err(Failure::new("harness", format!("unknown entry {}", c.entry))));
    };
    let input = match hex::decode(&c.bytes_hex) {
        Ok(b) => b,
        Err(e) => return (info, Err(Failure::new("harness", format!("bad bytes_hex: {e}")))),
    };
    info.class(format!("entry:{}", entry.name));
    info.class("input:fuzzer");
    info.nontrivial = true;
    info.inner_evals = 1;
    let o = exec(idx, &input);
    let r = judge(entry, &input, &o, &mut info);
    (info, r)
}

// ---------------------------------------------------------------------------
// exhaustive truncation of valid encodings
// ---------------------------------------------------------------------------

#[derive(Clone, Debug, Serialize, Deserialize)]
pub struct TruncCase {
    pub entry: String,
    pub seed: String,
    pub entropy: Vec<u8>,
    /// `None`: every proper prefix; `Some(k)`: only the prefix of length k
    pub prefix: Option<usize>,
}

pub fn check_trunc(ctx: &Ctx, c: &TruncCase, mut each: impl FnMut(usize, &CaseInfo, &CheckResult) -> bool) {
    let Some((idx, entry)) = ctx.entry(&c.entry) else {
        return;
    };
    let Some(seed) = seed_bytes(&ctx.types, &c.seed, &c.entropy) else {
        return;
    };
    let range = match c.prefix {
        Some(k) => k.min(seed.len())..k.min(seed.len()) + 1,
        None => 0..seed.len(),
    };
    for k in range {
        let mut info = CaseInfo::default();
        info.nontrivial = true;
        info.inner_evals = 1;
        info.class(format!("entry:{}", entry.name));
        info.class("input:prefix-of-valid-encoding");
        let o = exec(idx, &seed[..k]);
        let r = judge(entry, &seed[..k], &o, &mut info).map_err(|mut f| {
            f.message = format!("[prefix of length {} of a valid {}-byte {} encoding] {}", k, seed.len(), c.seed, f.message);
            f
        });
        if !each(k, &info, &r) {
            break;
        }
    }
}

fn run_truncations(ctx: &Ctx, shard: &Shard, rep: &mut Report, only: Option<&str>) {
    for e in &ctx.entries {
        if let Some(o) = only {
            if !e.name.starts_with(o) {
                continue;
            }
        }
        let fs = e.name.starts_with("fs/");
        // seeds per shard and size limit (file-level readers cost milliseconds per call)
        let (per_shard, limit) = match (shard.tier, fs) {
            (Tier::Quick, false) => (2usize, 2048usize),
            (Tier::Quick, true) => (1, 768),
            (Tier::Thorough, false) => (60, 2048),
            (Tier::Thorough, true) => (12, 2048),
        };
        let sub = format!("truncate/{}", e.name);
        let mut seen = std::collections::HashSet::new();
        for k in 0..per_shard {
            // draw entropy until the encoding is non-empty and within the limit
            let mut chosen = None;
            for attempt in 0..8 {
                let entropy = sample_one(shard, &format!("{sub}#{k}#{attempt}"), &entropy_strategy());
                let label = &e.seeds[(k + attempt + shard.index as usize) % e.seeds.len()];
                match seed_bytes(&ctx.types, label, &entropy) {
                    Some(b) if !b.is_empty() && b.len() <= limit => {
                        chosen = Some((label.clone(), entropy));
                        break;
                    }
                    _ => {}
                }
            }
            let Some((label, entropy)) = chosen else {
                continue;
            };
            let case = TruncCase { entry: e.name.clone(), seed: label, entropy, prefix: None };
            let mut failures: Vec<(usize, Failure)> = vec![];
            check_trunc(ctx, &case, |p, info, r| {
                rep.record_case(&sub, hash_of(&(&case.entry, &case.seed, &case.entropy, p)), info);
                match r {
                    Ok(()) => true,
                    Err(f) => {
                        let known = shard.is_known(&f.signature);
                        failures.push((p, f.clone()));
                        // continue behind known findings, stop this seed at a new one
                        known
                    }
                }
            });
            for (p, f) in failures {
                let mut c = case.clone();
                c.prefix = Some(p);
                record_enumerated(shard, rep, &sub, serde_json::to_value(&c).unwrap_or(Value::Null), f, &mut seen);
            }
        }
    }
}

// ---------------------------------------------------------------------------
// enumerated wrap-boundary length edits
// ---------------------------------------------------------------------------

#[derive(Clone, Debug, Serialize, Deserialize, PartialEq, Eq, Hash)]
pub struct WrapCase {
    pub entry: String,
    pub seed: String,
    pub entropy: Vec<u8>,
    /// byte offset of the overwritten u32
    pub offset: usize,
    pub value: u32,
}

pub fn wrap_values() -> Vec<u32> {
    let mut v: Vec<u32> = (0..=16u32).map(|k| u32::MAX - k).collect();
    v.extend([(1u32 << 31) - 1, 1 << 31, (1 << 31) + 1]);
    v
}

fn length_offsets(b: &[u8], cap: usize) -> Vec<usize> {
    if b.len() < 4 {
        return vec![];
    }
    let c: Vec<usize> = (0..=b.len() - 4)
        .filter(|i| {
            let v = u32::from_le_bytes(b[*i..*i + 4].try_into().expect("4 bytes")) as usize;
            v <= b.len() - i - 4 + 8 && v > 0
        })
        .collect();
    if c.len() <= cap {
        return c;
    }
    // spread evenly, always keep the first and the last candidate
    (0..cap).map(|k| c[k * (c.len() - 1) / (cap - 1)]).collect()
}

pub fn check_wrap(ctx: &Ctx, c: &WrapCase) -> (CaseInfo, CheckResult) {
    let mut info = CaseInfo::default();
    let Some((idx, entry)) = ctx.entry(&c.entry) else {
        return (info, Err(Failure::new("harness", format!("unknown entry {}", c.entry))));
    };
    let Some(mut b) = seed_bytes(&ctx.types, &c.seed, &c.entropy) else {
        return (info, Err(Failure::new("harness", format!("unknown seed type {}", c.seed))));
    };
    if c.offset + 4 > b.len() {
        return (info, Ok(()));
    }
    b[c.offset..c.offset + 4].copy_from_slice(&c.value.to_le_bytes());
    info.nontrivial = true;
    info.inner_evals = 1;
    info.class(format!("entry:{}", entry.name));
    info.class("input:length-field-at-wrap-boundary");
    let o = exec(idx, &b);
    let r = judge(entry, &b, &o, &mut info).map_err(|mut f| {
        f.message = format!("[u32 at offset {} of a valid {} encoding set to {:#x}] {}", c.offset, c.seed, c.value, f.message);
        f
    });
    (info, r)
}

fn run_length_wraps(ctx: &Ctx, shard: &Shard, rep: &mut Report, only: Option<&str>) {
    for e in &ctx.entries {
        if e.text {
            continue;
        }
        if let Some(o) = only {
            if !e.name.starts_with(o) {
                continue;
            }
        }
        let fs = e.name.starts_with("fs/");
        let (per_shard, cap, limit) = match (shard.tier, fs) {
            (Tier::Quick, false) => (1usize, 24usize, 2048usize),
            (Tier::Quick, true) => (1, 6, 768),
            (Tier::Thorough, false) => (20, 48, 4096),
            (Tier::Thorough, true) => (6, 24, 2048),
        };
        let sub = format!("length-wrap/{}", e.name);
        let mut seen = std::collections::HashSet::new();
        for k in 0..per_shard {
            let mut chosen = None;
            for attempt in 0..8 {
                let entropy = sample_one(shard, &format!("{sub}#{k}#{attempt}"), &entropy_strategy());
                let label = &e.seeds[(k + attempt + shard.index as usize) % e.seeds.len()];
                match seed_bytes(&ctx.types, label, &entropy) {
                    Some(b) if b.len() >= 4 && b.len() <= limit => {
                        chosen = Some((label.clone(), entropy, b));
                        break;
                    }
                    _ => {}
                }
            }
            let Some((label, entropy, b)) = chosen else {
                continue;
            };
            'seed: for off in length_offsets(&b, cap) {
                for v in wrap_values() {
                    let case = WrapCase { entry: e.name.clone(), seed: label.clone(), entropy: entropy.clone(), offset: off, value: v };
                    let (info, r) = check_wrap(ctx, &case);
                    rep.record_case(&sub, hash_of(&case), &info);
                    if let Err(f) = r {
                        let known = shard.is_known(&f.signature);
                        record_enumerated(shard, rep, &sub, serde_json::to_value(&case).unwrap_or(Value::Null), f, &mut seen);
                        if !known {
                            break 'seed;
                        }
                    }
                }
            }
        }
    }
}

// ---------------------------------------------------------------------------
// exhaustive tag spaces
// ---------------------------------------------------------------------------

#[derive(Clone, Debug, Serialize, Deserialize)]
pub struct TagCase {
    pub entry: String,
    /// little-endian tag value written at offset 0 (u16 for events, u8 otherwise)
    pub tag: u32,
    pub wide: bool,
    /// bytes following the tag
    pub body: Vec<u8>,
}

pub fn check_tag(ctx: &Ctx, c: &TagCase) -> (CaseInfo, CheckResult) {
    let mut info = CaseInfo::default();
    let Some((idx, entry)) = ctx.entry(&c.entry) else {
        return (info, Err(Failure::new("harness", format!("unknown entry {}", c.entry))));
    };
    let mut input = if c.wide { (c.tag as u16).to_le_bytes().to_vec() } else { vec![c.tag as u8] };
    input.extend_from_slice(&c.body);
    let o = exec(idx, &input);
    info.inner_evals = 1;
    info.nontrivial = true;
    info.class(format!("entry:{}", entry.name));
    let r = judge(entry, &input, &o, &mut info);
    (info, r)
}

/// Record a failure of an enumerated case like `drive` does for generated ones.
fn record_enumerated(shard: &Shard, rep: &mut Report, sub: &str, case: Value, f: Failure, seen: &mut std::collections::HashSet<String>) {
    if shard.is_known(&f.signature) {
        *rep.known_hits.entry(f.signature.clone()).or_default() += 1;
        rep.known_examples.entry(f.signature.clone()).or_insert(json!({"message": f.message, "case": case}));
    } else if seen.insert(f.signature.clone()) {
        rep.violations.push(FoundViolation { sub: sub.to_string(), signature: f.signature, message: f.message, case });
    }
}

fn run_tag_spaces(ctx: &Ctx, shard: &Shard, rep: &mut Report) {
    // bodies: empty, fixed pattern, and the bodies of valid encodings
    let bodies_of = |label: &str, strip: usize| -> Vec<Vec<u8>> {
        let mut v = vec![vec![], (0u8..64).map(|i| i.wrapping_mul(37)).collect::<Vec<u8>>()];
        for e in [&[1u8, 2, 3, 4, 5, 6, 7, 8, 9, 10, 11, 12][..], &[200u8, 100, 50, 25, 12, 6, 3, 1, 0, 255, 254, 253, 7, 7, 7, 7, 7, 7, 7, 7, 7, 7, 7, 7, 7, 7, 7, 7, 7, 7, 7, 7, 7, 7, 7, 7, 7, 7, 7, 7, 7, 7, 7, 7][..]] {
            if let Some(b) = seed_bytes(&ctx.types, label, e) {
                if b.len() >= strip {
                    v.push(b[strip..].to_vec());
                }
            }
        }
        v
    };
    let wide: &[(&str, &str)] = &[
        ("decode/WriteEvent", "WriteEvent"),
        ("decode/AccountEvent", "AccountEvent"),
        ("decode/DeviceEvent", "DeviceEvent"),
        ("decode/FileEvent", "FileEvent"),
        ("decode_event/WriteEvent", "WriteEvent"),
        ("decode_event/AccountEvent", "AccountEvent"),
        ("decode_event/DeviceEvent", "DeviceEvent"),
        ("decode_event/FileEvent", "FileEvent"),
        ("decode/EventKind", "WriteEvent"),
    ];
    let narrow: &[(&str, &str)] = &[
        ("decode/Cipher", "Cipher"),
        ("decode/KeyDerivation", "KeyDerivation"),
        ("decode/Comparison", "Comparison"),
        ("decode/Secret", "Secret"),
        ("decode/SecretMeta", "SecretMeta"),
        ("decode/SharedAccess", "SharedAccess"),
        ("decode/AeadPack", "AeadPack"),
        ("decode/FileContent", "seed:FileContent"),
        ("decode/SecretSigner", "seed:SecretSigner"),
    ];
    let mut full = true;
    for (entry, label, is_wide) in wide.iter().map(|(e, l)| (*e, *l, true)).chain(narrow.iter().map(|(e, l)| (*e, *l, false))) {
        let sub = format!("{}/{}", if is_wide { "tags-u16" } else { "tags-u8" }, entry.split('/').last().unwrap_or(entry));
        let sub = if entry.starts_with("decode_event") { format!("{}(decode_event)", sub) } else { sub };
        let bodies = bodies_of(label, if is_wide { 2 } else { 1 });
        let space: u32 = if is_wide { 65536 } else { 256 };
        let mut seen = std::collections::HashSet::new();
        for tag in 0..space {
            if tag % shard.count != shard.index {
                continue;
            }
            // quick tier: the whole tag space with the empty body and the
            // pattern body, valid-event bodies for tags below 1024 only
            for (bi, body) in bodies.iter().enumerate() {
                if shard.tier == Tier::Quick && is_wide && bi >= 2 && tag >= 1024 {
                    full = false;
                    continue;
                }
                let case = TagCase { entry: entry.to_string(), tag, wide: is_wide, body: body.clone() };
                let (info, r) = check_tag(ctx, &case);
                rep.record_case(&sub, hash_of(&(entry, tag, bi)), &info);
                if let Err(f) = r {
                    record_enumerated(shard, rep, &sub, serde_json::to_value(&case).unwrap_or(Value::Null), f, &mut seen);
                }
            }
        }
    }
    rep.exhaustive = Some(full);
    if shard.index == 0 {
        rep.notes.push(format!(
        "tag spaces: every u16 tag for 4 event decoders + decode_event + EventKind and every u8 leading tag for 9 types were enumerated with an empty body and a pattern body; bodies of valid encodings for {}",
            if full { "every tag" } else { "tags < 1024 (quick tier)" }
        ));
    }
}

// ---------------------------------------------------------------------------
// run / replay
// ---------------------------------------------------------------------------

fn run_shard(shard: &Shard, rep: &mut Report) {
    let ctx = Ctx::new();
    let per_entry = shard.tier.pick(3_200u64, 230_000);
    let all_seed_labels: Vec<String> = ctx.types.iter().filter(|t| t.format != Format::Db).map(|t| t.label()).collect();
    // debugging aid: VERIF_C15_ONLY=<prefix> restricts the run to matching sub-checks
    let only = std::env::var("VERIF_C15_ONLY").ok();
    let timing = std::env::var("VERIF_C15_TIMING").is_ok();
    for e in &ctx.entries {
        if let Some(o) = &only {
            if !e.name.starts_with(o.as_str()) {
                continue;
            }
        }
        let t0 = std::time::Instant::now();
        let others = if e.text { e.seeds.clone() } else { all_seed_labels.clone() };
        let strategy = case_strategy(e.name.clone(), e.seeds.clone(), others);
        drive(shard, rep, &e.name, shard.share(per_entry), strategy, |c| check(&ctx, c));
        if timing && shard.index == 0 {
            eprintln!("[timing] {} {:.2}s", e.name, t0.elapsed().as_secs_f64());
        }
    }
    {
        let t0 = std::time::Instant::now();
        run_truncations(&ctx, shard, rep, only.as_deref());
        if timing && shard.index == 0 {
            eprintln!("[timing] truncations {:.2}s", t0.elapsed().as_secs_f64());
        }
    }
    {
        let t0 = std::time::Instant::now();
        run_length_wraps(&ctx, shard, rep, only.as_deref());
        if timing && shard.index == 0 {
            eprintln!("[timing] length wraps {:.2}s", t0.elapsed().as_secs_f64());
        }
    }
    if only.is_none() || only.as_deref() == Some("tags") {
        let t0 = std::time::Instant::now();
        run_tag_spaces(&ctx, shard, rep);
        if timing && shard.index == 0 {
            eprintln!("[timing] tag spaces {:.2}s", t0.elapsed().as_secs_f64());
        }
    }
    shutdown_client();
    if let Ok(mut n) = NOTES.lock() {
        for s in n.drain(..) {
            rep.inconclusive.push(s);
        }
    }
}

fn replay(_shard: &Shard, sub: &str, case: &Value) -> CheckResult {
    let ctx = Ctx::new();
    let r = if sub == FUZZ_SUB {
        match from_case::<FuzzDecodeCase>(case) {
            Ok(c) => check_fuzz_decode(&ctx, &c).1,
            Err(e) => Err(Failure::new("harness", e)),
        }
    } else if sub.starts_with("length-wrap/") {
        match from_case::<WrapCase>(case) {
            Ok(c) => check_wrap(&ctx, &c).1,
            Err(e) => Err(Failure::new("harness", e)),
        }
    } else if sub.starts_with("truncate/") {
        match from_case::<TruncCase>(case) {
            Ok(c) => {
                let mut out = Ok(());
                check_trunc(&ctx, &c, |_, _, r| {
                    if let Err(f) = r {
                        out = Err(f.clone());
                        false
                    } else {
                        true
                    }
                });
                out
            }
            Err(e) => Err(Failure::new("harness", e)),
        }
    } else if sub.starts_with("tags-") {
        match from_case::<TagCase>(case) {
            Ok(c) => check_tag(&ctx, &c).1,
            Err(e) => Err(Failure::new("harness", e)),
        }
    } else {
        match from_case::<FuzzCase>(case) {
            Ok(c) => check(&ctx, &c).1,
            Err(e) => Err(Failure::new("harness", e)),
        }
    };
    shutdown_client();
    r
}
